'''C08 Functional update interfaces change only what they address.'''
from sfa.report import Ctx
from sfa.rules import blockrules
from sfa.rules import recache
from sfa.rules import flowmisc
from sfa.rules import forwardrules
from sfa.rules import frozen
from sfa.rules import resolve
from sfa.rules import selectrules
from sfa.rules import updaterules

LEVEL_TEXT = (
    'Static decision of structural clauses of C08: (a) label pass-through — each of 34 value-only operations (assign iloc/bloc, '
    'SeriesAssign, astype, mask, fillna*, isin, clip, shift, unary operators, round, isna/notna, cumulative functions) constructs its '
    'result with exactly the original index (and columns) object and, where the interface says so, the original name; transpose '
    'swaps whole labels; (b) original untouched — every in-place array write inside the update / assign / fill / shift / drop / '
    'astype workers targets an array allocated in the same function (typestate, as C01-R3); (c) drop removes values and labels with '
    'the same key per axis; (d) FrameAssignILoc sorts the column key with key_to_ascending_key and uses that same key to align and to '
    'assign; (e) the bloc coordinate writer/reader agree. Option forwarding: in every functional-update interface each call to a resolved callee that accepts a parameter named like one of the function\'s own parameters passes it on (confirmed exceptions listed in sfa/rules/forwardrules.py). Configured generic check: no np attribute removed from the pinned NumPy 2.x is referenced in core (np.in1d made isin / label-aligned fillna raise). Sibling defaults: a parameter taken by the same-named method of several container classes has the same default in each (confirmed exceptions listed in sfa/rules/forwardrules.py). rename / relabel of a grown hierarchical index: every read of the lazily cached IndexHierarchy table is dominated by the staleness guard (B.recache). Slice cardinality: every `<slice>.indices(n)` result in core is consumed whole or any stop - start span is computed with the step (single-row detection, assigned widths and fill limits count stepped slices correctly). Aligned positional stores: a labelled value stored into selected positions is reindexed to the own labels of the receiver at exactly those positions (same key for alignment and store). Optional labels: a label parameter defaulting to None is tested by identity, never by truthiness (relabel_level_add adds a level 0 / "" too). Index rebuilds: an index rebuilt from an existing one through its own class carries that index\'s name (astype of a hierarchical index, insert_before / insert_after). Derived flags: a local recording a fact about an array (any / all / sum / len) is not tested after that array was changed in place (a block is passed through untouched exactly when the narrowed mask is empty). Copies behind relabel / rename: every raw TypeBlocks constructor call (TypeBlocks.__copy__) hands over fresh copies of the block list, dtype list and index list, so growing the result never changes the source (I.typeblocks-raw-constructor). Descending keys: slice_to_ascending_slice restates negative bounds as positions (or normalises with .indices) before computing the ascending slice that mask / drop / astype use. Not decided: the block-splicing arithmetic of _assign_from_*, get_block_match, '
    'value alignment of labelled values.')

CLAIM = dict(
    text=LEVEL_TEXT,
    technique='label pass-through extraction over a frozen site table + array typestate on the update workers + key-normalisation def-use check',
    design_ref='DESIGN.md section 3 C08',
)

UPDATE_PREFIXES = ('_assign', 'assign', '_fillna', 'fillna', '_shift', 'shift', '_drop', '_mask', '_astype', 'astype', 'clip', '_insert',
                   'resize_blocks', 'extract_iloc_assign', 'extract_bloc_assign', 'extract_iloc_mask', 'roll', '__round__', '_ufunc_blocks', 'array_shift')


def run(ctx: Ctx) -> None:
    updaterules.label_passthrough(ctx)
    updaterules.transpose_form(ctx)
    updaterules.drop_pairs(ctx)
    updaterules.assign_keys(ctx)
    updaterules.aligned_store_key(ctx)
    updaterules.index_rebuild_carries_name(ctx)
    flowmisc.optional_hashable_tests(ctx)
    selectrules.bloc_coordinates(ctx)
    resolve.f1_resolver_coverage(ctx)
    resolve.f1_resolver_operand(ctx)
    d = frozen.Driver(ctx)
    funcs = [f for f in ctx.prog.top_funcs() if f.name.startswith(UPDATE_PREFIXES) or f.name == '__call__' and f.cls is not None
             and f.cls.name in ('FrameAssignILoc', 'FrameAssignBLoc', 'SeriesAssign', 'FrameAsType')]
    ctx.require(len(funcs) >= 60, 'update workers')
    frozen.r3_no_inplace(ctx, d, funcs=funcs, rule_id='A-R3.inplace-write[update]', floor=40)
    forwardrules.forwarding(ctx, modules=None, prefixes=('assign', 'astype', 'insert', 'drop', 'relabel', 'rename', 'mask', '_insert', 'clip', 'isin', 'shift', 'roll', 'reindex', '_reindex'), suffix='update', floor=50, what='functional-update interface')
    flowmisc.numpy_removed_api(ctx)
    forwardrules.sibling_defaults(ctx, prefixes=('assign', 'astype', 'insert', 'drop', 'relabel', 'rename', 'mask', '_insert', 'clip', 'isin', 'shift', 'roll', 'reindex', '_reindex'), suffix='update', floor=16)
    recache.check(ctx, 'IndexHierarchy', floor_reads=38)
    blockrules.slice_cardinality(ctx)
    flowmisc.stale_derived_flag(ctx)
    blockrules.raw_constructor_sites(ctx)
    blockrules.descending_slice_normalised(ctx)
