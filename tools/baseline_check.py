#!/usr/bin/env python3
'''Run the repository's pinned suite (no hooks exist, so the guard is trivially off) and compare
with BASELINE.json: every test listed in stable_pass must still pass.
Usage: baseline_check.py [-n JOBS]
'''
import json
import os
import subprocess
import sys
import tempfile
import xml.etree.ElementTree as ET


def main() -> None:
    jobs = sys.argv[sys.argv.index('-n') + 1] if '-n' in sys.argv else None
    paths = [a for i, a in enumerate(sys.argv[1:], 1) if a.endswith('.py') or a.endswith('/')]
    with open('/root/.vp/BASELINE.json') as f:
        base = json.load(f)
    want = set(base['stable_pass'])
    with tempfile.TemporaryDirectory() as d:
        xml = os.path.join(d, 'junit.xml')
        cmd = ['/venv/bin/python', '-m', 'pytest', '-ra', '-q', '-p', 'no:cacheprovider', '--timeout=900',
               '--continue-on-collection-errors', f'--junitxml={xml}']
        if jobs:
            cmd += ['-n', jobs]
        cmd += paths
        env = dict(os.environ)
        env.pop('INVESTMENTSYSTEMS_STATIC_FRAME_VERIF', None)
        # the hypothesis example database under /repo/.hypothesis is git-ignored state: keep it as found,
        # otherwise a failing random example discovered here would be replayed by every later run
        import shutil
        hyp = '/repo/.hypothesis'
        bak = os.path.join(d, 'hypothesis.bak')
        had = os.path.isdir(hyp)
        if had:
            shutil.copytree(hyp, bak)
        try:
            r = subprocess.run(cmd, cwd='/repo', env=env, stdout=subprocess.PIPE, stderr=subprocess.STDOUT, text=True)
        finally:
            shutil.rmtree(hyp, ignore_errors=True)
            if had:
                shutil.copytree(bak, hyp)
        tail = r.stdout.strip().splitlines()[-1:]
        passed = set()
        why = {}
        for tc in ET.parse(xml).getroot().iter('testcase'):
            name = f"{tc.get('classname')}::{tc.get('name')}"
            bad = [ch for ch in tc if ch.tag in ('failure', 'error', 'skipped')]
            if not bad:
                passed.add(name)
            else:
                why[name] = (bad[0].get('message') or '')[:300].replace('\n', ' ')
    if paths:
        mods = {p.rstrip('/').replace('/', '.')[:-3] if p.endswith('.py') else p.rstrip('/').replace('/', '.') for p in paths}
        want = {w for w in want if any(w.startswith(m) for m in mods)}
    missing = sorted(want - passed)
    print(tail[0] if tail else '')
    print(f'stable_pass={len(want)} passed_now={len(passed)} missing={len(missing)}')
    for m in missing[:40]:
        print('  NOT PASSING:', m, '--', why.get(m, 'not run'))
    sys.exit(1 if missing else 0)


main()
