'''C01 Immutability: no public operation changes an existing static container.'''
from sfa.report import Ctx
from sfa.rules import frozen
from sfa.rules import own

LEVEL_TEXT = (
    'Static decision of the structural clauses of C01 by an array typestate analysis (read-only / fresh local allocation / '
    'caller-supplied / unknown) over every function of static_frame/core, with interprocedural return summaries and the '
    'trusted NumPy view/copy table. R1: every store into an owned array slot (Series.values, Index._labels/_positions, '
    'ArrayGO._array, PositionsAllocator._array, TypeBlocks._blocks incl. every raw TypeBlocks(...) constructor call) is '
    'read-only at every exit; R3: every in-place array write targets an allocation of the same function that is not yet frozen; '
    'together these are an inductive invariant (owned storage is always read-only) modulo the trusted base. R4: __setstate__ '
    're-freezes every owned slot and __deepcopy__ builds them with array_deepcopy, which copies the flag; R5: caller arrays are '
    'frozen in place only under an own_* guard; R6: static classes define no mutators and rebind content slots only in '
    'constructors/refreshers; C.sharing-guards: a static container keeps a donor\'s hash map / level tree / itself only when the donor is static too ("the objects it was built from" clause); R2: arrays returned by public methods annotated np.ndarray are read-only (three-valued). '
    'Fresh arrays: a public method that returns an array it has just made (a direct NumPy allocation, a fancy-indexed copy, the ufunc result of the Index-family axis helper) freezes it before the return (A-R7). Not decided: deep value snapshots over call sequences, mutable elements of object arrays, writes through ndarray.base, '
    'R2 returns whose flow passes an unresolved callee (counted as undecided).')

CLAIM = dict(
    text=LEVEL_TEXT,
    technique='array typestate dataflow (frozen / fresh / caller / unknown) with function summaries; inductive slot invariant R1+R3; guard-dominance on the sites that share donor storage',
    design_ref='DESIGN.md section 2.A and section 3 C01',
)


def run(ctx: Ctx) -> None:
    d = frozen.Driver(ctx)
    frozen.r1_slot_frozen(ctx, d)
    frozen.r3_no_inplace(ctx, d)
    frozen.r4_reanimation(ctx, d)
    frozen.r5_caller_arrays(ctx, d)
    frozen.r6_no_mutators(ctx, d)
    frozen.r2_public_returns(ctx, d)
    frozen.r7_fresh_returns(ctx)
    own.c_sharing_guards(ctx)
    ctx.extra['call_resolution'] = dict(d.sums.stats)
