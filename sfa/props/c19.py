'''C19 Quilt and Batch are faithful views over the Frames they hold.'''
from sfa.report import Ctx
from sfa.rules import forwardrules
from sfa.rules import flowmisc
from sfa.rules import quiltrules
from sfa.rules import recache
from sfa.rules import resolve
from sfa.rules import table

LEVEL_TEXT = (
    'Static decision of structural clauses of C19: (a) every read of the lazily assigned Quilt axis slots '
    '(_index, _columns, _axis_map, _axis_opposite) is dominated by the _assign_axis guard on every path; '
    '(b) every Batch method that forwards through _apply_attr names the Frame attribute it is named after, forwards '
    'every own parameter under the same name and passes no keyword the Frame method lacks (34 forwards); '
    '(c) Batch._derive propagates config / max_workers / chunksize / use_threads; (d) per path of Quilt._extract / _extract_array (symbolic store): the axis-map mask is set from the key of the Quilt axis, each Bus Frame is cut with its slice of that mask on the Quilt axis and the caller\'s other key on the opposite axis, parts are joined along self._axis through Frame.from_concat / concat_resolved (never a bare np.concatenate: F2), retained Bus labels are added on the Quilt axis. Retained labels: every value-returning path of the Quilt methods that branch on retain_labels has consulted that option (no shortcut hands out a Frame without the Bus-label level). Optional labels: a label parameter defaulting to None is tested by identity, never by truthiness (relabel_level_add adds a level 0 / "" too). Key order: the key of the Quilt axis must not be reduced to a set of positions without telling ordered key kinds apart (two known findings: a list / array / descending-slice key loses its order inside each component). Option forwarding: each Quilt / Batch routine passes its own same-named parameters on to the resolved callee that accepts them (window options such as label_shift reach the item generator). Not decided: '
    'the contents of the axis map itself; window arithmetic.')

CLAIM = dict(
    text=LEVEL_TEXT,
    technique='lazy-slot guard dominance (dataflow) + per-path symbolic-store provenance of the per-Frame cut + declarative forward-table extraction and comparison',
    design_ref='DESIGN.md section 2.B, 2.G and section 3 C19',
)


def run(ctx: Ctx) -> None:
    recache.check(ctx, 'Quilt', floor_reads=25)
    table.t7_batch(ctx)
    table.t9_derive(ctx, which=('Batch',))
    quiltrules.axis_routing(ctx)
    quiltrules.option_consulted(ctx)
    quiltrules.key_order(ctx)
    flowmisc.optional_hashable_tests(ctx)
    resolve.f2_concatenations(ctx)
    forwardrules.forwarding(ctx, modules=('quilt', 'batch'), prefixes=('_axis', 'iter_', '_extract', 'to_', 'from_', '_apply', 'apply', '_ufunc', 'sort', 'head', 'tail', 'equals', 'rename', 'unique', 'isin', 'sample'), suffix='view', floor=100, what='Quilt / Batch routine')
