'''C18 rules: order-preserving executor primitives, single-pass label/result pairing, surfaced errors.'''
from __future__ import annotations

import ast
import typing as tp

from sfa.model import AnalysisError
from sfa.model import FuncInfo
from sfa.model import call_name
from sfa.model import kwarg
from sfa.model import norm
from sfa.model import walk_local
from sfa import roles
from sfa.report import Ctx

UNORDERED = ('as_completed', 'wait', 'imap_unordered', 'imap', 'apply_async', 'map_async', 'add_done_callback', 'starmap_async')
PARALLEL_SITES = ('node_iter.IterNodeDelegate._apply_iter_items_parallel', 'batch.Batch._apply_pool', 'batch.Batch._apply_pool_except',
                  'store_zip._StoreZip.read_many', 'store_zip._StoreZip.write')


def ordered_primitives(ctx: Ctx) -> None:
    R = 'I.parallel-ordered-primitives'
    ctx.rule(R, 'worker results are consumed only through order-preserving primitives: Executor.map (submission order) or futures '
             'read back in submission order; as_completed / wait / imap_unordered / callbacks do not occur in core; every pool is '
             'given the configured worker count and chunk size', floor=6)
    prog = ctx.prog
    n_names = 0
    for m in prog.modules.values():
        for n in ast.walk(m.tree):
            name = n.id if isinstance(n, ast.Name) else n.attr if isinstance(n, ast.Attribute) else None
            if isinstance(n, ast.alias):
                name = n.name.split('.')[-1]
            if name is None:
                continue
            n_names += 1
            if name in UNORDERED:
                ctx.bad(R, f'{m.short}.<module>', n if hasattr(n, 'lineno') else None, f'`{name}` yields results in completion order: labels zipped with them are shifted '
                        'whenever tasks finish out of order', key=f'{m.short}:{name}', file=m.relpath)
    fx = ast.parse('from concurrent.futures import as_completed\nfor f in as_completed(fs): pass')
    if not any(isinstance(n, ast.Name) and n.id in UNORDERED for n in ast.walk(fx)):
        raise AnalysisError('positive fixture of I.parallel-ordered-primitives no longer matches')
    ctx.ok(R, 'core.<all names>', None, f'{n_names} names scanned; none of {UNORDERED} (fixture matched)', key='no-unordered', file='static_frame/core')
    for qual in PARALLEL_SITES:
        f = prog.func(qual)
        execs = _executors(f.node)
        maps = [c for c in ast.walk(f.node) if isinstance(c, ast.Call) and isinstance(c.func, ast.Attribute) and c.func.attr == 'map'
                and isinstance(c.func.value, ast.Name) and c.func.value.id in execs]
        submits = [c for c in ast.walk(f.node) if isinstance(c, ast.Call) and isinstance(c.func, ast.Attribute) and c.func.attr == 'submit'
                   and isinstance(c.func.value, ast.Name) and c.func.value.id in execs]
        key = f'site:{qual.split(".", 1)[1]}'
        if maps:
            cs = kwarg(maps[0], 'chunksize')
            pools = [c for c in ast.walk(f.node) if isinstance(c, ast.Call) and kwarg(c, 'max_workers') is not None]
            good = cs is not None and not isinstance(cs, ast.Constant) and pools and not isinstance(kwarg(pools[0], 'max_workers'), ast.Constant)
            (ctx.ok if good else ctx.bad)(R, f, maps[0], f'executor.map(chunksize={norm(cs)}) in a pool with max_workers={norm(kwarg(pools[0], "max_workers")) if pools else "?"}' if good else
                                          'the pool ignores the configured worker count / chunk size', key=key)
        elif submits:
            # futures appended in submission order and read back by zipping with the labels
            # the list the futures are appended to (in submission order) is the one read back, zipped after the label list
            flists = [c.func.value.id for c in ast.walk(f.node) if isinstance(c, ast.Call) and isinstance(c.func, ast.Attribute) and c.func.attr == 'append'
                      and isinstance(c.func.value, ast.Name) and c.args and c.args[0] is submits[0]]
            appended = bool(flists)
            readback = any(isinstance(n, ast.For) and isinstance(n.iter, ast.Call) and call_name(n.iter) == 'zip' and len(n.iter.args) == 2
                           and isinstance(n.iter.args[1], ast.Name) and n.iter.args[1].id in flists
                           and isinstance(n.iter.args[0], ast.Name) and n.iter.args[0].id in f.params for n in ast.walk(f.node))
            (ctx.ok if appended and readback else ctx.bad)(R, f, submits[0], 'futures are collected in submission order and read back with zip(labels, futures)' if appended and readback else
                                                           'futures are not read back in submission order', key=key)
        else:
            ctx.bad(R, f, f.node, 'no executor.map / submit found at a registered parallel site', key=key)


def _executors(fn: ast.AST) -> tp.Set[str]:
    '''Names bound by `with <pool constructor>(...) as name` (a call given max_workers, or a *PoolExecutor / pool_executor).'''
    def is_pool(e: ast.expr) -> bool:
        return isinstance(e, ast.Call) and (kwarg(e, 'max_workers') is not None or 'xecutor' in call_name(e) or 'Pool' in call_name(e))
    return {n for n, _ in roles.with_targets(fn, is_pool)}


def single_pass_pairing(ctx: Ctx) -> None:
    R = 'I.parallel-label-pairing'
    ctx.rule(R, 'the label list zipped with worker results is appended to inside the very generator that yields the task arguments: '
             'one append of the iteration\'s own label before each yield, in every loop of the generator, and that same list is the '
             'one zipped with (or handed to the pool helper together with) the generator', floor=8)
    prog = ctx.prog
    n = 0
    for f in prog.all_funcs():
        if isinstance(f.node, ast.Lambda) or f.parent is None or not f.is_generator() or not _feeds_pool(f):
            continue
        n += 1
        parent = f.parent
        loops = [x for x in walk_local(f.node) if isinstance(x, ast.For)]
        key = f'{parent.qualname.split(".", 1)[1]}.{f.name}#{sum(1 for g in parent.nested if g.name == f.name and g.node.lineno <= f.node.lineno)}'
        problems = []
        lists: tp.Set[str] = set()
        if not loops:
            problems.append('no loop')
        for lp in loops:
            body = lp.body
            yields = [i for i, s in enumerate(body) if isinstance(s, ast.Expr) and isinstance(s.value, ast.Yield)]
            appends = [(i, s.value) for i, s in enumerate(body) if isinstance(s, ast.Expr) and isinstance(s.value, ast.Call)
                       and isinstance(s.value.func, ast.Attribute) and s.value.func.attr == 'append']
            if len(yields) != 1 or len(appends) != 1:
                problems.append(f'{len(appends)} append(s) for {len(yields)} yield(s) in one loop')
                continue
            if appends[0][0] > yields[0]:
                problems.append('the label is appended after the yield (the consumer may zip before it exists)')
            lab = appends[0][1].args[0] if appends[0][1].args else None
            tnames = [x.id for x in ast.walk(lp.target) if isinstance(x, ast.Name)]
            if not (isinstance(lab, ast.Name) and tnames and lab.id == tnames[0]):
                problems.append(f'the appended label `{norm(lab)}` is not the first element of the loop target `{norm(lp.target)}`')
            lists.add(norm(appends[0][1].func.value))
            # the yielded value must come from the same iteration (mentions a loop-target name)
            yv = body[yields[0]].value.value
            if not any(isinstance(x, ast.Name) and x.id in tnames for x in ast.walk(yv)):
                problems.append('the yielded argument does not come from the same iteration')
        if len(lists) == 1:
            lst = next(iter(lists))
            # the consumer: zip(lst, executor.map(..., arg_gen(), ...)) or self._apply_pool*(lst, arg_gen(), ...)
            al = _gen_aliases(parent.node, f.name)
            uses = [c for c in ast.walk(parent.node) if isinstance(c, ast.Call) and any((isinstance(a, ast.Call) and isinstance(a.func, ast.Name) and a.func.id == f.name)
                                                                                          or (isinstance(a, ast.Name) and a.id in al) for a in ast.walk(c))
                    and (call_name(c) == 'zip' or call_name(c).startswith('self._apply_pool'))]
            if not uses:
                problems.append(f'{f.name}() is not consumed together with its label list')
            for u in uses:
                # the label list is the first argument: positional, or by the keyword of the helper's first parameter
                first = u.args[0] if u.args else None
                if first is None and call_name(u).startswith('self.') and parent.cls is not None:
                    callee = parent.cls.methods.get(call_name(u).split('.', 1)[1])
                    if callee is not None and len(callee.params) > 1:
                        first = kwarg(u, callee.params[1])
                if not (first is not None and norm(first) == lst):
                    problems.append(f'`{call_name(u)}` pairs the results with `{norm(first) if first is not None else "?"}` instead of `{lst}`')
            fresh = [a for a in walk_local(parent.node) if isinstance(a, ast.Assign) and norm(a.targets[0]) == lst and norm(a.value) == '[]']
            if len(fresh) != 1:
                problems.append(f'`{lst}` is not a fresh empty list of this call')
        elif len(lists) > 1:
            problems.append(f'labels are appended to different lists {sorted(lists)}')
        (ctx.bad if problems else ctx.ok)(R, f, f.node, '; '.join(problems) or f'one label append before each yield into `{next(iter(lists))}`, zipped with the generator\'s results', key=key)
    ctx.require(n >= 7, 'arg_gen generators at the parallel sites')
    # the pool helpers zip (labels, results) in that order
    for qual in ('batch.Batch._apply_pool', 'node_iter.IterNodeDelegate._apply_iter_items_parallel'):
        f = prog.func(qual)
        execs = _executors(f.node)
        zips = [c for c in ast.walk(f.node) if isinstance(c, ast.Call) and call_name(c) == 'zip' and len(c.args) == 2
                and isinstance(c.args[1], ast.Call) and isinstance(c.args[1].func, ast.Attribute) and c.args[1].func.attr == 'map'
                and isinstance(c.args[1].func.value, ast.Name) and c.args[1].func.value.id in execs]
        # the first zip operand is the label list: a parameter of the helper, or the list the generator appends labels to
        good = bool(zips) and isinstance(zips[0].args[0], ast.Name) and (zips[0].args[0].id in f.params or zips[0].args[0].id in _label_lists(f))
        it_arg = zips[0].args[1].args[1] if zips and len(zips[0].args[1].args) > 1 else None
        (ctx.ok if good else ctx.bad)(R, f, zips[0] if zips else f.node, f'zip({norm(zips[0].args[0])}, executor.map(..., {norm(it_arg)}, ...))' if good else
                                      'labels are not zipped with executor.map results', key=f'zip:{qual.split(".", 1)[1]}')
        # every other pairing of the label list in the helper must be of that same form: the list is filled as a side effect of consuming the argument
        # generator, which Executor.map does eagerly on submission; the builtin map / a generator expression is lazy, so zip meets an empty list and stops
        label_names = {zips[0].args[0].id} if zips and isinstance(zips[0].args[0], ast.Name) else set()
        others = [c for c in ast.walk(f.node) if isinstance(c, ast.Call) and call_name(c) == 'zip' and c.args and isinstance(c.args[0], ast.Name) and c.args[0].id in label_names
                  and not any(c is z for z in zips)]
        for i_o, o in enumerate(others):
            ctx.bad(R, f, o, f'`{norm(o)[:70]}` pairs the label list with something other than an Executor.map over the argument generator: the list is still empty when zip '
                    'asks for its first element (the result is silently empty and no task runs)', key=f'zip-other:{qual.split(".", 1)[1]}#{i_o}')


def _gen_aliases(fn: ast.AST, gname: str) -> tp.Set[str]:
    '''Locals of fn whose only definition is a call of the nested generator gname (`args = arg_gen()`).'''
    defs: tp.Dict[str, tp.List[ast.expr]] = {}
    for a in walk_local(fn):
        if isinstance(a, ast.Assign):
            for t in a.targets:
                for x in ast.walk(t):
                    if isinstance(x, ast.Name):
                        defs.setdefault(x.id, []).append(a.value if x is t else None)
        elif isinstance(a, (ast.AugAssign, ast.AnnAssign, ast.For, ast.NamedExpr)) or isinstance(a, ast.withitem):
            tgt = getattr(a, 'target', None) or getattr(a, 'optional_vars', None)
            if tgt is not None:
                for x in ast.walk(tgt):
                    if isinstance(x, ast.Name):
                        defs.setdefault(x.id, []).append(None)
    return {nm for nm, vs in defs.items() if len(vs) == 1 and isinstance(vs[0], ast.Call) and isinstance(vs[0].func, ast.Name) and vs[0].func.id == gname}


def _feeds_pool(f: FuncInfo) -> bool:
    '''A nested generator whose results are paired with an external label sequence: its call is an argument of a pool helper
    (`self._apply_pool*`), or of an executor map that is itself an operand of `zip`.  (Generators whose payload carries its own
    label, as in the zip stores, are the subject of I.parallel-config-alignment.)'''
    parent = f.parent
    al = _gen_aliases(parent.node, f.name)

    def mentions(c: ast.Call) -> bool:
        return any((isinstance(a, ast.Call) and isinstance(a.func, ast.Name) and a.func.id == f.name) or (isinstance(a, ast.Name) and a.id in al)
                   for a in list(c.args) + [k.value for k in c.keywords])
    for c in ast.walk(parent.node):
        if not isinstance(c, ast.Call):
            continue
        if call_name(c).startswith('self._apply_pool') and mentions(c):
            return True
        if call_name(c) == 'zip' and any(isinstance(a, ast.Call) and isinstance(a.func, ast.Attribute) and a.func.attr == 'map' and mentions(a) for a in c.args):
            return True
    return False


def _label_lists(f: FuncInfo) -> tp.Set[str]:
    out: tp.Set[str] = set()
    for g in f.nested:
        if g.is_generator():
            for c in ast.walk(g.node):
                if isinstance(c, ast.Call) and isinstance(c.func, ast.Attribute) and c.func.attr == 'append' and isinstance(c.func.value, ast.Name):
                    out.add(c.func.value.id)
    return out


def errors_surface(ctx: Ctx) -> None:
    R = 'I.parallel-errors-surface'
    ctx.rule(R, 'a failing task surfaces: no try/except encloses the consumption of worker results except in the *_except APIs, '
             'whose handler catches only the caller-supplied exception class and skips label and result together', floor=5)
    prog = ctx.prog
    for qual in PARALLEL_SITES:
        f = prog.func(qual)
        tries = [t for t in ast.walk(f.node) if isinstance(t, ast.Try)]
        key = f'try:{qual.split(".", 1)[1]}'
        if not tries:
            ctx.ok(R, f, f.node, 'no exception handler around result consumption', key=key)
            continue
        for t in tries:
            if qual.endswith('_apply_pool_except'):
                calls = [c for c in ast.walk(t.body[0]) if isinstance(c, ast.Call)] if len(t.body) == 1 else []
                good = len(t.handlers) == 1 and isinstance(t.handlers[0].type, ast.Name) and t.handlers[0].type.id in f.params \
                    and len(calls) == 1 and isinstance(calls[0].func, ast.Attribute) and calls[0].func.attr == 'result' \
                    and len(t.handlers[0].body) == 1 and isinstance(t.handlers[0].body[0], ast.Continue)
                (ctx.ok if good else ctx.bad)(R, f, t, 'only the caller-supplied exception class is caught, around future.result() alone, and the label is skipped with it' if good else
                                              f'the handler catches `{norm(t.handlers[0].type) if t.handlers else "?"}` / does more than skip this label', key=key)
            else:
                ctx.bad(R, f, t, 'worker results are consumed inside a try/except: a failing task can be swallowed, leaving a shorter or shifted result', key=key)
    # sequential counterparts of the except APIs catch only `exception` too
    for m in ('apply_except', 'apply_items_except'):
        f = prog.method('Batch', m, inherited=False)
        hs = [h for t in ast.walk(f.node) if isinstance(t, ast.Try) for h in t.handlers]
        good = bool(hs) and all(isinstance(h.type, ast.Name) and h.type.id in f.params for h in hs)
        (ctx.ok if good else ctx.bad)(R, f, f.node, 'sequential form catches only the caller-supplied class' if good else 'sequential form catches more than the caller-supplied class', key=f'seq:{m}')


def config_alignment(ctx: Ctx) -> None:
    R = 'I.parallel-config-alignment'
    ctx.rule(R, 'StoreConfigMap rejects per-label worker settings that differ from the default (the pool is configured from the default '
             'config only): the four worker attributes are in _ALIGN_WITH_DEFAULT_ATTRS and the constructor loop raises; the zip store '
             'builds pools from config_map.default and both paths of read_many share one payload generator', floor=8)
    prog = ctx.prog
    k = prog.cls('StoreConfigMap')
    attrs = k.attrs.get('_ALIGN_WITH_DEFAULT_ATTRS')
    vals = [e.value for e in attrs.elts if isinstance(e, ast.Constant)] if isinstance(attrs, (ast.Tuple, ast.List)) else []
    for a in ('read_max_workers', 'read_chunksize', 'write_max_workers', 'write_chunksize'):
        (ctx.ok if a in vals else ctx.bad)(R, k.qualname, attrs, f'{a} must align with the default' if a in vals else
                                           f'{a} is not checked against the default config: a per-label value is silently ignored', key=f'align:{a}', file=k.module.relpath)
    init = k.methods['__init__']
    loop = [n for n in walk_local(init.node) if isinstance(n, ast.For) and norm(n.iter).endswith('._ALIGN_WITH_DEFAULT_ATTRS')]
    good = False
    if loop and isinstance(loop[0].target, ast.Name):
        a = loop[0].target.id
        # a raise guarded by getattr(<config>, a) != getattr(self._default, a)
        for test_if in [x for x in ast.walk(loop[0]) if isinstance(x, ast.If) and any(isinstance(y, ast.Raise) for y in x.body)]:
            t = test_if.test
            if isinstance(t, ast.Compare) and len(t.ops) == 1 and isinstance(t.ops[0], ast.NotEq):
                sides = [t.left, t.comparators[0]]
                gets = [x for x in sides if isinstance(x, ast.Call) and call_name(x) == 'getattr' and len(x.args) == 2 and isinstance(x.args[1], ast.Name) and x.args[1].id == a]
                objs = sorted(norm(x.args[0]) for x in gets)
                if len(gets) == 2 and 'self._default' in objs and objs[0] != objs[1]:
                    good = True
    (ctx.ok if good else ctx.bad)(R, init, loop[0] if loop else init.node, 'a differing attribute raises ErrorInitStoreConfig' if good else 'the alignment loop no longer raises on an attribute that differs from the default', key='align:loop')
    for qual, kind, key in (('store_zip._StoreZip.read_many', 'read', 'zip:read_many'), ('store_zip._StoreZip.write', 'write', 'zip:write')):
        f = prog.func(qual)
        inl = roles.Inliner(f.node)
        problems = []
        gens = [g for g in f.nested if g.is_generator() and any(isinstance(y, ast.Yield) for y in walk_local(g.node))
                and not any(isinstance(c, ast.Call) and isinstance(c.func, ast.Attribute) and c.func.attr == 'map' for c in ast.walk(g.node))]
        pools = [c for c in ast.walk(f.node) if isinstance(c, ast.Call) and kwarg(c, 'max_workers') is not None]
        if not pools:
            problems.append('no worker pool is built')
        for c in pools:
            mw = inl.text(kwarg(c, 'max_workers'))
            if not mw.endswith(f'.default.{kind}_max_workers'):
                problems.append(f'the pool takes max_workers from `{mw}` instead of the default config\'s {kind}_max_workers')
        execs = _executors(f.node)
        maps = [c for c in ast.walk(f.node) if isinstance(c, ast.Call) and isinstance(c.func, ast.Attribute) and c.func.attr == 'map'
                and isinstance(c.func.value, ast.Name) and c.func.value.id in execs]
        if not maps:
            problems.append('no executor.map over the payloads')
        fed = set()
        for c in maps:
            cs = inl.text(kwarg(c, 'chunksize'))
            if not cs.endswith(f'.default.{kind}_chunksize'):
                problems.append(f'executor.map takes chunksize from `{cs or "nothing"}` instead of the default config\'s {kind}_chunksize')
            if len(c.args) >= 2 and isinstance(c.args[1], ast.Call) and isinstance(c.args[1].func, ast.Name):
                fed.add(c.args[1].func.id)
        gen_names = {g.name for g in gens}
        if not (fed and fed <= gen_names):
            problems.append('the pool is not fed by the payload generator')
        # the sequential path consumes the same generator
        def is_gen_call(e: tp.Optional[ast.AST]) -> bool:
            return isinstance(e, ast.Call) and isinstance(e.func, ast.Name) and e.func.id in fed
        seq_direct = [x for x in ast.walk(f.node) if (isinstance(x, ast.YieldFrom) and is_gen_call(x.value)) or (isinstance(x, ast.For) and is_gen_call(x.iter))
                      or (isinstance(x, ast.comprehension) and is_gen_call(x.iter))]
        seq_any = [c for c in ast.walk(f.node) if is_gen_call(c) and not any(c is m.args[1] for m in maps if len(m.args) >= 2)]
        if not seq_any:
            problems.append('the sequential path does not consume the payload generator the pool consumes')
        elif len(seq_direct) != len(seq_any):
            problems.append('the sequential path does not iterate the payload generator directly (in order, once), as the pool does')
        (ctx.bad if problems else ctx.ok)(R, f, f.node, '; '.join(problems) or f'parallel and sequential {kind} share one payload generator; pool and chunk size come from the default config', key=key)
        # each payload carries the label of its own iteration and that label's config
        problems = []
        n_payload = 0
        for g in gens:
            if g.name not in fed:
                continue
            for lp in [x for x in ast.walk(g.node) if isinstance(x, ast.For)]:
                lab = roles.first_target_name(lp.target)
                for y in [x for x in ast.walk(lp) if isinstance(x, ast.Yield) and isinstance(x.value, ast.Call)]:
                    n_payload += 1
                    nm = kwarg(y.value, 'name')
                    cf = inl.text(kwarg(y.value, 'config'))
                    if not (isinstance(nm, ast.Name) and nm.id == lab):
                        problems.append(f'payload name `{norm(nm)}` is not the label of this iteration `{lab}`')
                    if f'[{lab}]' not in cf:
                        problems.append(f'payload config `{cf}` is not looked up with this iteration\'s label `{lab}`')
        if not n_payload:
            problems.append('no payload is yielded')
        (ctx.bad if problems else ctx.ok)(R, f, f.node, '; '.join(problems) or f'each {kind} payload carries its own label and that label\'s config', key=key + ':payload')


def sequential_pool_agree(ctx: Ctx) -> None:
    R = 'I.parallel-sequential-args'
    ctx.rule(R, 'sibling agreement inside each Batch applicator: the in-process branch calls the worker function on an argument tuple built from the iteration\'s '
             '(label, frame); the pooled branch hands the same worker function to the pool helper and its generator yields the same tuple (loop variables compared '
             'by position in the loop target, not by name): a component taken from somewhere else (frame.name for the label, a different callable) makes '
             'the pooled answer differ from the sequential one', floor=5)
    prog = ctx.prog
    k = prog.cls('Batch')
    n = 0

    def canon(e: ast.AST, lp: ast.For) -> str:
        names = [x.id for x in (lp.target.elts if isinstance(lp.target, ast.Tuple) else [lp.target]) if isinstance(x, ast.Name)]

        class T(ast.NodeTransformer):
            def visit_Name(self, node):
                if node.id in names:
                    return ast.copy_location(ast.Name(id=f'_t{names.index(node.id)}', ctx=node.ctx), node)
                return node
        import copy
        return norm(T().visit(copy.deepcopy(e)))

    for defs in k.method_defs.values():
        for f in defs:
            gens = [g for g in f.nested if g.is_generator()]
            if len(gens) < 2:
                continue
            seq: tp.List[tp.Tuple[str, str, ast.AST]] = []      # (worker, canonical tuple, node)
            pool: tp.List[tp.Tuple[str, ast.AST, ast.For, FuncInfo]] = []
            for g in gens:
                for lp in walk_local(g.node):
                    if not isinstance(lp, ast.For):
                        continue
                    for x in ast.walk(lp):
                        # worker((a, b, ...)) inside a yield of the in-process generator
                        if isinstance(x, ast.Call) and isinstance(x.func, ast.Name) and len(x.args) == 1 and isinstance(x.args[0], ast.Tuple) and not x.keywords \
                                and x.func.id not in ('tuple', 'list', 'set', 'frozenset', 'dict', 'zip', 'len', 'sorted'):
                            seq.append((x.func.id, canon(x.args[0], lp), x))
                        if isinstance(x, ast.Yield) and isinstance(x.value, ast.Tuple) and _feeds_pool(g):
                            pool.append((canon(x.value, lp), x, lp, g))
            if not seq or not pool:
                continue
            helpers = [c for c in walk_local(f.node) if isinstance(c, ast.Call) and call_name(c).startswith('self._apply_pool')]
            for ptxt, pnode, lp, g in pool:
                n += 1
                key = f'Batch.{f.name}'
                use = [h for h in helpers if any(isinstance(a, ast.Call) and isinstance(a.func, ast.Name) and a.func.id == g.name for a in h.args)]
                if not use:
                    ctx.unk(R, f, pnode, 'the generator is not handed to a pool helper', key=key)
                    continue
                h = use[0]
                workers = [a.id for a in h.args if isinstance(a, ast.Name) and a.id in {w for w, _t, _n in seq}]
                w_seq = {w for w, _t, _n in seq}
                if not workers:
                    ctx.bad(R, f, h, f'the pool helper is given none of the worker functions of the in-process branch ({sorted(w_seq)}): the pooled form computes something else', key=key)
                    continue
                match = [t for w, t, _n in seq if w == workers[0]]
                if ptxt in match:
                    ctx.ok(R, f, pnode, f'both branches call {workers[0]} on `{ptxt}`', key=key)
                else:
                    ctx.bad(R, f, pnode, f'the pooled branch yields `{ptxt}` to {workers[0]} while the in-process branch calls it on `{match[0]}` '
                            '(_t0, _t1: the loop\'s label and frame): the pooled result differs from the sequential one', key=key)
    ctx.require(n >= 5, 'Batch applicators with an in-process and a pooled branch')
