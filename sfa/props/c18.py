'''C18 Parallel execution gives the same answer as sequential execution.'''
from sfa.report import Ctx
from sfa.rules import parallel
from sfa.rules import table

LEVEL_TEXT = (
    'Static decision of the structural clauses of C18 — completion order cannot matter by construction: (a) worker results are consumed '
    'only through Executor.map (submission order) or futures read back in submission order; as_completed / wait / imap_unordered / '
    'callbacks do not occur in core (zero-count rule with a positive fixture); pools receive the configured worker count and chunk size; '
    '(b) the label list zipped with the results is appended to inside the very generator that yields the task arguments — one append of '
    'the iteration\'s own label before each yield, the same fresh list being the first zip operand (9 generators); (c) no try/except '
    'encloses result consumption except in the *_except APIs, whose handler catches only the caller-supplied class around '
    'future.result() alone; (d) StoreConfigMap rejects per-label worker settings that differ from the default, the zip store builds its '
    'pools from the default config and its parallel and sequential read paths share one payload generator; Batch._derive propagates the '
    'pool settings. Sibling agreement: in each Batch applicator the pooled generator yields the same argument tuple, for the same worker function, as the in-process branch. Not decided: pickling fidelity across processes; scheduling.')

CLAIM = dict(
    text=LEVEL_TEXT,
    technique='who-may-call (zero-count with fixture) on unordered primitives + generator append/yield pairing structure + handler-scope check',
    design_ref='DESIGN.md section 3 C18',
)


def run(ctx: Ctx) -> None:
    parallel.ordered_primitives(ctx)
    parallel.single_pass_pairing(ctx)
    parallel.errors_surface(ctx)
    parallel.config_alignment(ctx)
    parallel.sequential_pool_agree(ctx)
    table.t9_derive(ctx, which=('Batch',))
