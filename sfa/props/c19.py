'''C19 Quilt and Batch are faithful views over the Frames they hold.'''
from sfa.report import Ctx
from sfa.rules import recache
from sfa.rules import table

LEVEL_TEXT = (
    'Static decision of structural clauses of C19: (a) every read of the lazily assigned Quilt axis slots '
    '(_index, _columns, _axis_map, _axis_opposite) is dominated by the _assign_axis guard on every path; '
    '(b) every Batch method that forwards through _apply_attr names the Frame attribute it is named after, forwards '
    'every own parameter under the same name and passes no keyword the Frame method lacks (34 forwards); '
    '(c) Batch._derive propagates config / max_workers / chunksize / use_threads. Not decided: the axis-map '
    'translation of keys to per-Frame selections.')

CLAIM = dict(
    text=LEVEL_TEXT,
    technique='lazy-slot guard dominance (dataflow) + declarative forward-table extraction and comparison',
    design_ref='DESIGN.md section 2.B, 2.G and section 3 C19',
)


def run(ctx: Ctx) -> None:
    recache.check(ctx, 'Quilt', floor_reads=25)
    table.t7_batch(ctx)
    table.t9_derive(ctx, which=('Batch',))
