#!/usr/bin/env python3
'''Decide whether a stable-listed test that failed during a seed's suite run is flaky or caused by the seed:
run it N times on a scratch worktree with the patch and N times without, each time with a fresh hypothesis database.
Usage: recheck_flaky.py <seed dir> <test id module.Class::test> [N]
Updates <seed dir>/confirm.json: suite.missing_confirmed entries that pass at least once with the patch, or fail equally often
without it, are moved to suite.flaky_unrelated; `confirmed` is recomputed.'''
import json
import os
import shutil
import subprocess
import sys
import tempfile

PY = '/venv/bin/python'


def run_test(wt, test, n):
    mod, t = test.split('::')
    path = mod.rsplit('.', 1)[0].replace('.', '/') + '.py::' + mod.rsplit('.', 1)[1] + '::' + t
    ok = 0
    for _ in range(n):
        shutil.rmtree(os.path.join(wt, '.hypothesis'), ignore_errors=True)
        r = subprocess.run([PY, '-m', 'pytest', '-q', '-p', 'no:cacheprovider', path], cwd=wt, env=dict(os.environ, PYTHONPATH=wt),
                           stdout=subprocess.PIPE, stderr=subprocess.STDOUT, text=True)
        last = r.stdout.strip().splitlines()[-1] if r.stdout.strip() else ''
        if ' passed' in last and ' failed' not in last:
            ok += 1
    return ok


def main():
    d = os.path.abspath(sys.argv[1])
    tests = [a for a in sys.argv[2:] if '::' in a]
    n = int(sys.argv[-1]) if sys.argv[-1].isdigit() else 5
    tmp = tempfile.mkdtemp(prefix='recheck-')
    wt = os.path.join(tmp, 'wt')
    try:
        subprocess.run(['git', '-C', '/repo', 'worktree', 'add', '--detach', wt, 'HEAD'], check=True, stdout=subprocess.PIPE, stderr=subprocess.STDOUT)
        res = {}
        for t in tests:
            clean = run_test(wt, t, n)
            subprocess.run(['git', '-C', wt, 'apply', os.path.join(d, 'patch.diff')], check=True)
            patched = run_test(wt, t, n)
            subprocess.run(['git', '-C', wt, 'checkout', '--', '.'], check=True)
            res[t] = {'runs': n, 'passed_clean': clean, 'passed_patched': patched}
            print(t, res[t])
        cp = os.path.join(d, 'confirm.json')
        conf = json.load(open(cp))
        suite = conf.get('suite') or {}
        keep, moved = [], suite.get('flaky_unrelated', [])
        for m, why in suite.get('missing_confirmed', []):
            r = res.get(m)
            if r and (r['passed_patched'] >= 1 or r['passed_patched'] >= r['passed_clean']):
                moved.append({'test': m, 'why': why, **r})
            else:
                keep.append([m, why])
        suite['missing_confirmed'] = keep
        suite['flaky_unrelated'] = moved
        conf['suite'] = suite
        conf['confirmed'] = bool(conf.get('patch_applies')) and bool(conf.get('imports')) and conf.get('demo_clean_rc') == 0 and conf.get('demo_patched_rc') not in (0, None) and not keep
        json.dump(conf, open(cp, 'w'), indent=1)
        print('confirmed:', conf['confirmed'])
    finally:
        subprocess.run(['git', '-C', '/repo', 'worktree', 'remove', '--force', wt], stdout=subprocess.PIPE, stderr=subprocess.STDOUT)
        shutil.rmtree(tmp, ignore_errors=True)


if __name__ == '__main__':
    main()
