'''C03 Block manager transparency and structural coherence of Frame.'''
from sfa.report import Ctx
from sfa.rules import resolve
from sfa.rules import flowmisc
from sfa.rules import axisrules
from sfa.rules import atomic
from sfa.rules import blockrules
from sfa.rules import own

LEVEL_TEXT = (
    'Static decision of the structural-coherence clause of C03 (one row per index label, one column per column label, a column '
    'directory that describes the blocks): (a) the raw TypeBlocks constructor is called only by from_blocks / from_zero_size_shape / '
    '__copy__, the latter passing shallow copies of self\'s own four members together — every other TypeBlocks derives its directory '
    'from the blocks; (b) in from_blocks each accepted block updates block list, index and dtype directory, column count and block '
    'counter together, unconditionally, with index entries written before the counter advances, after the row-count check and the '
    'zero-width skip; TypeBlocks.append moves _shape/_index/_dtypes/_blocks in lock-step; (c) every normal exit of Frame.__init__ / '
    'Series.__init__ has passed the final size checks (must-pass-through over all paths, deferred constructors included); (d) every loop that walks the blocks with a running column offset advances the offset on every path to the next iteration (`continue` included); (e) a per-block cast guarded by a test on the block\'s dimensionality has a sibling cast on the other layout (layout transparency of dtype resolution). '
    'Axis iteration: per path, the Frame axis iterators and to_pairs key axis-1 vectors by the index and label them by the columns (axis 0 the other way round), from axis_values(axis) in one pass. Slice cardinality: every `<slice>.indices(n)` result in core is consumed whole or any stop - start span is computed with the step (single-row detection, assigned widths and fill limits count stepped slices correctly). Reverse option: every path of TypeBlocks.axis_values that yields has consulted `reverse` (reversed() of a hierarchy, reverse column iteration of a Frame). Row dtype cache: TypeBlocks.append widens the cached row dtype on any dtype mismatch, so whole-row reads agree with per-column reads (F3). Not decided: layout transparency of results (equal answers for every composition of the columns into blocks) — a statement '
    'about array arithmetic at block boundaries; a per-subscript ndim-guard rule was prototyped at design time and rejected as a false '
    'alarm in waiting.')

CLAIM = dict(
    text=LEVEL_TEXT,
    technique='who-may-call on the raw constructor + lock-step structure of the directory builders + must-pass-through dataflow on the final shape checks + all-paths advance of running block offsets',
    design_ref='DESIGN.md section 3 C03',
)


def run(ctx: Ctx) -> None:
    blockrules.raw_constructor_sites(ctx)
    blockrules.from_blocks_lockstep(ctx)
    blockrules.final_shape_checks(ctx)
    blockrules.offset_discipline(ctx)
    blockrules.layout_independent_casts(ctx)
    blockrules.slice_cardinality(ctx)
    atomic.d_atomic(ctx, only=('type_blocks.',))
    own.c_handoffs(ctx)
    own.c_who_may_grow(ctx)
    axisrules.axis_iteration(ctx)
    flowmisc.option_consulted(ctx)
    resolve.f3_resolver_shape(ctx)
