'''Path-sensitive symbolic store ("worlds") on top of the flow engine.

For one function, every local is tracked as the *expression it currently denotes*, written over the
function's parameters, `self`, globals and opaque markers (`elem(<iterable>)` for loop targets,
`entered(<ctx>)` for with-targets).  The state at a program point is a set of worlds; a world is one
assignment of such expressions to the locals together with the branch facts assumed on the way there
(`isinstance(other, Frame)` true, `axis == 0` false, ...).  Branches therefore stay correlated: the world in
which the labels are the union index is the world in which the data were reindexed to it.

Rules name watch-sites (calls, returns, yields) and read, per world, what an argument *is*
(`text(expr, world)`), independent of the identifiers of the locals it flowed through.

Soundness notes.  Worlds are joined by union and collapsed (differing locals forgotten, facts intersected)
beyond MAX_WORLDS; expressions longer than MAX_LEN are forgotten (the local stays an opaque name); a world
is pruned only when one and the same test text — containing no call of a state-advancing callee (next, pop, read, ...) —
is assumed both true and false along it (a symbolic value denotes what was computed when the local was bound).  Mutation through methods (`x.append`) forgets nothing: the tracked expression is
"what the name was last bound to", which is what the pairing rules ask about.
'''
from __future__ import annotations

import ast
import copy
import typing as tp

from sfa import flow
from sfa.model import norm

World = tp.Tuple[tp.Tuple[tp.Tuple[str, str], ...], tp.FrozenSet[tp.Tuple[str, bool]]]

PURE_CALLS = ('isinstance', 'len', 'callable', 'hasattr', 'issubclass')
# callees whose result changes from one evaluation to the next: two occurrences of the same test text may then differ
IMPURE_CALLS = ('next', '__next__', 'pop', 'popitem', 'popleft', 'read', 'readline', 'readlines', 'send', 'recv', 'random', 'time', 'input',
                'fetchone', 'fetchall', 'get_nowait', 'result', '?')


def _params(fn: ast.AST) -> tp.Set[str]:
    out: tp.Set[str] = set()
    a = fn.args
    for p in list(getattr(a, 'posonlyargs', [])) + a.args + a.kwonlyargs:
        out.add(p.arg)
    if a.vararg:
        out.add(a.vararg.arg)
    if a.kwarg:
        out.add(a.kwarg.arg)
    return out


class SymEnv(flow.Client):
    MAX_WORLDS = 48
    MAX_LEN = 700
    max_loop_iter = 6

    def __init__(self, fn: ast.AST, watch: tp.Callable[[ast.AST], bool], enclosing: tp.Optional[tp.Mapping[str, str]] = None,
                 max_worlds: tp.Optional[int] = None, track: tp.Optional[tp.Collection[str]] = None,
                 keep_fact: tp.Optional[tp.Callable[[str], bool]] = None, max_len: tp.Optional[int] = None):
        '''track: when given, only these locals are followed (the others stay opaque names); keep_fact: when given, only branch
        facts whose text satisfies it are recorded.  Both only coarsen the analysis (fewer, more general worlds).'''
        self.fn = fn
        self.track = set(track) if track is not None else None
        self.keep_fact = keep_fact
        if max_worlds:
            self.MAX_WORLDS = max_worlds
        if max_len:
            self.MAX_LEN = max_len
        self.watch = watch
        self.params = _params(fn)
        self.asts: tp.Dict[str, ast.expr] = {}
        self._free_cache: tp.Dict[int, tp.Tuple[ast.AST, tp.Tuple[str, ...]]] = {}
        self._norm_cache: tp.Dict[int, tp.Tuple[ast.AST, str]] = {}
        self._subst_cache: tp.Dict[tp.Tuple[int, tp.Tuple[tp.Tuple[str, str], ...]], ast.expr] = {}
        self.sites: tp.Dict[int, tp.Tuple[ast.AST, tp.Set[World]]] = {}
        self.initial: World = (tuple(sorted((enclosing or {}).items())), frozenset())
        for t in (enclosing or {}).values():
            if t not in self.asts:
                try:
                    self.asts[t] = ast.parse(t, mode='eval').body
                except SyntaxError:
                    pass

    # ------------------------------------------------------------------ running
    def run(self) -> 'SymEnv':
        body = self.fn.body if isinstance(self.fn.body, list) else [ast.Return(value=self.fn.body)]
        flow.Engine(self).run(body, frozenset([self.initial]))
        return self

    # ------------------------------------------------------------------ worlds
    def join(self, a, b):
        out = a | b
        if len(out) > self.MAX_WORLDS:
            out = self._collapse(out)
        return out

    def _collapse(self, worlds: tp.FrozenSet[World]) -> tp.FrozenSet[World]:
        envs = [dict(w[0]) for w in worlds]
        keys = set.intersection(*(set(e) for e in envs))
        same = {k: envs[0][k] for k in keys if all(e[k] == envs[0][k] for e in envs)}
        facts = frozenset.intersection(*(w[1] for w in worlds))
        return frozenset([(tuple(sorted(same.items())), facts)])

    # ------------------------------------------------------------------ substitution
    def _free(self, e: ast.expr) -> tp.Tuple[str, ...]:
        k = id(e)
        r = self._free_cache.get(k)
        if r is None:
            r = (e, tuple(sorted({x.id for x in ast.walk(e) if isinstance(x, ast.Name)})))
            self._free_cache[k] = r       # keeps e alive, so the id stays unique
        return r[1]

    def ntext(self, a: ast.AST) -> str:
        '''norm() with a per-node cache (substituted trees are shared and never mutated).'''
        k = id(a)
        r = self._norm_cache.get(k)
        if r is None:
            r = (a, norm(a))
            self._norm_cache[k] = r
        return r[1]

    def subst(self, e: ast.expr, env: tp.Mapping[str, str]) -> ast.expr:
        '''e with the bound locals replaced by what they denote.  The result is shared between callers: treat it as immutable.'''
        key = (id(e), tuple((n, env[n]) for n in self._free(e) if n in env))
        hit = self._subst_cache.get(key)
        if hit is not None:
            return hit
        out = self._subst(e, env)
        self._subst_cache[key] = out
        return out

    def _subst(self, e: ast.expr, env: tp.Mapping[str, str]) -> ast.expr:
        se = self
        if not any(n in env for n in self._free(e)):
            return e

        class T(ast.NodeTransformer):
            def __init__(self):
                self.bound: tp.List[tp.Set[str]] = []

            def _comp(self, node):
                names = {x.id for g in node.generators for x in ast.walk(g.target) if isinstance(x, ast.Name)}
                # the first iterable is evaluated outside the comprehension's scope
                node.generators[0].iter = self.visit(node.generators[0].iter)
                self.bound.append(names)
                for i, g in enumerate(node.generators):
                    if i:
                        g.iter = self.visit(g.iter)
                    g.ifs = [self.visit(x) for x in g.ifs]
                if isinstance(node, ast.DictComp):
                    node.key = self.visit(node.key)
                    node.value = self.visit(node.value)
                else:
                    node.elt = self.visit(node.elt)
                self.bound.pop()
                return node
            visit_ListComp = visit_SetComp = visit_GeneratorExp = visit_DictComp = _comp

            def visit_Lambda(self, node):
                names = {a.arg for a in node.args.args + node.args.kwonlyargs}
                self.bound.append(names)
                node.body = self.visit(node.body)
                self.bound.pop()
                return node

            def visit_Name(self, node):
                if isinstance(node.ctx, ast.Load) and node.id in env and not any(node.id in b for b in self.bound):
                    t = env[node.id]
                    a = se.asts.get(t)
                    if a is not None:
                        return a            # shared, immutable by convention
                return node
        return T().visit(copy.deepcopy(e))

    def resolved(self, e: ast.expr, world: World) -> ast.expr:
        '''subst + folding of conditional expressions whose test is a recorded fact of the world.'''
        facts = dict(world[1])
        a = copy.deepcopy(self.subst(e, dict(world[0])))

        class F(ast.NodeTransformer):
            def visit_IfExp(self, node):
                self.generic_visit(node)
                t = norm(node.test)
                if t in facts:
                    return node.body if facts[t] else node.orelse
                return node
        return F().visit(a)

    def text(self, e: tp.Optional[ast.expr], world: World) -> str:
        if e is None:
            return ''
        return self.ntext(self.subst(e, dict(world[0])))

    def texts(self, e: tp.Optional[ast.expr], worlds: tp.Iterable[World]) -> tp.Set[str]:
        return {self.text(e, w) for w in worlds}

    def facts(self, world: World) -> tp.Dict[str, bool]:
        return dict(world[1])

    def _intern(self, a: ast.expr) -> tp.Optional[str]:
        t = self.ntext(a)
        if len(t) > self.MAX_LEN:
            return None
        self.asts.setdefault(t, a)
        return t

    def _set(self, env: tp.Dict[str, str], target: ast.expr, value: tp.Optional[ast.expr]) -> None:
        '''Bind target to the (already substituted) value expression; None forgets.'''
        if isinstance(target, ast.Name):
            if self.track is not None and target.id not in self.track and target.id not in self.params:
                env.pop(target.id, None)
                return
            if target.id in self.params and value is None:
                env[target.id] = f'reassigned({target.id})'
                self.asts.setdefault(env[target.id], ast.parse(env[target.id], mode='eval').body)
                return
            t = self._intern(value) if value is not None else None
            if t is None:
                env.pop(target.id, None)
                if target.id in self.params:
                    env[target.id] = f'reassigned({target.id})'
                    self.asts.setdefault(env[target.id], ast.parse(env[target.id], mode='eval').body)
            else:
                env[target.id] = t
        elif isinstance(target, (ast.Tuple, ast.List)):
            for i, el in enumerate(target.elts):
                if isinstance(el, ast.Starred):
                    self._set(env, el.value, None)
                elif value is None:
                    self._set(env, el, None)
                elif isinstance(value, (ast.Tuple, ast.List)) and len(value.elts) == len(target.elts):
                    self._set(env, el, value.elts[i])
                else:
                    self._set(env, el, ast.Subscript(value=value, slice=ast.Constant(value=i), ctx=ast.Load()))
        # attribute / subscript targets bind no local

    def _map(self, state, fn: tp.Callable[[tp.Dict[str, str]], None]):
        out = set()
        for env_t, facts in state:
            env = dict(env_t)
            fn(env)
            out.add((tuple(sorted(env.items())), facts))
        return frozenset(out)

    # ------------------------------------------------------------------ hooks
    def on_stmt(self, s, state):
        if isinstance(s, ast.Assign):
            def f(env):
                v = self.subst(s.value, env)
                for t in s.targets:
                    self._set(env, t, v)
            state = self._map(state, f)
        elif isinstance(s, ast.AnnAssign) and s.value is not None:
            def f(env):
                self._set(env, s.target, self.subst(s.value, env))
            state = self._map(state, f)
        elif isinstance(s, ast.AugAssign) and isinstance(s.target, ast.Name):
            def f(env):
                cur = ast.Name(id=s.target.id, ctx=ast.Load())
                v = ast.BinOp(left=self.subst(cur, env), op=s.op, right=self.subst(s.value, env))
                self._set(env, s.target, v)
            state = self._map(state, f)
        elif isinstance(s, (ast.FunctionDef, ast.AsyncFunctionDef)):
            def f(env):
                env.pop(s.name, None)
            state = self._map(state, f)
        if self.watch(s):
            self._record(s, state)
        return state

    def on_bind(self, target, source, state, kind):
        if kind == 'comp':
            return state
        marker = {'for': 'elem', 'with': 'entered', 'except': 'caught', 'walrus': None}.get(kind, 'bound')

        def f(env):
            if source is None:
                self._set(env, target, None)
            elif marker is None:
                self._set(env, target, self.subst(source, env))
            else:
                self._set(env, target, ast.Call(func=ast.Name(id=marker, ctx=ast.Load()), args=[self.subst(source, env)], keywords=[]))
        return self._map(state, f)

    def refine(self, atom, state, truth):
        out = set()
        for env_t, facts in state:
            a = self.subst(atom, dict(env_t))
            if isinstance(a, ast.Constant):
                if bool(a.value) != truth:
                    continue        # a constant test: the other branch is infeasible in this world
                out.add((env_t, facts))
                continue
            t = self.ntext(a)
            if len(t) > 200:
                if self.keep_fact is not None and not self.keep_fact(t):
                    out.add((env_t, facts))
                else:
                    out.add((env_t, facts | {('~' + norm(atom), truth)}))     # too long to carry: the source-level test, marked
                continue
            pure = not any((c.func.attr if isinstance(c.func, ast.Attribute) else c.func.id if isinstance(c.func, ast.Name) else '?') in IMPURE_CALLS
                           for c in ast.walk(a) if isinstance(c, ast.Call))
            if pure and (t, not truth) in facts:
                continue            # this world assumed the opposite earlier: infeasible
            new_facts = {(t, truth)}
            if truth and isinstance(a, ast.Compare) and len(a.ops) == 1 and isinstance(a.ops[0], (ast.Is, ast.Eq)) \
                    and isinstance(a.comparators[0], ast.Constant) and isinstance(a.comparators[0].value, bool):
                new_facts.add((self.ntext(a.left), a.comparators[0].value))      # `e is True` holds: e holds
            if pure and any((k, not v) in facts for k, v in new_facts):
                continue            # contradicts what this world assumed earlier
            if self.keep_fact is not None:
                new_facts = {nf for nf in new_facts if self.keep_fact(nf[0])}
            out.add((env_t, facts | new_facts))
        return frozenset(out) if out else None

    def on_expr(self, node, state):
        if self.watch(node):
            self._record(node, state)
        return state

    def on_return(self, s, state):
        if self.watch(s):
            self._record(s, state)

    def on_yield(self, node, state):
        return state

    def _record(self, node: ast.AST, state) -> None:
        cur = self.sites.setdefault(id(node), (node, set()))
        cur[1].update(state)

    # ------------------------------------------------------------------ queries
    def at(self, node: ast.AST) -> tp.Set[World]:
        r = self.sites.get(id(node))
        return r[1] if r else set()

    def all_sites(self) -> tp.List[tp.Tuple[ast.AST, tp.Set[World]]]:
        return list(self.sites.values())
