'''Same-name parameter forwarding (inferred as a near-unanimous convention of the code base, then frozen): when a function calls a
resolved callee that accepts a parameter of the same name as one of the function's own parameters, it passes its own parameter on.
1288 such call sites exist in core and 14 do not forward; each of the 14 was read and is listed with its reason.  For the import /
export entry points an option that is not forwarded is an option silently ignored on that path.'''
from __future__ import annotations

import ast
import typing as tp

from sfa.model import AnalysisError
from sfa.model import FuncInfo
from sfa.model import Resolver
from sfa.model import call_name
from sfa.model import norm
from sfa.model import walk_local
from sfa.report import Ctx

# (function, callee, parameter) -> reason.  Confirmed by reading; anything else that does not forward is reported.
EXCEPTIONS: tp.Dict[tp.Tuple[str, str, str], str] = {
    ('frame.Frame.from_element_items', 'cls.from_records', 'index_constructor'): 'the index is built by this function and handed over as index=; constructors are applied here',
    ('frame.Frame.from_element_items', 'cls.from_records', 'columns_constructor'): 'columns built here and handed over as columns=',
    ('frame.Frame.from_element_items', 'cls.from_fields', 'index_constructor'): 'the index is built by this function and handed over as index=',
    ('frame.Frame.from_element_items', 'cls.from_fields', 'columns_constructor'): 'columns built here and handed over as columns=',
    ('frame.Frame.from_element_items', 'cls.from_fields', 'fill_value'): 'missing cells were already filled with fill_value when the item arrays were built',
    ('frame.Frame.pivot_unstack', 'self.from_items', 'fill_value'): 'fill_value was applied when the per-column arrays were allocated (np.full)',
    ('index_hierarchy.IndexHierarchy.from_labels', 'Frame.from_records', 'name'): 'intermediate Frame used only for its blocks; the name is given to the hierarchy',
    ('series.Series.from_overlay', 'Index', 'name'): 'the name belongs to the Series result, not to its index',
    ('frame.Frame.display', 'Display', 'config'): 'Display receives the resolved `config or DisplayActive.get()` under the same keyword',
    ('frame.Frame._axis_group_sort_items', 'self.sort_values', 'key'): 'sort_values receives the group key as its label argument; its own `key` is a key function',
    ('frame.Frame.clip', 'self._blocks.clip', 'upper'): 'passed positionally after normalisation into args[1]',
    ('index.Index._loc_to_iloc', 'slice_to_inclusive_slice', 'offset'): 'the no-map path has offset None by construction (checked above the call)',
    ('interface._get_signatures', '_get_parameters', 'is_getitem'): 'documentation helper',
    ('frame.Frame.from_sql', 'IndexHierarchy._from_type_blocks', 'name'): 'the name is the Frame\'s, not the name of the index built for it',
    ('display.DisplayActive.update', 'cls.get', '**kwargs'): 'kwargs are applied on top of the fetched config',
}

IO_PREFIXES = ('from_', 'to_', 'read', 'write', '_build_frame', '_payload')
IO_MODULES = ('frame', 'series', 'store', 'store_zip', 'store_sqlite', 'store_hdf5', 'store_xlsx', 'store_client_mixin', 'bus', 'batch', 'quilt', 'container_util', 'util')


def forwarding(ctx: Ctx, modules: tp.Optional[tp.Sequence[str]] = IO_MODULES, prefixes: tp.Sequence[str] = IO_PREFIXES, suffix: str = 'io', floor: int = 150,
               what: str = 'import / export / store entry point') -> None:
    R = f'I.same-name-forwarding[{suffix}]'
    ctx.rule(R, f'in every {what} (functions named {"/".join(prefixes[:6])}...), each call to a resolved callee that accepts a parameter with the name of one of the '
             'function\'s own parameters passes that parameter on (by that keyword, by position, or inside **kwargs); the confirmed exceptions are '
             'listed one by one with their reason — an option that is not forwarded is silently ignored on that path', floor=floor)
    prog = ctx.prog
    res = Resolver(prog)
    n = 0
    for f in prog.top_funcs():
        if (modules is not None and f.module.short not in modules) or not f.name.startswith(tuple(prefixes)):
            continue
        own = [p for p in (f.params[1:] if f.cls is not None and f.params and f.params[0] in ('self', 'cls') else f.params)]
        if not own:
            continue
        scopes = [f] + list(_nested(f))
        for g in scopes:
            for c in walk_local(g.node):
                if not isinstance(c, ast.Call):
                    continue
                try:
                    q, targets = res.resolve_call(g, c)
                except Exception:
                    continue
                if q not in ('exact', 'cha') or not targets:
                    continue
                for prm in own:
                    if not all(prm in t.params for t in targets):
                        continue
                    n += 1
                    passed = any(k.arg == prm or k.arg is None for k in c.keywords)
                    t0 = targets[0]
                    ps = t0.params[1:] if t0.cls is not None and t0.params and t0.params[0] in ('self', 'cls') else t0.params
                    if prm in ps and ps.index(prm) < len(c.args):
                        passed = True
                    key = f'{f.qualname.split(".", 1)[1]}->{call_name(c)}:{prm}'
                    exc = EXCEPTIONS.get((f.qualname, call_name(c), prm))
                    origin = getattr(g.node, '_sfa_origin', None)      # a single-use generator helper the model re-nested into its caller
                    if exc is None and origin is not None:
                        exc = next((why for (fq, cn, pr), why in EXCEPTIONS.items() if fq.endswith('.' + origin) and cn == call_name(c) and pr == prm), None)
                    if passed:
                        ctx.ok(R, g, c, f'{prm} is passed on to {call_name(c)}', key=key)
                    elif exc is not None:
                        ctx.ok(R, g, c, f'{prm} deliberately not passed to {call_name(c)}: {exc}', key=key)
                    else:
                        ctx.bad(R, g, c, f'`{call_name(c)}` accepts `{prm}` but {f.name} does not pass its own `{prm}` on: the callee falls back to its default and the '
                                'caller\'s option is silently ignored on this path', key=key)
    ctx.require(n >= floor, f'same-name forwarding sites in the {what}s')


def _nested(f: FuncInfo) -> tp.Iterator[FuncInfo]:
    for g in f.nested:
        if not isinstance(g.node, ast.Lambda):
            yield g
            yield from _nested(g)


SIBLING_CLASSES = ('Series', 'Frame', 'Index', 'IndexHierarchy', 'Bus', 'Batch', 'Quilt', 'TypeBlocks', 'IndexLevel', 'FrameGO', 'IndexGO', 'SeriesHE', 'FrameHE')
# (method, parameter) whose defaults legitimately differ between sibling classes, with the reason
DEFAULT_EXCEPTIONS = {
    ('from_concat', 'name'): 'Series.from_concat derives the name from its inputs when none is given (NAME_DEFAULT sentinel); a Frame has no such derivation',
    ('__init__', 'name'): 'Batch has no NAME_DEFAULT derivation from its initializer',
    ('_axis_group_labels_items', 'depth_level'): 'a Series index group defaults to the whole label, a Frame to the outermost depth',
    ('to_frame', 'axis'): 'Series.to_frame places the Series as a column (axis 1); Batch.to_frame concatenates Frames along axis 0',
}


def sibling_defaults(ctx: Ctx, prefixes: tp.Optional[tp.Sequence[str]] = None, suffix: str = 'all', floor: int = 100) -> None:
    R = f'G.sibling-defaults[{suffix}]'
    ctx.rule(R, 'a parameter that the same-named method of several container classes (Series, Frame, Index, IndexHierarchy, Bus, Batch, Quilt, TypeBlocks, ...) all take has '
             'the same default in each of them (150 such pairs in core, 4 confirmed exceptions listed with reasons): a default changed in one sibling makes the same '
             'call mean different things on different containers (ascending, kind, skipna, axis, fill_value, drop, union, limit, ...)', floor=floor)
    prog = ctx.prog
    byname: tp.Dict[tp.Tuple[str, str], tp.Dict[str, tp.Tuple[str, FuncInfo]]] = {}
    for cname in SIBLING_CLASSES:
        try:
            k = prog.cls(cname)
        except Exception:
            continue
        for m, f in k.methods.items():
            if prefixes is not None and not m.startswith(tuple(prefixes)):
                continue
            for prm in f.params:
                d = f.param_default(prm)
                if d is not None:
                    byname.setdefault((m, prm), {})[cname] = (norm(d), f)
    n = 0
    for (m, prm), dd in sorted(byname.items()):
        if len(dd) < 2:
            continue
        n += 1
        vals = {v for v, _f in dd.values()}
        some_f = next(iter(dd.values()))[1]
        key = f'{m}:{prm}'
        if len(vals) == 1:
            ctx.ok(R, f'<siblings>.{m}', None, f'{prm}={next(iter(vals))} in {sorted(dd)}', key=key, file=some_f.file)
        elif (m, prm) in DEFAULT_EXCEPTIONS:
            ctx.ok(R, f'<siblings>.{m}', None, f'{prm} differs by design: {DEFAULT_EXCEPTIONS[(m, prm)]}', key=key, file=some_f.file)
        else:
            # the odd one out is the minority value
            counts: tp.Dict[str, tp.List[str]] = {}
            for c, (v, _f) in dd.items():
                counts.setdefault(v, []).append(c)
            minority = min(counts.items(), key=lambda kv: len(kv[1]))
            odd_f = dd[minority[1][0]][1]
            ctx.bad(R, odd_f, odd_f.node, f'`{prm}` defaults to {minority[0]} in {minority[1]} but to {sorted(v for v in counts if v != minority[0])} in '
                    f'{sorted(c for v, cs in counts.items() if v != minority[0] for c in cs)}: the same call behaves differently on sibling containers', key=key)
    ctx.require(n >= floor, 'sibling method parameters with defaults')
