'''C13 rules for window iteration (container_util.axis_window_items): window slices never wrap around, the anchor label is read
from the labels of the iterated axis at the position derived from the same right bound, without wrap-around, and the window is
extracted with that one slice on that same axis.'''
from __future__ import annotations

import ast
import typing as tp

from sfa import roles
from sfa.model import AnalysisError
from sfa.model import call_name
from sfa.model import kwarg
from sfa.model import norm
from sfa.model import walk_local
from sfa.report import Ctx
from sfa.symenv import SymEnv


def _int(e: ast.expr) -> tp.Optional[int]:
    if isinstance(e, ast.Constant) and isinstance(e.value, int) and not isinstance(e.value, bool):
        return e.value
    if isinstance(e, ast.UnaryOp) and isinstance(e.op, ast.USub) and isinstance(e.operand, ast.Constant) and isinstance(e.operand.value, int):
        return -e.operand.value
    return None


def _clamped_below(e: ast.expr) -> bool:
    '''e cannot go below a constant: `x if x > c else c` (either orientation), max(x, c), a constant, or such a term plus/minus a constant.'''
    if _int(e) is not None:
        return True
    if isinstance(e, ast.BinOp) and isinstance(e.op, (ast.Add, ast.Sub)) and _int(e.right) is not None:
        return _clamped_below(e.left)
    if isinstance(e, ast.Call) and call_name(e) == 'max' and len(e.args) == 2 and any(_int(a) is not None for a in e.args):
        return True
    if isinstance(e, ast.IfExp) and isinstance(e.test, ast.Compare) and len(e.test.ops) == 1 and _int(e.test.comparators[0]) is not None:
        x, op = e.test.left, e.test.ops[0]
        if isinstance(op, (ast.Gt, ast.GtE)) and norm(e.body) == norm(x) and _int(e.orelse) is not None:
            return True
        if isinstance(op, (ast.Lt, ast.LtE)) and norm(e.orelse) == norm(x) and _int(e.body) is not None:
            return True
    return False


def window_rules(ctx: Ctx) -> None:
    R = 'I.window-slice'
    ctx.rule(R, 'in axis_window_items the slice that extracts a window has both bounds floored (a start or stop that went negative would wrap '
             'around and select from the end); the anchor label is labels.iloc[right bound + label_shift] with a negative position rejected; '
             'every window is extracted with that one slice, on the axis whose labels are iterated; the left bound advances by `step` on every '
             'path to the next iteration', floor=8)
    f = ctx.prog.func('container_util.axis_window_items')
    loops = [n for n in walk_local(f.node) if isinstance(n, ast.While)]
    ctx.require(len(loops) == 1, 'axis_window_items has its window loop')
    lp = loops[0]
    inl = roles.Inliner(lp)
    slices = [c for c in ast.walk(lp) if isinstance(c, ast.Call) and call_name(c) == 'slice']
    ctx.require(len(slices) >= 1, 'window slice construction')
    key_names = set()
    for n_s, c in enumerate(slices):
        args = [inl.expr(a) for a in c.args]
        for which, a in zip(('start', 'stop'), args[:2]):
            good = _clamped_below(a)
            (ctx.ok if good else ctx.bad)(R, f, c, f'{which} bound `{norm(a)[:60]}` is floored' if good else
                                          f'the {which} bound `{norm(a)[:60]}` of the window slice is not floored: once it is negative the slice wraps around and a window that lies '
                                          'before the first element selects elements from the end', key=f'slice#{n_s}:{which}')
    key_names = set(roles.assigned_from_all(lp, lambda v: isinstance(v, ast.Call) and call_name(v) == 'slice'))
    # every extraction inside the loop uses that key, on the right axis
    wanted = ('axis == 0', 'source.ndim == 1', 'as_array')
    tracked = set()
    for y in ast.walk(lp):
        if isinstance(y, ast.Yield) and isinstance(y.value, ast.Tuple):
            tracked |= {x.id for x in ast.walk(y.value) if isinstance(x, ast.Name)}
    # follow the yielded locals and whatever their definitions mention (transitively), nothing else
    for _ in range(6):
        for a in ast.walk(f.node):
            if isinstance(a, (ast.Assign, ast.AnnAssign)) and a.value is not None:
                tg = a.targets if isinstance(a, ast.Assign) else [a.target]
                if any(isinstance(x, ast.Name) and x.id in tracked for t in tg for x in ast.walk(t)):
                    tracked |= {x.id for x in ast.walk(a.value) if isinstance(x, ast.Name)}
    # Boolean flags (locals assigned True / False) gate the yield: follow them so that infeasible paths are pruned
    tracked |= set(roles.assigned_from_all(f.node, lambda v: isinstance(v, ast.Constant) and isinstance(v.value, bool)))
    # plain aliases of parameter attributes (source_ndim = source.ndim) take part in the branch facts
    for a in ast.walk(f.node):
        if isinstance(a, ast.Assign) and len(a.targets) == 1 and isinstance(a.targets[0], ast.Name) and isinstance(a.value, ast.Attribute) \
                and isinstance(a.value.value, ast.Name) and a.value.value.id in f.params:
            tracked.add(a.targets[0].id)
    se = SymEnv(f.node, watch=lambda x: isinstance(x, ast.Yield), max_worlds=2048, track=tracked, keep_fact=lambda t: t in wanted).run()
    n_y = 0
    for node, worlds in se.all_sites():
        for w in sorted(worlds):
            v = se.resolved(node.value, w)
            if not (isinstance(v, ast.Tuple) and len(v.elts) == 2):
                continue
            facts = se.facts(w)
            label, window = v.elts
            lt, wt = norm(label), norm(window)
            n_y += 1
            problems = []
            # label: <labels>.iloc[<right> + label_shift], labels = the iterated axis
            if '.iloc[' not in lt or 'label_shift' not in lt:
                problems.append(f'the label `{lt[:60]}` is not read at the right bound plus label_shift')
            ax0 = facts.get('axis == 0')
            nd1 = facts.get('source.ndim == 1')
            if nd1:
                want_labels = 'source._index'
            elif ax0 is True:
                want_labels = 'source._index'
            elif ax0 is False:
                want_labels = 'source._columns'
            else:
                want_labels = None
            if want_labels is not None and not lt.startswith(want_labels + '.iloc['):
                problems.append(f'the label is read from `{lt.split(".iloc[")[0]}`, not from {want_labels}')
            # window: extracted with the slice key on the same axis
            if 'slice(' not in wt:
                problems.append(f'the window `{wt[:60]}` is not extracted with the window slice')
            if nd1 is False and ax0 is True and ('column_key=slice(' in wt or 'NULL_SLICE, slice(' in wt):
                problems.append('rows are iterated but columns are sliced')
            if nd1 is False and ax0 is False and ('row_key=slice(' in wt or (wt.startswith('source._extract_array(slice(') )):
                problems.append('columns are iterated but rows are sliced')
            key = f'yield:{"1d" if nd1 else ("axis0" if ax0 else "axis1" if ax0 is False else "?")}:{"array" if facts.get("as_array") else "container"}'
            (ctx.bad if problems else ctx.ok)(R, f, node, '; '.join(problems) or f'label from {want_labels}, window sliced on the same axis', key=key)
    ctx.require(n_y >= 4, 'window yields per axis / form')
    # no wrap-around for the label position
    guards = [n for n in ast.walk(lp) if isinstance(n, ast.If) and isinstance(n.test, ast.Compare) and isinstance(n.test.ops[0], ast.Lt)
              and isinstance(n.test.comparators[0], ast.Constant) and n.test.comparators[0].value == 0 and any(isinstance(x, ast.Raise) for x in n.body)]
    iloc_reads = [s for s in ast.walk(lp) if isinstance(s, ast.Subscript) and isinstance(s.value, ast.Attribute) and s.value.attr == 'iloc' and isinstance(s.slice, ast.Name)]
    good = bool(iloc_reads) and all(any(isinstance(g.test.left, ast.Name) and g.test.left.id == s.slice.id and g.lineno < s.lineno for g in guards) for s in iloc_reads)
    (ctx.ok if good else ctx.bad)(R, f, iloc_reads[0] if iloc_reads else lp, 'a negative label position raises before labels.iloc is read' if good else
                                  'the anchor label is read with a possibly negative position: it wraps around to a label at the end', key='label-no-wrap')
    # progress
    adv = [i for i, s in enumerate(lp.body) if isinstance(s, ast.AugAssign) and isinstance(s.op, ast.Add) and norm(s.value) == 'step']
    conts = [c for s in lp.body[:adv[0]] for c in ast.walk(s) if isinstance(c, ast.Continue)] if adv else []
    good = len(adv) == 1 and not conts
    (ctx.ok if good else ctx.bad)(R, f, lp, 'the left bound advances by step once per iteration on every path' if good else 'the left bound does not advance by step on every path to the next window', key='progress')
