'''C16 Single-table export/import round trips reproduce the Frame.'''
from sfa.report import Ctx
from sfa.rules import axisrules
from sfa.rules import flowmisc
from sfa.rules import forwardrules
from sfa.rules import frozen
from sfa.rules import resolve
from sfa.rules import table

LEVEL_TEXT = (
    'Static decision of structural clauses of C16: (a) dialect agreement — every record written by to_delimited passes a csv.writer configured with delimiter and quote character, so every row source of from_delimited must pass a csv.reader configured with the same two parameters, and the csv/tsv wrappers pass matching delimiter constants; (c) pickle/deepcopy clause — __setstate__ re-freezes every owned array slot and __deepcopy__ uses array_deepcopy, which copies the flag; (b) every default token StoreFilter writes for NaN/None/inf is a member of the default set that reads it back, and the four lookup tables pair each predicate/value with the like-named token. (d) option forwarding — in every from_* / to_* / read* / write* entry point each call to a resolved callee that accepts a parameter named like one of the entry point\'s own parameters passes it on (383 sites; 15 confirmed exceptions listed with reasons): an import option such as store_filter, dtypes, index_depth is never silently dropped on one path. Pairs export: per path, to_pairs nests (major key, ((minor key, value), ...)) with major = index for axis 1 and columns for axis 0 over axis_values(axis). Record width: every header row and every data row of _to_str_records opens with exactly `index depth` cells on every branch (symbolic cell count, linear in the depth). Sibling defaults: a parameter taken by the same-named method of several container classes has the same default in each (confirmed exceptions listed in sfa/rules/forwardrules.py). Row-wise export dtype: the dtype resolver and the cached row dtype that every row-wise export (to_pairs(1), iter_tuple, iter_array, values) casts to keep their case structure — a dtype mismatch on append widens the cached row dtype (F3). Type tests: a class taken with type(v) is never tested by `in` against a tuple holding an abstract NumPy scalar class (equality never matches np.float64 / np.int64). Not decided: type re-inference by np.genfromtxt; multi-level header parsing.')

CLAIM = dict(
    text=LEVEL_TEXT,
    technique='writer/reader dialect and token-table agreement (sibling cross-check) + reanimation slot check + same-name parameter forwarding over resolved callees (inferred convention, exceptions frozen)',
    design_ref='DESIGN.md section 2.G and section 3 C16',
)


def run(ctx: Ctx) -> None:
    flowmisc.dialect_agreement(ctx)
    table.t5_storefilter(ctx)
    frozen.r4_reanimation(ctx, frozen.Driver(ctx))
    forwardrules.forwarding(ctx)
    axisrules.axis_iteration(ctx)
    flowmisc.record_width(ctx)
    resolve.f3_resolver_shape(ctx)
    forwardrules.sibling_defaults(ctx, prefixes=('from_', 'to_', 'read', 'write'), suffix='io', floor=30)
    resolve.type_membership_by_subclass(ctx)
