'''Family F — RESOLVE: every site that merges typed data routes through the dtype resolver before writing.'''
from __future__ import annotations

import ast
import typing as tp

from sfa import flow
from sfa.model import AnalysisError
from sfa.model import FuncInfo
from sfa.model import attr_chain
from sfa.model import call_name
from sfa.model import kwarg
from sfa.model import norm
from sfa.model import walk_local
from sfa.report import Ctx

RESOLVERS = ('resolve_dtype', 'resolve_dtype_iter')
# dtype expressions that are safe by themselves
SAFE_DTYPES = ('DTYPE_OBJECT', 'object', 'np.object_', 'DTYPE_BOOL', 'bool', 'DTYPE_INT_DEFAULT', 'DTYPE_FLOAT_DEFAULT', 'DTYPE_STR', 'int', 'str', 'float')
SKIP_MODULES = ('display', 'display_color', 'display_config', 'interface', 'store_xlsx', 'store_hdf5', 'doc_str', 'node_str', 'node_dt',
                'display_html_datatables', 'store_sqlite', 'store_filter', 'platform')

# `.copy()` store targets that need no resolver: the stored values come from the same array (or the array is of object / bool dtype)
SAME_SOURCE = {
    'type_blocks.TypeBlocks._fillna_directional_axis_0': 'values copied within one block: "type is already compatible" (directional fill reads the same block)',
    'series.Series._fillna_directional': 'directional fill within one array',
    'bus.Bus._update_series_cache_iloc': 'object array of Frames / placeholders',
    'index_base.IndexBase.loc_searchsorted': 'copy of the positions returned by iloc_searchsorted (np.searchsorted -> intp); the stored literal 0 is a position',
    'index_hierarchy.IndexHierarchy.loc_searchsorted': 'copy of the positions returned by iloc_searchsorted (intp); the stored literal 0 is a position',
    'series.Series.loc_searchsorted': 'copy of the positions returned by iloc_searchsorted (intp); the stored literal 0 is a position',
    'container_util.pandas_to_numpy': 'object array (asserted) receiving the fill value',
    'index_level.IndexLevel.values': 'row template of the resolved dtype copied per branch',
    'index_level.IndexLevel.__iter__': 'list copy, not an array',
    'frame.FrameAssignBLoc.__call__': 'Boolean key copied before masking',
    'index_hierarchy.IndexHierarchyAsType.__call__': 'object array of index classes',
    'util.ufunc_axis_skipna': 'object array: None replaced by nan',
    'util._ufunc_logical_skipna': 'truth-value fill inside the array\'s own (float / bool) dtype',
    'util._argminmax_2d': 'float result receiving nan',
}


def _defs(f: FuncInfo, name: str) -> tp.List[ast.Assign]:
    return [a for a in ast.walk(f.node) if isinstance(a, ast.Assign) and any(isinstance(t, ast.Name) and t.id == name for t in a.targets)]


def _resolver_derived(f: FuncInfo, e: tp.Optional[ast.expr], depth: int = 0) -> tp.Tuple[bool, str]:
    '''Is the dtype expression produced by the resolver (or a safe constant / the declared row dtype)?'''
    if e is None:
        return False, 'no dtype given'
    t = norm(e)
    if t in SAFE_DTYPES:
        return True, f'constant {t}'
    if isinstance(e, ast.Call) and call_name(e) in RESOLVERS:
        return True, f'{call_name(e)}(...)'
    if t.endswith('._DTYPE'):
        return True, f'class-level dtype constant {t}'
    if t.endswith('_row_dtype') or t in ('row_dtype',):
        return True, 'the TypeBlocks row dtype (maintained by the resolver)'
    if isinstance(e, ast.Attribute) and e.attr == 'dtype':
        return True, f'the dtype of the source array itself ({t})'
    if isinstance(e, ast.Subscript):
        return _resolver_derived(f, e.value, depth + 1)
    if isinstance(e, ast.Call) and call_name(e) in ('tuple', 'list') and e.args:
        return _resolver_derived(f, e.args[0], depth + 1)
    if isinstance(e, ast.Call) and (call_name(e).endswith('dtype_per_depth') or call_name(e) in ('dtype_from_element',)):
        return True, f'{call_name(e)}()'
    if isinstance(e, ast.Name) and depth < 4:
        ds = _defs(f, e.id)
        if not ds:
            if e.id in {p.lstrip('*') for p in f.params}:
                return True, f'caller-supplied dtype parameter `{e.id}`'
            return False, f'`{e.id}` has no definition'
        why = []
        for a in ds:
            ok, w = _resolver_derived(f, a.value, depth + 1)
            if isinstance(a.value, ast.Constant) and a.value.value is None:
                continue
            if not ok:
                return False, f'`{e.id}` = {norm(a.value)[:50]}'
            why.append(w)
        return True, '; '.join(sorted(set(why)))
    # loop variable over a tuple of dtypes etc.
    return False, f'`{t[:40]}` is not recognisably resolver-derived'


def _enclosing_if(f: FuncInfo, node: ast.AST) -> tp.Optional[tp.Tuple[ast.If, bool]]:
    '''Innermost If whose body (True) / orelse (False) directly contains node.'''
    best = None
    for n in ast.walk(f.node):
        if isinstance(n, ast.If):
            if any(s is node for s in n.body):
                best = (n, True)
            elif any(s is node for s in n.orelse):
                best = (n, False)
    return best


def f1_merge_stores(ctx: Ctx) -> None:
    R = 'F1.merge-store-dtype'
    ctx.rule(R, 'every array that receives an in-place store of values was allocated with a dtype that can hold them: '
             'a copy of existing data is a store target only on the `src.dtype == resolved` branch of the copy-or-astype idiom '
             '(resolved = resolve_dtype(value dtype, src.dtype)), astype targets use a resolver-derived dtype, '
             'np.empty / np.full targets name a resolver-derived (or constant / same-source) dtype, full_for_fill resolves by itself', floor=50)
    prog = ctx.prog
    for f in prog.top_funcs():
        if f.module.short in SKIP_MODULES:
            continue
        targets: tp.Dict[str, tp.List[ast.stmt]] = {}
        for n in ast.walk(f.node):
            if isinstance(n, (ast.Assign, ast.AugAssign)):
                tg = n.targets if isinstance(n, ast.Assign) else [n.target]
                for t in tg:
                    if isinstance(t, ast.Subscript) and isinstance(t.value, ast.Name):
                        targets.setdefault(t.value.id, []).append(n)
        for name, stores in targets.items():
            for a in _defs(f, name):
                v = a.value
                txt = norm(v)
                key = f'{name}={txt[:70]}'
                if isinstance(v, ast.Call) and isinstance(v.func, ast.Attribute) and v.func.attr == 'copy' and not v.args:
                    src = norm(v.func.value)
                    origin = getattr(a, '_sfa_origin', None)       # the helper this statement was spliced in from
                    why = SAME_SOURCE.get(f.qualname) or (next((w for q, w in SAME_SOURCE.items() if q.endswith('.' + origin)), None) if origin else None)
                    if why is not None:
                        ctx.ok(R, f, a, f'copy of `{src}` written with same-source values — exception table: {why}', key=key)
                        continue
                    enc = _enclosing_if(f, a)
                    ok = False
                    why = 'the copy is not on the equal-dtype branch of a copy-or-astype idiom'
                    if enc is not None:
                        node, in_body = enc
                        t = node.test
                        if isinstance(t, ast.Compare) and len(t.ops) == 1 and isinstance(t.ops[0], (ast.Eq, ast.NotEq)):
                            sides = [t.left, t.comparators[0]]
                            dt_side = [s for s in sides if isinstance(s, ast.Attribute) and s.attr == 'dtype']
                            r_side = [s for s in sides if s not in dt_side]
                            equal_branch = in_body if isinstance(t.ops[0], ast.Eq) else not in_body
                            other = node.orelse if in_body else node.body
                            other_astype = any(isinstance(x, ast.Assign) and norm(x.targets[0]) == name and isinstance(x.value, ast.Call)
                                               and isinstance(x.value.func, ast.Attribute) and x.value.func.attr == 'astype'
                                               and r_side and norm(x.value.args[0]) == norm(r_side[0]) for x in other)
                            src_base = src.split('[')[0].split('.')[0]
                            dt_ok = bool(dt_side) and norm(dt_side[0].value).split('[')[0].split('_sub')[0].split('.')[0] in (src_base, src_base.split('_sub')[0], src_base.replace('_pre', ''), 'b', 'block', 'values', 'array', 'self')
                            if dt_side and r_side and equal_branch and other_astype:
                                rok, rwhy = _resolver_derived(f, r_side[0])
                                ok = rok and any(isinstance(d.value, ast.Call) and call_name(d.value) in RESOLVERS for d in _defs(f, norm(r_side[0]))) if isinstance(r_side[0], ast.Name) else rok
                                why = f'copy on the `{norm(t)}` branch, astype({norm(r_side[0])}) otherwise; {norm(r_side[0])}: {rwhy}'
                            elif not equal_branch:
                                why = f'the copy sits on the branch where `{norm(t)}` says the dtypes differ'
                            elif not other_astype:
                                why = 'the other branch does not astype to the resolved dtype'
                    if not ok and enc is not None:
                        node, in_body = enc
                        t = node.test
                        if isinstance(t, ast.Compare) and len(t.ops) == 1 and isinstance(t.ops[0], ast.Is) and in_body \
                                and isinstance(t.comparators[0], ast.Constant) and t.comparators[0].value is None:
                            # `if <foreign> is None: copy` / `else: astype(resolve_dtype(<foreign>.dtype, src.dtype))`: nothing foreign to store here
                            foreign = norm(t.left)
                            for x in node.orelse:
                                for y in ast.walk(x):
                                    if isinstance(y, ast.Assign) and norm(y.targets[0]) == name and isinstance(y.value, ast.Call) \
                                            and isinstance(y.value.func, ast.Attribute) and y.value.func.attr == 'astype' and y.value.args:
                                        r = y.value.args[0]
                                        rdefs = _defs(f, norm(r)) if isinstance(r, ast.Name) else []
                                        rvals = [dd.value for dd in rdefs] + ([r] if isinstance(r, ast.Call) else [])       # the resolver call, named or in place
                                        if any(isinstance(rv, ast.Call) and call_name(rv) in RESOLVERS and f'{foreign}.dtype' in norm(rv) for rv in rvals):
                                            ok = True
                                            why = f'copy only while `{foreign}` is None (nothing foreign to store); otherwise astype(resolve_dtype({foreign}.dtype, ...))'
                    (ctx.ok if ok else ctx.bad)(R, f, a, why if ok else
                                                f'`{name} = {txt[:50]}` then receives stored values: {why} — values of another type are silently cast into the old dtype '
                                                '(truncated strings, floats cut to ints, ...)', key=key)
                elif isinstance(v, ast.Call) and isinstance(v.func, ast.Attribute) and v.func.attr == 'astype' and v.args:
                    rok, rwhy = _resolver_derived(f, v.args[0])
                    (ctx.ok if rok else ctx.unk)(R, f, a, f'astype target dtype: {rwhy}', key=key)
                elif isinstance(v, ast.Call) and call_name(v) == 'full_for_fill':
                    ctx.ok(R, f, a, 'full_for_fill resolves the fill value against the given dtype', key=key)
                elif isinstance(v, ast.Call) and call_name(v) in ('np.empty', 'np.full', 'np.zeros', 'np.ones', 'np.empty_like'):
                    d = kwarg(v, 'dtype')
                    if d is None and call_name(v) == 'np.empty' and len(v.args) >= 2:
                        d = v.args[1]
                    if d is None and call_name(v) == 'np.full' and len(v.args) >= 2 and isinstance(v.args[1], ast.Constant) \
                            and isinstance(v.args[1].value, (bool, int)):
                        ctx.ok(R, f, a, f'counter / mask initialised with the literal {v.args[1].value!r}', key=key)
                        continue
                    if d is None:
                        ctx.bad(R, f, a, f'`{txt[:60]}` allocates a store target without a dtype (NumPy default float64 / inferred from the fill value): '
                                'stored values of another type are cast', key=key)
                        continue
                    rok, rwhy = _resolver_derived(f, d)
                    (ctx.ok if rok else ctx.unk)(R, f, a, f'allocation dtype: {rwhy}', key=key)



def f1_resolver_coverage(ctx: Ctx) -> None:
    R = 'F1.resolver-coverage'
    ctx.rule(R, 'the dtype a store target is cast to is resolved from every source the stored values are drawn from: when the stored '
             'expression uses a collection of arrays whole, the resolver call must not look at one constant-indexed member of that '
             'collection only', floor=10)
    prog = ctx.prog
    n = 0
    for f in prog.top_funcs():
        if f.module.short in SKIP_MODULES:
            continue
        # resolver calls assigned to a local
        rdefs = {}
        for a in ast.walk(f.node):
            if isinstance(a, ast.Assign) and len(a.targets) == 1 and isinstance(a.targets[0], ast.Name) and isinstance(a.value, ast.Call) \
                    and call_name(a.value) in RESOLVERS:
                rdefs.setdefault(a.targets[0].id, []).append(a)
        if not rdefs:
            continue
        for rname, defs in rdefs.items():
            for d in defs:
                # targets cast with this dtype
                casts = [a for a in ast.walk(f.node) if isinstance(a, ast.Assign) and isinstance(a.targets[0], ast.Name) and isinstance(a.value, ast.Call)
                         and isinstance(a.value.func, ast.Attribute) and a.value.func.attr == 'astype' and a.value.args and norm(a.value.args[0]) == rname]
                tnames = {norm(a.targets[0]) for a in casts}
                if not tnames:
                    continue
                stores = [a for a in ast.walk(f.node) if isinstance(a, ast.Assign) and isinstance(a.targets[0], ast.Subscript)
                          and norm(a.targets[0].value) in tnames and abs(a.lineno - d.lineno) < 40]
                partial = {}   # collection name -> constant index looked at by the resolver
                for x in ast.walk(d.value):
                    if isinstance(x, ast.Subscript) and isinstance(x.value, ast.Name) and isinstance(x.slice, ast.Constant) and isinstance(x.slice.value, int):
                        partial[x.value.id] = x.slice.value
                for st in stores:
                    n += 1
                    key = f'{f.name}:{rname}->{norm(st.targets[0].value)}@{norm(st.value)[:40]}'
                    bad = []
                    for coll, idx in partial.items():
                        whole_use = False
                        for x in ast.walk(st.value):
                            if isinstance(x, ast.Name) and x.id == coll:
                                # is this occurrence the value of a subscript with the same constant?
                                sub = [y for y in ast.walk(st.value) if isinstance(y, ast.Subscript) and y.value is x
                                       and isinstance(y.slice, ast.Constant) and y.slice.value == idx]
                                if not sub:
                                    whole_use = True
                        if whole_use:
                            bad.append((coll, idx))
                    if bad:
                        ctx.bad(R, f, st, f'the stored values are drawn from all of `{bad[0][0]}` but `{rname}` is resolved from `{bad[0][0]}[{bad[0][1]}]` only: '
                                'values of the other members are cast into a dtype that cannot hold them', key=key)
                    else:
                        ctx.ok(R, f, st, f'`{rname}` = {norm(d.value)[:60]} covers what is stored', key=key)
    ctx.require(n >= 8, 'stores into resolver-cast targets')


def f2_concatenations(ctx: Ctx) -> None:
    R = 'F2.concatenate-dtype'
    ctx.rule(R, 'every np.concatenate in core writes into an out= array allocated with a resolver-derived dtype, or concatenates '
             'operands already cast to one dtype (the row dtype), or is reached only with equal-dtype groups; no np.hstack / vstack / '
             'append / insert / stack is applied to data', floor=7)
    prog = ctx.prog
    n_bad_prims = 0
    for f in prog.all_funcs():
        if isinstance(f.node, ast.Lambda) or f.module.short in SKIP_MODULES:
            continue
        top = f
        while top.parent is not None:
            top = top.parent
        for c in walk_local(f.node):
            if not isinstance(c, ast.Call):
                continue
            ch = attr_chain(c.func)
            if not ch or ch[0] not in ('np', 'numpy'):
                continue
            if ch[-1] in ('hstack', 'vstack', 'append', 'insert', 'stack', 'column_stack', 'row_stack', 'dstack', 'r_', 'c_'):
                n_bad_prims += 1
                ctx.bad(R, f, c, f'np.{ch[-1]} joins arrays with NumPy\'s own promotion (str + number -> str, int + float -> float): '
                        'use concat_resolved', key=f'{f.name}:np.{ch[-1]}')
            if ch[-1] != 'concatenate':
                continue
            key = f'{f.name}:concatenate({norm(c.args[0])[:30] if c.args else ""})'
            out = kwarg(c, 'out')
            if out is not None and isinstance(out, ast.Name):
                allocs = [a for a in _defs(top, out.id) if isinstance(a.value, ast.Call) and call_name(a.value) in ('np.empty', 'np.full')]
                oks = []
                for a in allocs:
                    d = kwarg(a.value, 'dtype') or (a.value.args[1] if len(a.value.args) > 1 else None)
                    oks.append(_resolver_derived(top, d))
                if allocs and all(o for o, _ in oks):
                    ctx.ok(R, f, c, f'out={out.id} allocated with ' + '; '.join(w for _, w in oks), key=key)
                else:
                    ctx.bad(R, f, c, f'out={out.id} is not allocated with a resolver-derived dtype ({[w for _, w in oks] or "no allocation found"})', key=key)
                continue
            # operands cast to a single dtype before joining
            arg = c.args[0] if c.args else None
            src = norm(top.node)
            if isinstance(arg, ast.Name):
                # list built by appends in the same function: every append is guarded by / cast to the row dtype
                appends = [x for x in ast.walk(top.node) if isinstance(x, ast.Call) and isinstance(x.func, ast.Attribute) and x.func.attr == 'append'
                           and norm(x.func.value) == arg.id]
                cast = [x for x in appends if '.astype(self._row_dtype)' in norm(x)]
                guarded = [x for x in appends if x not in cast]
                guard_ok = all(_under_dtype_equal_guard(top, x) for x in guarded)
                prior_cast = any(isinstance(s, ast.If) and '.dtype != self._row_dtype' in norm(s.test) and any('.astype(self._row_dtype)' in norm(b) for b in s.body)
                                 for s in ast.walk(top.node))
                # the same list written as a comprehension, its elements then cast in place: `for i, b in enumerate(L): if b.dtype != D: L[i] = b.astype(D)`
                comp_def = [a for a in _defs(top, arg.id) if isinstance(a.value, ast.ListComp)]
                in_place = any(isinstance(lp, ast.For) and isinstance(lp.iter, ast.Call) and call_name(lp.iter) == 'enumerate' and lp.iter.args and norm(lp.iter.args[0]) == arg.id
                               and any(isinstance(s, ast.If) and '.dtype != self._row_dtype' in norm(s.test) and any(
                                   isinstance(b, ast.Assign) and isinstance(b.targets[0], ast.Subscript) and norm(b.targets[0].value) == arg.id
                                   and '.astype(self._row_dtype)' in norm(b.value) for b in s.body) for s in lp.body)
                               for lp in ast.walk(top.node))
                if (appends and (cast or prior_cast) and (guard_ok or prior_cast)) or (comp_def and not appends and in_place):
                    ctx.ok(R, f, c, f'{len(appends) or len(comp_def)} operand source(s): cast to self._row_dtype unless already of that dtype', key=key)
                else:
                    ctx.bad(R, f, c, f'operands of np.concatenate({arg.id}) are not brought to one resolved dtype first', key=key)
                continue
            if top.name in ('_concatenate_blocks', 'consolidate_blocks'):
                # reached only from consolidate_blocks with groups of one dtype (the helper may have been spliced into consolidate_blocks by the model)
                cb = top.cls.methods.get('consolidate_blocks') if top.cls else None

                def _splits(n: ast.AST) -> bool:
                    # a new group starts whenever the dtype of the block differs from the dtype of the group
                    if not isinstance(n, ast.If):
                        return False
                    return any(isinstance(c_, ast.Compare) and len(c_.ops) == 1 and isinstance(c_.ops[0], ast.NotEq)
                               and any(isinstance(x, ast.Attribute) and x.attr == 'dtype' for x in ast.walk(c_)) for c_ in ast.walk(n.test))
                split = cb is not None and any(_splits(n) for n in walk_local(cb.node))
                callers = [g.qualname for g in prog.all_funcs() if not isinstance(g.node, ast.Lambda) and any(
                    isinstance(x, ast.Call) and call_name(x).endswith('_concatenate_blocks') for x in walk_local(g.node))]
                only_cb = all(q.endswith('consolidate_blocks') for q in callers)
                (ctx.ok if split and only_cb else ctx.bad)(R, f, c, 'called only by consolidate_blocks, which starts a new group whenever block.dtype != group_dtype' if split and only_cb else
                                                           f'_concatenate_blocks is reachable with mixed dtypes (callers {callers}, group split present: {split})', key=key)
                continue
            # operands produced, one per input, by a helper that casts to the dtype it is given: [self._h(b, self._row_dtype) for b in ...]
            if isinstance(arg, (ast.ListComp, ast.GeneratorExp)) and isinstance(arg.elt, ast.Call) and top.cls is not None:
                hn = arg.elt.func.attr if isinstance(arg.elt.func, ast.Attribute) else (arg.elt.func.id if isinstance(arg.elt.func, ast.Name) else None)
                h = top.cls.methods.get(hn) if hn else None
                if h is not None:
                    prm = _casts_to_param(h)
                    if prm is not None:
                        ps = [p_ for p_ in h.params if p_ not in ('self', 'cls')]
                        given = kwarg(arg.elt, prm) or (arg.elt.args[ps.index(prm)] if prm in ps and ps.index(prm) < len(arg.elt.args) else None)
                        rok, rwhy = _resolver_derived(top, given) if given is not None else (False, '')
                        if given is not None and (norm(given).endswith('._row_dtype') or rok):
                            ctx.ok(R, f, c, f'every operand is {hn}(..., {norm(given)}), which returns its input cast to that dtype', key=key)
                            continue
            ctx.bad(R, f, c, 'bare np.concatenate over arrays of possibly different dtypes (NumPy promotes str/number, int/float silently)', key=key)
    fixture = ast.parse('x = np.hstack((a, b))').body[0].value
    if attr_chain(fixture.func)[-1] != 'hstack':
        raise AnalysisError('positive fixture of F2 no longer matches')
    ctx.ok(R, 'core.<all calls>', None, f'{n_bad_prims} uses of np.hstack/vstack/append/insert/stack on data (fixture matched)', key='no-raw-stack', file='static_frame/core')


def _casts_to_param(h: FuncInfo) -> tp.Optional[str]:
    '''The dtype parameter P of a helper every return of which hands back an array of dtype P: `X.astype(P)`, or X itself where `X.dtype != P` was tested false
    (or `X.dtype == P` true) on the way.'''
    rets = [r for r in walk_local(h.node) if isinstance(r, ast.Return) and r.value is not None]
    if not rets:
        return None
    cands = {norm(r.value.args[0]) for r in rets if isinstance(r.value, ast.Call) and isinstance(r.value.func, ast.Attribute) and r.value.func.attr == 'astype' and r.value.args
             and isinstance(r.value.args[0], ast.Name) and r.value.args[0].id in h.params}
    if len(cands) != 1:
        return None
    prm = next(iter(cands))
    for r in rets:
        v = r.value
        if isinstance(v, ast.Call) and isinstance(v.func, ast.Attribute) and v.func.attr == 'astype' and v.args and norm(v.args[0]) == prm:
            continue
        # returned as it is: the function tests `<v>.dtype != prm` (or ==) somewhere
        tested = any(isinstance(c, ast.Compare) and len(c.ops) == 1 and isinstance(c.ops[0], (ast.Eq, ast.NotEq)) and
                     {norm(c.left), norm(c.comparators[0])} == {f'{norm(v)}.dtype', prm} for c in walk_local(h.node))
        if not tested:
            return None
    return prm


def _under_dtype_equal_guard(f: FuncInfo, node: ast.AST) -> bool:
    for n in ast.walk(f.node):
        if isinstance(n, ast.If) and norm(n.test).endswith('.dtype == self._row_dtype'):
            if any(x is node for s in n.body for x in ast.walk(s)):
                return True
    return False


def f3_resolver_shape(ctx: Ctx) -> None:
    R = 'F3.resolver-guards'
    ctx.rule(R, 'in resolve_dtype every np.result_type call is dominated either by a positive same-family guard (both str / both '
             'datetime / both timedelta) or by the negative guard that returns object when either side is str, bool, datetime or '
             'timedelta; object on either side returns object first; TypeBlocks.append widens _row_dtype to object on any mismatch; '
             'prepare_iter_for_array forces object for every mixing flag', floor=8)
    prog = ctx.prog
    f = prog.func('util.resolve_dtype')
    from sfa.symenv import SymEnv
    p1, p2 = (f.params + ['dt1', 'dt2'])[:2]
    se = SymEnv(f.node, watch=lambda x: isinstance(x, ast.Call) and call_name(x) == 'np.result_type', max_worlds=4096).run()
    sites = se.all_sites()
    ctx.require(len(sites) >= 4, 'resolve_dtype has its np.result_type calls')

    def atoms(p: str) -> tp.Dict[str, str]:
        return {'str': f'{p}.kind in DTYPE_STR_KINDS', 'dt': f'{p}.kind == DTYPE_DATETIME_KIND', 'tdelta': f'{p}.kind == DTYPE_TIMEDELTA_KIND', 'bool': f'{p}.type is np.bool_'}
    a1, a2 = atoms(p1), atoms(p2)
    n_site = 0
    for node, worlds in sites:
        n_site += 1
        verdicts = set()
        missing_all: tp.Set[str] = set()
        fam_seen = None
        for w in worlds:
            facts = se.facts(w)
            obj_excluded = facts.get(f"{p1}.kind == 'O'") is False and facts.get(f"{p2}.kind == 'O'") is False
            fam = next((k for k in ('str', 'dt', 'tdelta') if facts.get(a1[k]) and facts.get(a2[k])), None)
            neg_missing = {t for t in list(a1.values()) + list(a2.values()) if facts.get(t) is not False}
            if obj_excluded and fam is not None:
                verdicts.add('family')
                fam_seen = fam
            elif obj_excluded and not neg_missing:
                verdicts.add('negative')
            else:
                verdicts.add('bad')
                missing_all |= neg_missing if obj_excluded else {'object dtype'}
        key = f'result_type#{n_site}'
        if 'bad' in verdicts:
            ctx.bad(R, f, node, 'np.result_type is reachable for a mixed pair: not excluded: ' + str(sorted(missing_all)[:4]) +
                    ' — NumPy would promote (e.g. str + int -> str, bool + int -> int) instead of going to object', key=key)
        elif verdicts == {'family'}:
            ctx.ok(R, f, node, f'np.result_type under the same-family guard (both {fam_seen})', key=key)
        else:
            ctx.ok(R, f, node, 'np.result_type after the negative guard (neither side str / bool / datetime / timedelta / object)', key=key)
    # equal dtypes short-circuit
    # the first deciding statement (docstring / pass / assert aside) returns one of the two arguments when they are equal
    deciding = [x for x in f.node.body if not isinstance(x, (ast.Pass, ast.Assert)) and not (isinstance(x, ast.Expr) and isinstance(x.value, ast.Constant))]
    first = deciding[0] if deciding else f.node
    p1, p2 = (f.params + ['dt1', 'dt2'])[:2]
    good = isinstance(first, ast.If) and isinstance(first.test, ast.Compare) and len(first.test.ops) == 1 and isinstance(first.test.ops[0], ast.Eq) \
        and {norm(first.test.left), norm(first.test.comparators[0])} == {p1, p2} \
        and len(first.body) >= 1 and isinstance(first.body[-1], ast.Return) and norm(first.body[-1].value) in (p1, p2) \
        and all(isinstance(x, (ast.Pass, ast.Return)) for x in first.body)
    (ctx.ok if good else ctx.bad)(R, f, first, 'equal dtypes are returned unchanged' if good else 'the equal-dtype short-circuit changed', key='equal-shortcut')
    # TypeBlocks.append row dtype widening
    g = prog.method('TypeBlocks', 'append', inherited=False)
    # an if whose test compares (!=) the dtype of the appended block (the method's array parameter, possibly through a local) with self._row_dtype and whose
    # body sets self._row_dtype = DTYPE_OBJECT
    from sfa import roles as _roles
    inl = _roles.Inliner(g.node)
    sn = g.self_name() or 'self'
    blk = [p_ for p_ in g.params if p_ != sn]

    def _is_widening(n: ast.AST) -> bool:
        if not isinstance(n, ast.If):
            return False
        sets = any(isinstance(a, ast.Assign) and norm(a.targets[0]) == f'{sn}._row_dtype' and norm(a.value) == 'DTYPE_OBJECT' for b in n.body for a in ast.walk(b))
        if not sets:
            return False
        for c in ast.walk(inl.expr(n.test)):
            if isinstance(c, ast.Compare) and len(c.ops) == 1 and isinstance(c.ops[0], ast.NotEq):
                sides = {norm(c.left), norm(c.comparators[0])}
                if f'{sn}._row_dtype' in sides and any(f'{b}.dtype' in sides for b in blk):
                    return True
        return False
    wid = [n for n in walk_local(g.node) if _is_widening(n)]
    (ctx.ok if wid else ctx.bad)(R, g, g.node, 'a block of another dtype widens _row_dtype to object' if wid else
                                 'TypeBlocks.append no longer widens _row_dtype to object on a dtype mismatch: row extraction casts values', key='append-widening')
    init = prog.method('TypeBlocks', '__init__', inherited=False)
    good = any(isinstance(a, ast.Assign) and norm(a.targets[0]) == 'self._row_dtype' and isinstance(a.value, ast.Call) and call_name(a.value) == 'resolve_dtype_iter'
               for a in walk_local(init.node))
    (ctx.ok if good else ctx.bad)(R, init, init.node, '_row_dtype = resolve_dtype_iter(block dtypes)' if good else '_row_dtype is not computed by the resolver', key='row-dtype-init')
    # prepare_iter_for_array
    h = prog.func('util.prepare_iter_for_array')
    from sfa import roles
    from sfa.rules.frozen import _enclosing_tests
    # the scan loop: a for loop over an iterator of the values whose body sets Boolean flags
    flag_names = set(roles.assigned_from_all(h.node, lambda v: isinstance(v, ast.Constant) and v.value is False))
    loops = [n for n in walk_local(h.node) if isinstance(n, ast.For) and isinstance(n.target, ast.Name)
             and sum(1 for a in ast.walk(n) if isinstance(a, ast.Assign) and isinstance(a.targets[0], ast.Name) and a.targets[0].id in flag_names
                     and isinstance(a.value, ast.Constant) and a.value.value is True) >= 6]
    ctx.require(len(loops) == 1, 'prepare_iter_for_array scans its values and sets its flags')
    lp = loops[0]
    vname = lp.target.id
    vt = roles.assigned_from(lp, lambda v: isinstance(v, ast.Call) and call_name(v) == 'type' and len(v.args) == 1 and norm(v.args[0]) == vname)
    hn = roles.canonical(h.node, {'v': vname, 'value_type': vt})
    lp = [n for n in walk_local(hn) if isinstance(n, ast.For) and isinstance(n.target, ast.Name) and n.target.id == 'v' and n.lineno == lp.lineno][0]
    # each flag is named by the test of the current element under which it is set
    # each flag is named by what the test of the current element, under which it is set, looks at (not by its spelling)
    def role_of(t: ast.expr) -> tp.Optional[str]:
        txt = norm(t)
        names = {x.id for x in ast.walk(t) if isinstance(x, ast.Name)}
        if 'INT_MAX_COERCIBLE_TO_FLOAT' in names:
            return 'has_big_int'
        if 'INEXACT_TYPES' in names:
            return 'has_inexact'
        if 'Enum' in names:
            return 'has_enum'
        if 'tuple' in names or '__slots__' in txt:
            return 'has_tuple'
        if 'str' in names or 'np.str_' in txt:
            return 'has_str'
        return None
    flags_set = [a for a in ast.walk(lp) if isinstance(a, ast.Assign) and isinstance(a.targets[0], ast.Name) and a.targets[0].id in flag_names
                 and isinstance(a.value, ast.Constant) and a.value.value is True]
    found: tp.Dict[str, str] = {}
    for a in flags_set:
        tests = _enclosing_tests(lp, a)
        if not tests:
            continue
        r = role_of(tests[-1][0])
        if tests[-1][1] and r is not None:
            found[r] = a.targets[0].id
        elif not tests[-1][1] and r == 'has_str':
            found['has_non_str'] = a.targets[0].id
    # the magnitude test behind has_big_int is two-sided: large negative ints lose precision in float64 just as large positive ones
    for a in flags_set:
        tests = _enclosing_tests(lp, a)
        if tests and tests[-1][1] and role_of(tests[-1][0]) == 'has_big_int':
            t = tests[-1][0]
            two_sided = any(isinstance(c, ast.Call) and call_name(c) == 'abs' and c.args and norm(c.args[0]) == 'v' for c in ast.walk(t)) or \
                (any(isinstance(c, ast.Compare) and any(isinstance(o, (ast.Gt, ast.GtE)) for o in c.ops) for c in ast.walk(t)) and
                 any(isinstance(c, ast.Compare) and any(isinstance(o, (ast.Lt, ast.LtE)) for o in c.ops) for c in ast.walk(t)))
            (ctx.ok if two_sided else ctx.bad)(R, h, t, 'the big-int test looks at the magnitude (abs / both directions)' if two_sided else
                                               f'`{norm(t)[:70]}` looks at large positive ints only: an int below -2**53 next to a float is cast to float64 and changes value',
                                               key='prepare:big-int-two-sided')
    hn2 = roles.canonical(hn, found)
    src = [norm(n) for n in walk_local(hn2) if isinstance(n, ast.If)]
    need = [('has_tuple or has_enum or (has_str and has_non_str)', {'has_tuple', 'has_enum', 'has_str', 'has_non_str'}), ('has_big_int and has_inexact', {'has_big_int', 'has_inexact'})]
    for nd, used in need:
        resolved_name = roles.assigned_from(hn2, lambda v: isinstance(v, ast.Name) and v.id == 'object')
        hit = [x for x in src if nd in x and f'{resolved_name} = object' in x] if used <= set(found) else []
        (ctx.ok if hit else ctx.bad)(R, h, h.node, f'`{nd}` forces object' if hit else f'the mixing condition `{nd}` no longer forces an object array', key=f'prepare:{nd[:30]}')
    # order independence of the scan: a flag is set under a test of the current element only, never of other flags
    for a in flags_set:
        tests = [t for t, pol in _enclosing_tests(lp, a)]
        dep = sorted({x.id for t in tests for x in ast.walk(t) if isinstance(x, ast.Name) and x.id in flag_names})
        role = next((r for r, nm in found.items() if nm == a.targets[0].id), f'flag@{norm(tests[-1])[:30] if tests else "?"}')
        (ctx.ok if not dep else ctx.bad)(R, h, a, f'{role} is decided from the current element alone' if not dep else
                                         f'{role} is only set when another flag was already seen: whether a mix is detected depends on the order of the elements '
                                         '(e.g. a big int before the first float is missed and silently becomes a float)', key=f'prepare:flag-independent:{role}')


def f1_resolver_operand(ctx: Ctx) -> None:
    R = 'F1.dtype-captured-from-stored-value'
    ctx.rule(R, 'per path (symbolic store): where a dtype variable is captured from a value (`d = v.dtype` / `d = dtype_from_element(v)`), handed to resolve_dtype, and '
             'that same local `v` (or a selection of it) is later stored into the array cast with the resolved dtype, `v` still denotes at the store what it denoted at '
             'the capture: the dtype was not taken before the value was reindexed / converted / filled', floor=4)
    from sfa.symenv import SymEnv
    prog = ctx.prog
    n = 0
    for f in prog.top_funcs():
        if f.module.short in SKIP_MODULES:
            continue
        res_calls = [c for c in ast.walk(f.node) if isinstance(c, ast.Call) and call_name(c) == 'resolve_dtype']
        if not res_calls:
            continue
        # dtype variables handed to the resolver, and the value local each is captured from
        captured: tp.Dict[str, tp.Set[str]] = {}
        for c in res_calls:
            for a in c.args:
                if isinstance(a, ast.Name):
                    for d in ast.walk(f.node):
                        if isinstance(d, ast.Assign) and len(d.targets) == 1 and isinstance(d.targets[0], ast.Name) and d.targets[0].id == a.id:
                            v = d.value
                            if isinstance(v, ast.Attribute) and v.attr == 'dtype' and isinstance(v.value, ast.Name):
                                captured.setdefault(a.id, set()).add(v.value.id)
                            elif isinstance(v, ast.Call) and call_name(v) == 'dtype_from_element' and v.args and isinstance(v.args[0], ast.Name):
                                captured.setdefault(a.id, set()).add(v.args[0].id)
        if not captured:
            continue
        vnames = set().union(*captured.values())
        results = set()
        for a in ast.walk(f.node):
            if isinstance(a, ast.Assign) and isinstance(a.targets[0], ast.Name) and isinstance(a.value, ast.Call) and isinstance(a.value.func, ast.Attribute) \
                    and a.value.func.attr in ('astype', 'copy'):
                results.add(a.targets[0].id)

        def base_name(e: ast.expr) -> tp.Optional[str]:
            while isinstance(e, ast.Subscript):
                e = e.value
            return e.id if isinstance(e, ast.Name) else None
        stores = [a for a in ast.walk(f.node) if isinstance(a, ast.Assign) and isinstance(a.targets[0], ast.Subscript) and isinstance(a.targets[0].value, ast.Name)
                  and a.targets[0].value.id in results and base_name(a.value) in vnames]
        if not stores:
            continue
        ids = {id(s) for s in stores}
        tracked = set(captured) | vnames
        for _ in range(3):      # whatever the value is rebuilt from (fill values, keys) is followed too
            for a in ast.walk(f.node):
                if isinstance(a, (ast.Assign, ast.AnnAssign)) and a.value is not None:
                    tg = a.targets if isinstance(a, ast.Assign) else [a.target]
                    if any(isinstance(x, ast.Name) and x.id in tracked for t in tg for x in ast.walk(t)):
                        tracked |= {x.id for x in ast.walk(a.value) if isinstance(x, ast.Name)}
        se = SymEnv(f.node, watch=lambda x: id(x) in ids, max_worlds=512, track=tracked, max_len=1500, keep_fact=lambda t: False).run()
        for s_ in stores:
            v = base_name(s_.value)
            dvars = [d for d, srcs in captured.items() if v in srcs]
            for w in sorted(se.at(s_)):
                env = dict(w[0])
                vt = env.get(v, v)
                for d in dvars:
                    dt = env.get(d)
                    if dt is None:
                        continue        # the dtype variable is not bound on this path
                    n += 1
                    good = dt in (f'{vt}.dtype', f'dtype_from_element({vt})')
                    # accepted idiom (Series.fillna): the value is reindexed with fill_value=dtype_to_fill_value(<the captured dtype>), a filler of that
                    # dtype's own kind, so the reindexed array keeps the captured dtype
                    if not good and f'fill_value=dtype_to_fill_value({dt})' in vt and vt.count('reindex') == 1:
                        good = True
                    # a dtype captured from another local on this path (an element branch next to an array branch) is not this instance
                    if not good and not (dt.endswith('.dtype') or dt.startswith('dtype_from_element(')):
                        n -= 1
                        continue
                    key = f'{f.name}:{d}<-{v}'
                    (ctx.ok if good else ctx.bad)(R, f, s_, f'`{d}` is the dtype of what `{v}` denotes at the store' if good else
                                                  f'`{d}` was captured as `{dt[:60]}` but at the store `{v}` denotes `{vt[:70]}`: the dtype handed to the resolver belongs to the value '
                                                  'before it was rebuilt, so the stored elements are cast into a dtype resolved for other values', key=key)
    ctx.require(n >= 4, 'dtype captures paired with a later store of the same local')


def f1_dtype_accumulators(ctx: Ctx) -> None:
    R = 'F1.dtype-accumulator-merged'
    ctx.rule(R, 'a mapping that collects one dtype per key (recognised by a store of a dtype-resolver result into it) and is filled inside a loop whose keys can repeat '
             'merges a repeated key with the resolver — the loop contains a store `D[k] = resolve_dtype(D[k], ...)`; a loop that only defines (`D[k] = dtype`, '
             '`D.setdefault(k, dtype)`) keeps the first or last dtype of the group and the wider values of the other members are cast into it', floor=1)
    prog = ctx.prog
    n = 0
    for f in prog.all_funcs():
        if isinstance(f.node, ast.Lambda) or f.module.short in SKIP_MODULES:
            continue
        maps: tp.Set[str] = set()
        for a in walk_local(f.node):
            if isinstance(a, ast.Assign) and isinstance(a.targets[0], ast.Subscript) and isinstance(a.targets[0].value, ast.Name) \
                    and isinstance(a.value, ast.Call) and call_name(a.value) in RESOLVERS:
                maps.add(a.targets[0].value.id)
        for d in sorted(maps):
            for lp in walk_local(f.node):
                if not isinstance(lp, (ast.For, ast.While)):
                    continue
                stores: tp.List[tp.Tuple[ast.AST, tp.Optional[ast.expr], tp.Optional[ast.expr]]] = []   # (node, key, value)
                for s in ast.walk(lp):
                    if isinstance(s, ast.Assign) and isinstance(s.targets[0], ast.Subscript) and isinstance(s.targets[0].value, ast.Name) and s.targets[0].value.id == d:
                        stores.append((s, s.targets[0].slice, s.value))
                    elif isinstance(s, ast.Call) and isinstance(s.func, ast.Attribute) and isinstance(s.func.value, ast.Name) and s.func.value.id == d \
                            and s.func.attr in ('setdefault', 'update', '__setitem__'):
                        stores.append((s, s.args[0] if s.args else None, s.args[1] if len(s.args) > 1 else None))
                if not stores:
                    continue
                # innermost loop holding the stores only
                if any(isinstance(x, (ast.For, ast.While)) and x is not lp and all(any(y is st[0] for y in ast.walk(x)) for st in stores) for x in ast.walk(lp)):
                    continue
                n += 1
                key = f'{f.name}:{d}'
                merges = [st for st in stores if isinstance(st[2], ast.Call) and call_name(st[2]) in RESOLVERS and st[1] is not None
                          and any(isinstance(x, ast.Subscript) and isinstance(x.value, ast.Name) and x.value.id == d and norm(x.slice) == norm(st[1]) for x in ast.walk(st[2]))]
                if merges:
                    ctx.ok(R, f, merges[0][0], f'`{d}` is merged per key with {call_name(merges[0][2])} ({len(stores)} store(s) in the loop)', key=key)
                else:
                    ctx.bad(R, f, stores[0][0], f'`{norm(stores[0][0])[:60]}` only defines the dtype kept for a key of `{d}`; no store in the loop merges a repeated key with the '
                            'dtype resolver: the dtype of one member of the group wins and the values of the others are cast into it', key=key)
    ctx.require(n >= 1, 'dtype maps filled in a loop')


def f1_loop_dtype_carried(ctx: Ctx) -> None:
    R = 'F1.loop-dtype-carried'
    ctx.rule(R, 'a dtype name that is assigned inside a loop and, after the loop, types what the loop collected (`np.array(L, dtype=X)`, `np.empty(shape, dtype=X)`, '
             '`.astype(X)`, or X is returned) describes every element seen: inside the loop X is only widened — each assignment is a dtype-resolver call over X itself, '
             'or over the value X held before the loop together with loop-invariant operands; a plain reassignment, or a resolver call over the current element and a '
             'fixed dtype, lets the last iteration decide, and an element seen earlier (a wider block in the middle, a fill value of another type) is cast into it', floor=3)
    prog = ctx.prog
    n = 0
    for f in prog.all_funcs():
        if isinstance(f.node, ast.Lambda) or f.module.short in SKIP_MODULES:
            continue
        for lp in walk_local(f.node):
            if not isinstance(lp, (ast.For, ast.While)):
                continue
            assigned: tp.Dict[str, tp.List[ast.Assign]] = {}
            for a in ast.walk(lp):
                if isinstance(a, ast.Assign) and len(a.targets) == 1 and isinstance(a.targets[0], ast.Name):
                    assigned.setdefault(a.targets[0].id, []).append(a)
            # names bound by the loop (targets of this loop and of nested loops / comprehensions, and anything assigned in it)
            bound = set(assigned)
            for x in ast.walk(lp):
                if isinstance(x, (ast.For, ast.comprehension)):
                    bound |= {y.id for y in ast.walk(x.target) if isinstance(y, ast.Name)}
            for x, ins in assigned.items():
                # innermost loop only
                if any(isinstance(o, (ast.For, ast.While)) and o is not lp and all(any(y is a for y in ast.walk(o)) for a in ins) for o in ast.walk(lp)):
                    continue
                # X is a dtype: some assignment (inside or before) is a resolver call or a `.dtype` read
                all_defs = [a for a in walk_local(f.node) if isinstance(a, ast.Assign) and any(isinstance(t, ast.Name) and t.id == x for t in a.targets)]
                if not any((isinstance(a.value, ast.Call) and call_name(a.value) in RESOLVERS) or (isinstance(a.value, ast.Attribute) and a.value.attr == 'dtype') for a in all_defs):
                    continue
                # used after the loop to type the collected data
                end = lp.end_lineno or lp.lineno
                uses = [c for c in walk_local(f.node) if isinstance(c, ast.Call) and c.lineno > end and
                        ((kwarg(c, 'dtype') is not None and norm(kwarg(c, 'dtype')) == x) or
                         (isinstance(c.func, ast.Attribute) and c.func.attr == 'astype' and c.args and norm(c.args[0]) == x))]
                rets = [r for r in walk_local(f.node) if isinstance(r, ast.Return) and r.lineno > end and isinstance(r.value, ast.Name) and r.value.id == x]
                if not uses and not rets:
                    continue
                n += 1
                key = f'{f.qualname.split(".", 1)[1]}:{x}'
                inits = [norm(a.value) for a in all_defs if a.lineno < lp.lineno and not any(y is a for y in ast.walk(lp))]
                bad = None
                for a in ins:
                    v = a.value
                    if isinstance(v, ast.Name) and v.id in SAFE_DTYPES:
                        continue        # widening to a top dtype (object) is final
                    # first-element idiom: `if X is None: X = elem.dtype` (else: merge)
                    from sfa.rules.blockrules import _enclosing_ifs
                    if any(pol and norm(i.test) == f'{x} is None' for i, pol in _enclosing_ifs(lp, a)):
                        continue
                    if isinstance(v, ast.Call) and call_name(v) in RESOLVERS:
                        args = [norm(z) for z in v.args]
                        if x in args:
                            continue
                        invariant = not any(isinstance(y, ast.Name) and y.id in bound for z in v.args for y in ast.walk(z))
                        if invariant and any(i in args for i in inits):
                            continue
                    bad = a
                    break
                what = norm(uses[0])[:50] if uses else f'return {x}'
                if bad is not None:
                    ctx.bad(R, f, bad, f'`{norm(bad)[:70]}` inside the loop does not build on the dtype carried so far, yet `{x}` types `{what}` after the loop: the last '
                            'iteration decides the dtype and what was seen before it is cast (a wider input in the middle, a float fill value into an int column)', key=key)
                else:
                    ctx.ok(R, f, ins[0], f'`{x}` is only widened inside the loop (initial value `{inits[0] if inits else "?"}`) and then types `{what}`', key=key)
    ctx.require(n >= 3, 'loop-carried dtypes')


def f1_full_for_fill(ctx: Ctx) -> None:
    R = 'F1.full-for-fill-resolves'
    ctx.rule(R, 'F1.merge-store-dtype trusts util.full_for_fill to type its array so that both the existing data and the fill value fit; that trust is checked here: on '
             'every path (symbolic store) the dtype of each allocation in full_for_fill is the dtype of the fill element itself (no target dtype given) or a resolver '
             'call over the target dtype and the dtype of the fill element; keeping the target dtype on some path casts the fill value into it (0.1 into float32, '
             '1e300 into inf)', floor=2)
    from sfa.symenv import SymEnv
    prog = ctx.prog
    f = prog.func('util.full_for_fill')
    allocs = [c for c in walk_local(f.node) if isinstance(c, ast.Call) and call_name(c) in ('np.full', 'np.empty', 'np.zeros', 'np.ones') and (kwarg(c, 'dtype') is not None)]
    ctx.require(len(allocs) >= 2, 'allocations of full_for_fill')
    ids = {id(c) for c in allocs}
    se = SymEnv(f.node, watch=lambda x: id(x) in ids, max_worlds=256, keep_fact=lambda t: True).run()
    elem_calls = {norm(a.value) for a in walk_local(f.node) if isinstance(a, ast.Assign) and isinstance(a.value, ast.Call) and call_name(a.value) == 'dtype_from_element'}
    tgt = f.params[0]
    for i_c, c in enumerate(allocs):
        key = f'full_for_fill:{call_name(c)}#{i_c}'
        bad = None
        for w in sorted(se.at(c)):
            t = se.text(kwarg(c, 'dtype'), w)
            facts = se.facts(w)
            target_given = not (facts.get(f'{tgt} is None') is True or facts.get(f'{tgt} is not None') is False)
            resolved = any(r + '(' in t for r in RESOLVERS) and tgt in t and any(e in t for e in elem_calls)
            from_element = t in elem_calls
            if resolved or (from_element and not target_given) or t in SAFE_DTYPES:
                continue
            bad = t
            break
        if bad is None:
            ctx.ok(R, f, c, 'on every path the dtype is resolved from the target dtype and the fill element (or is the element\'s own dtype when no target is given)', key=key)
        else:
            ctx.bad(R, f, c, f'on some path `{norm(c)[:50]}` is typed `{bad[:60]}`, which is not resolved against the dtype of the fill element: the fill value is cast into the '
                    'target dtype', key=key)


NP_ABSTRACT_SCALARS = ('np.inexact', 'np.integer', 'np.floating', 'np.complexfloating', 'np.number', 'np.generic', 'np.signedinteger', 'np.unsignedinteger', 'np.flexible',
                       'np.character')


def type_membership_by_subclass(ctx: Ctx) -> None:
    R = 'I.type-membership-by-subclass'
    ctx.rule(R, 'a class taken with type(v) is tested against a tuple of types with `in` only when every member of the tuple is a concrete class: `type(v) in T` compares by '
             'equality, so an abstract NumPy scalar class in T (np.inexact, np.integer, np.number, ...) never matches any value — np.float64 is a subclass of float and of '
             'np.inexact but equal to neither; the dtype decision that depends on the test (is there a float next to a big int?) then goes the wrong way', floor=1)
    prog = ctx.prog
    util = [m for m in prog.modules.values() if m.short == 'util'][0]
    consts: tp.Dict[str, ast.expr] = {}
    for s in util.tree.body:
        if isinstance(s, ast.Assign) and len(s.targets) == 1 and isinstance(s.targets[0], ast.Name) and isinstance(s.value, (ast.Tuple, ast.Set, ast.List)):
            consts[s.targets[0].id] = s.value
    n = 0
    for f in prog.all_funcs():
        if isinstance(f.node, ast.Lambda) or f.module.short in SKIP_MODULES:
            continue
        tnames = {a.targets[0].id for a in walk_local(f.node) if isinstance(a, ast.Assign) and isinstance(a.targets[0], ast.Name) and
                  ((isinstance(a.value, ast.Call) and call_name(a.value) == 'type') or (isinstance(a.value, ast.Attribute) and a.value.attr == '__class__'))}
        for c in walk_local(f.node):
            if not (isinstance(c, ast.Compare) and len(c.ops) == 1 and isinstance(c.ops[0], (ast.In, ast.NotIn))):
                continue
            left = c.left
            is_type = (isinstance(left, ast.Name) and left.id in tnames) or (isinstance(left, ast.Call) and call_name(left) == 'type') or \
                (isinstance(left, ast.Attribute) and left.attr == '__class__')
            if not is_type:
                continue
            cont = c.comparators[0]
            members = cont if isinstance(cont, (ast.Tuple, ast.Set, ast.List)) else consts.get(cont.id) if isinstance(cont, ast.Name) else None
            if members is None:
                continue
            n += 1
            key = f'{f.qualname.split(".", 1)[1]}:{norm(c)[:50]}'
            abstract = [norm(e) for e in members.elts if norm(e) in NP_ABSTRACT_SCALARS]
            if abstract:
                ctx.bad(R, f, c, f'`{norm(c)}` compares a class by equality with a tuple holding the abstract {abstract}: no NumPy scalar is ever of exactly that class '
                        '(use issubclass / isinstance)', key=key)
            else:
                ctx.ok(R, f, c, 'every member of the tuple is a concrete class', key=key)
    ctx.require(n >= 1, 'type-in-tuple membership tests')
