'''C12 Sorting permutes whole rows, orders the keys, and is stable.'''
from sfa.report import Ctx
from sfa.rules import own
from sfa.rules import forwardrules
from sfa.rules import sortrules
from sfa.rules import table

LEVEL_TEXT = (
    'Static decision of the structural clauses of C12: (a) the default sort-kind constants are stable NumPy kinds; (b) every '
    'np.argsort / np.sort / ndarray.sort in core receives kind= that is the caller\'s own `kind` parameter or a stable constant, and '
    'every function with a `kind` parameter (14, incl. the Bus and Batch forwards) defaults it to the constant and passes it on '
    'unmodified; (c) at each of the 5 np.lexsort sites the key list iterates from the last depth/column down to 0, so depth 0 is the '
    'primary key; (d) each sort result selects labels and values with the same permutation variable and passes the other axis and '
    'the name through; (f) every definition of the permutation is a sort primitive over values data-dependent on the key container, or its own reversal; (e) `ascending` is consumed only by reversing the permutation after the stable ascending sort. '
    'Option forwarding: in every sort interface each call to a resolved callee that accepts a parameter named like one of the function\'s own parameters passes it on (confirmed exceptions listed in sfa/rules/forwardrules.py). Key dtypes: per path of Frame.sort_values, several key columns are handed to np.lexsort column by column in their own dtype, never consolidated into one array first. Sibling defaults: a parameter taken by the same-named method of several container classes has the same default in each (confirmed exceptions listed in sfa/rules/forwardrules.py). Sorted results own their labels: no sort route hands a grow-only member of its source to the result with own_* possibly True (the axis that is not sorted is carried over by copy for grow-only frames) (C.own-handoff). Not decided: NumPy\'s sort itself, key-function results, NaN ordering.')

CLAIM = dict(
    text=LEVEL_TEXT,
    technique='parameter-forwarding dataflow (kind / ascending), iteration-direction check at lexsort sites, label/value co-indexing (PAIR) on the permutation',
    design_ref='DESIGN.md section 3 C12',
)


def run(ctx: Ctx) -> None:
    table.t4_sortkind(ctx)
    sortrules.kind_forwarding(ctx)
    sortrules.lexsort_order(ctx)
    sortrules.descending_is_reversal(ctx)
    sortrules.whole_rows(ctx)
    sortrules.order_from_keys(ctx)
    forwardrules.forwarding(ctx, modules=None, prefixes=('sort', '_sort'), suffix='sort', floor=16, what='sort interface')
    sortrules.keys_own_dtype(ctx)
    forwardrules.sibling_defaults(ctx, prefixes=('sort', '_sort'), suffix='sort', floor=9)
    own.c_handoffs(ctx)
