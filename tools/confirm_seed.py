#!/usr/bin/env python3
'''Confirm a seeded change produced by a sub-agent, in a scratch worktree of /repo (removed afterwards):

  1. the patch applies to /repo's HEAD and the tree still imports;
  2. the demonstration exits 0 on the clean tree and non-zero with the change;
  3. the pinned suite still passes with the change (every BASELINE stable_pass test passes; tests known to be
     randomly flaky on the unchanged tree are listed in FLAKY and re-run once on their own);
  4. (optional) which /verif checks report a violation with the change applied to the scratch copy.

Usage: confirm_seed.py <dir with patch.diff and demo.py> [--jobs N] [--skip-suite] [--out FILE]
Writes <dir>/confirm.json and prints a summary.
'''
import json
import os
import shutil
import subprocess
import sys
import tempfile
import xml.etree.ElementTree as ET

FLAKY = {'static_frame.test.property.test_util.TestUnit::test_union2d'}
PY = '/venv/bin/python'


def run(cmd, cwd, env=None, timeout=3600):
    e = dict(os.environ)
    if env:
        e.update(env)
    return subprocess.run(cmd, cwd=cwd, env=e, stdout=subprocess.PIPE, stderr=subprocess.STDOUT, text=True, timeout=timeout)


def suite(wt, jobs, patch=None):
    with open('/root/.vp/BASELINE.json') as f:
        want = set(json.load(f)['stable_pass'])
    xml = os.path.join(wt, '_junit.xml')
    cmd = [PY, '-m', 'pytest', '-q', '-p', 'no:cacheprovider', '--timeout=900', '--continue-on-collection-errors',
           f'--junitxml={xml}', '-n', str(jobs)]
    r = run(cmd, wt, env={'PYTHONPATH': wt})
    passed, why = set(), {}
    for tc in ET.parse(xml).getroot().iter('testcase'):
        name = f"{tc.get('classname')}::{tc.get('name')}"
        bad = [ch for ch in tc if ch.tag in ('failure', 'error', 'skipped')]
        if not bad:
            passed.add(name)
        else:
            why[name] = (bad[0].get('message') or '')[:200]
    missing = sorted(want - passed)
    # re-run flaky ones alone
    still = []
    for m in missing:
        if m in FLAKY:
            continue
        mod, test = m.split('::')
        path = mod.rsplit('.', 1)[0].replace('.', '/') + '.py::' + mod.rsplit('.', 1)[1] + '::' + test
        r2 = run([PY, '-m', 'pytest', '-q', '-p', 'no:cacheprovider', path], wt, env={'PYTHONPATH': wt})
        if ' passed' not in r2.stdout.strip().splitlines()[-1] or ' failed' in r2.stdout.strip().splitlines()[-1]:
            still.append((m, why.get(m, '')))
    # a hypothesis-driven test can fail on an example unrelated to the change: re-run what is still missing three times with a fresh example
    # database with and without the patch; a test that passes with the patch, or fails as often without it, is flaky and not attributed
    flaky = []
    if still and patch is not None:
        def tries(test, n=3):
            mod, t = test.split('::')
            path = mod.rsplit('.', 1)[0].replace('.', '/') + '.py::' + mod.rsplit('.', 1)[1] + '::' + t
            ok = 0
            for _ in range(n):
                shutil.rmtree(os.path.join(wt, '.hypothesis'), ignore_errors=True)
                rr = run([PY, '-m', 'pytest', '-q', '-p', 'no:cacheprovider', path], wt, env={'PYTHONPATH': wt})
                last = rr.stdout.strip().splitlines()[-1] if rr.stdout.strip() else ''
                ok += int(' passed' in last and ' failed' not in last)
            return ok
        keep = []
        for m, why in still:
            p_ok = tries(m)
            run(['git', '-C', wt, 'apply', '-R', patch], '/')
            c_ok = tries(m)
            run(['git', '-C', wt, 'apply', patch], '/')
            if p_ok >= 1 or p_ok >= c_ok:
                flaky.append({'test': m, 'why': why, 'runs': 3, 'passed_patched': p_ok, 'passed_clean': c_ok})
            else:
                keep.append((m, why))
        still = keep
    return {'tail': r.stdout.strip().splitlines()[-1:], 'passed': len(passed), 'missing_first_run': missing, 'missing_confirmed': still, 'flaky_unrelated': flaky}


def main():
    d = os.path.abspath(sys.argv[1])
    jobs = int(sys.argv[sys.argv.index('--jobs') + 1]) if '--jobs' in sys.argv else 6
    skip_suite = '--skip-suite' in sys.argv
    patch = os.path.join(d, 'patch.diff')
    demo = os.path.join(d, 'demo.py')
    out = {'dir': d}
    tmp = tempfile.mkdtemp(prefix='confirm-seed-')
    wt = os.path.join(tmp, 'wt')
    try:
        r = run(['git', '-C', '/repo', 'worktree', 'add', '--detach', wt, 'HEAD'], '/')
        if r.returncode:
            raise SystemExit(r.stdout)
        env = {'PYTHONPATH': wt}
        r = run([PY, demo], wt, env=env)
        out['demo_clean_rc'] = r.returncode
        out['demo_clean_tail'] = r.stdout.strip().splitlines()[-3:]
        r = run(['git', '-C', wt, 'apply', patch], '/')
        out['patch_applies'] = r.returncode == 0
        if r.returncode:
            out['patch_error'] = r.stdout[-500:]
        else:
            r = run([PY, '-c', 'import static_frame, sys; print(static_frame.__file__)'], wt, env=env)
            out['imports'] = r.returncode == 0 and wt in r.stdout
            r = run([PY, demo], wt, env=env)
            out['demo_patched_rc'] = r.returncode
            out['demo_patched_tail'] = r.stdout.strip().splitlines()[-3:]
            # which checks fire on the patched scratch copy
            fired = {}
            for i in range(1, 21):
                pid = f'C{i:02d}'
                if not os.path.exists(f'/verif/sfa/props/{pid.lower()}.py'):
                    continue
                rr = run(['/verif/check', pid, '--repo', wt, '--no-evidence', '--evidence-dir', os.path.join(tmp, 'ev')], '/verif')
                v = [l.strip()[:300] for l in rr.stdout.splitlines() if l.strip().startswith('violated:')]
                if rr.returncode == 1:
                    fired[pid] = v
                elif rr.returncode == 2:
                    fired[pid] = ['ANALYSIS-ERROR ' + rr.stdout.strip().splitlines()[-1][:300]]
            out['checks_fired'] = fired
            if not skip_suite:
                out['suite'] = suite(wt, jobs, patch)
    finally:
        run(['git', '-C', '/repo', 'worktree', 'remove', '--force', wt], '/')
        shutil.rmtree(tmp, ignore_errors=True)
    ok = out.get('patch_applies') and out.get('imports') and out.get('demo_clean_rc') == 0 and out.get('demo_patched_rc', 0) != 0 \
        and (skip_suite or not out['suite']['missing_confirmed'])
    out['confirmed'] = bool(ok)
    dest = sys.argv[sys.argv.index('--out') + 1] if '--out' in sys.argv else os.path.join(d, 'confirm.json')
    with open(dest, 'w') as f:
        json.dump(out, f, indent=1)
    print(json.dumps({k: v for k, v in out.items() if k != 'suite'}, indent=1))
    if 'suite' in out:
        print('suite:', out['suite']['tail'], 'missing_confirmed:', out['suite']['missing_confirmed'])


main()
