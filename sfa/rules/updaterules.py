'''C08 rules: functional updates keep labels / names, never write into the original, drop in step,
and normalise assignment keys before block assignment.'''
from __future__ import annotations

import ast
import typing as tp

from sfa.model import AnalysisError
from sfa.model import FuncInfo
from sfa.model import call_name
from sfa.model import kwarg
from sfa.model import norm
from sfa.model import walk_local
from sfa import roles
from sfa.report import Ctx
from sfa.rules import pair

CTORS = ('self.__class__', 'self.container.__class__', 'Frame', 'Series')

# (class, method, Frame-like?, name must be passed through?)  — frozen from the tree, one line of reason each
PASSTHROUGH = (
    ('FrameAssignILoc', '__call__', True, True),    # assign: docstring "The name attribute is propagated"
    ('FrameAssignBLoc', '__call__', True, True),
    ('SeriesAssign', '__call__', False, True),
    ('FrameAsType', '__call__', True, True),        # astype changes dtypes only
    ('Series', 'astype', False, True),
    ('Frame', '_extract_iloc_mask', True, False),   # mask: same labels; a Boolean container, name not carried today
    ('Series', '_extract_iloc_mask', False, False),
    ('Frame', 'fillna', True, True), ('Frame', 'fillna_leading', True, True), ('Frame', 'fillna_trailing', True, True),
    ('Frame', 'fillna_forward', True, True), ('Frame', 'fillna_backward', True, True),
    ('Series', 'fillna', False, True), ('Series', 'fillna_leading', False, True), ('Series', 'fillna_trailing', False, True),
    ('Series', 'fillna_forward', False, True), ('Series', 'fillna_backward', False, True),
    ('Frame', 'isin', True, True), ('Series', 'isin', False, True),
    ('Frame', 'clip', True, True), ('Series', 'clip', False, True),
    ('Frame', 'shift', True, True), ('Series', 'shift', False, True),
    ('Frame', '_ufunc_unary_operator', True, True), ('Series', '_ufunc_unary_operator', False, True),
    ('Frame', '__round__', True, True), ('Series', '__round__', False, True),
    ('Frame', 'isna', True, False), ('Frame', 'notna', True, False), ('Series', 'isna', False, False), ('Series', 'notna', False, False),
    ('Frame', '_ufunc_shape_skipna', True, False), ('Series', '_ufunc_shape_skipna', False, False),
)


def _whole(e: tp.Optional[ast.expr], which: str) -> bool:
    t = norm(e)
    return t in (f'self._{which}', f'self.{which}', f'self.container._{which}', f'self.container.{which}')


def label_passthrough(ctx: Ctx, only: tp.Optional[tp.Sequence[str]] = None, rule_suffix: str = 'update') -> None:
    R = f'E.passthrough[{rule_suffix}]'
    ctx.rule(R, 'operations that change values only return a container labelled by exactly the original index (and columns) object, '
             'and carry the name where the interface says so', floor=30 if only is None else 4)
    prog = ctx.prog
    for cname, m, is_frame, want_name in PASSTHROUGH:
        if only is not None and m not in only:
            continue
        k = prog.cls(cname)
        f = k.methods.get(m)
        if f is None:
            raise AnalysisError(f'anchor vanished: {cname}.{m}')
        calls = [c for c in walk_local(f.node) if isinstance(c, ast.Call) and norm(c.func) in CTORS]
        if not calls:
            ctx.unk(R, f, f.node, 'no result constructor found', key=f'{cname}.{m}')
            continue
        for i, c in enumerate(calls):
            problems = []
            if not _whole(kwarg(c, 'index'), 'index'):
                problems.append(f'index={norm(kwarg(c, "index")) or "<absent>"}')
            if is_frame and not _whole(kwarg(c, 'columns'), 'columns'):
                problems.append(f'columns={norm(kwarg(c, "columns")) or "<absent>"}')
            if want_name and not _whole(kwarg(c, 'name'), 'name'):
                problems.append(f'name={norm(kwarg(c, "name")) or "<absent>"}')
            key = f'{cname}.{m}#{i}'
            if problems:
                ctx.bad(R, f, c, f'the result of {cname}.{m} is not labelled by the original\'s own ' + ', '.join(problems) +
                        ': labels / name are not preserved by an operation that only changes values', key=key)
            else:
                ctx.ok(R, f, c, 'index' + (', columns' if is_frame else '') + (', name' if want_name else '') + ' passed through', key=key)


def transpose_form(ctx: Ctx) -> None:
    R = 'E.transpose-form'
    ctx.rule(R, 'Frame.transpose pairs transposed values with swapped whole labels (index <- columns, columns <- index)', floor=1)
    f = ctx.prog.method('Frame', 'transpose', inherited=False)
    calls = [c for c in walk_local(f.node) if isinstance(c, ast.Call) and norm(c.func) in CTORS]
    ctx.require(len(calls) == 1, 'Frame.transpose constructs once')
    c = calls[0]
    good = norm(kwarg(c, 'index')) == 'self._columns' and norm(kwarg(c, 'columns')) == 'self._index' and 'transpose()' in norm(c.args[0] if c.args else kwarg(c, 'data'))
    (ctx.ok if good else ctx.bad)(R, f, c, 'index=self._columns, columns=self._index over transposed blocks' if good else
                                  f'transpose labels are index={norm(kwarg(c, "index"))}, columns={norm(kwarg(c, "columns"))}', key='Frame.transpose')


def drop_pairs(ctx: Ctx) -> None:
    R = 'E.pair[drop]'
    ctx.rule(R, 'drop removes values and labels with the same key on each axis and passes the name through', floor=2)
    prog = ctx.prog
    for cname, kind in (('Series', 'Series'), ('Frame', 'Frame')):
        f = prog.method(cname, '_drop_iloc', inherited=False)
        for c in pair.constructor_calls(f):
            pair.check_site(ctx, R, f, c, kind, expect_name=True)


def assign_keys(ctx: Ctx) -> None:
    R = 'I.assign-key-normalised'
    ctx.rule(R, 'FrameAssignILoc.__call__ sorts the column key with key_to_ascending_key (TypeBlocks._assign_from_iloc_* require '
             'ascending column keys) and uses that same normalised key both to align a labelled value and to assign it', floor=4)
    f = ctx.prog.method('FrameAssignILoc', '__call__', inherited=False)
    ex = roles.Expander(f.node)
    sorted_key = '(self.key[0], key_to_ascending_key(self.key[1], self.container.shape[1]))'
    row_only = '(self.key, None)'
    uses = [c for c in walk_local(f.node) if isinstance(c, ast.Call) and (call_name(c).endswith('extract_iloc_assign_by_unit')
            or call_name(c).endswith('extract_iloc_assign_by_blocks') or call_name(c).endswith('_reindex_other_like_iloc'))]
    ctx.require(len(uses) >= 5, 'FrameAssignILoc.__call__ aligns and assigns')
    for n_use, c in enumerate(uses):
        arg = c.args[1] if call_name(c).endswith('_reindex_other_like_iloc') and len(c.args) > 1 else (c.args[0] if c.args else None)
        got = ex.expand(arg)
        good = got <= {sorted_key, row_only} and sorted_key in got
        short = call_name(c).split('.')[-1]
        (ctx.ok if good else ctx.bad)(R, f, c, f'{short} uses the key whose column part went through key_to_ascending_key' if good else
                                      f'{short} is given `{sorted(got)}`: the column key reaches block assignment unsorted (values land in the wrong columns for a '
                                      'descending / unordered key)', key=f'key-use:{short}#{n_use}')
    # the aligned value is what is assigned: the second argument of each block assignment is the local bound by the statement just before it
    n_as = 0
    for holder in ast.walk(f.node):
        for field in ('body', 'orelse'):
            stmts = getattr(holder, field, None)
            if not isinstance(stmts, list):
                continue
            for i, a in enumerate(stmts):
                if isinstance(a, ast.Assign) and isinstance(a.value, ast.Call) and call_name(a.value).split('.')[-1].startswith('extract_iloc_assign_by') and len(a.value.args) >= 2:
                    n_as += 1
                    second = a.value.args[1]
                    prev = stmts[i - 1] if i else None
                    good = isinstance(second, ast.Name) and prev is not None and second.id in roles.targets_of(prev)
                    (ctx.ok if good else ctx.bad)(R, f, a, 'the value aligned (or taken) just before is what is assigned' if good else f'assigns `{norm(second)}`, not the value prepared for this branch',
                                                  key=f'assigned#{n_as}')
    ctx.require(n_as >= 3, 'block assignments in FrameAssignILoc.__call__')


def aligned_store_key(ctx: Ctx) -> None:
    R = 'I.aligned-store-same-key'
    ctx.rule(R, 'a labelled value written into selected positions (`array[K] = v`, v the `.values` of the reindexed value) is aligned to the receiver\'s own labels at '
             'exactly those positions: the reindex is `_reindex_other_like_iloc(value, K)` with the same K as the store, or `.reindex(<own index>[K] / '
             '._extract_iloc(K))`; a reindex to anything else (a sorted set-operation result, the value\'s own labels) puts the values of other labels into the '
             'selected cells', floor=2)
    prog = ctx.prog
    n = 0
    for f in prog.all_funcs():
        if isinstance(f.node, ast.Lambda) or f.module.short not in ('series', 'frame', 'index', 'container_util'):
            continue
        stmts = [s for s in walk_local(f.node) if isinstance(s, ast.Assign) and len(s.targets) == 1]
        for a in stmts:
            # v = <...>.reindex(...).values  /  v = <c>._reindex_other_like_iloc(value, K', ...).values
            if not (isinstance(a.targets[0], ast.Name) and isinstance(a.value, ast.Attribute) and a.value.attr == 'values' and isinstance(a.value.value, ast.Call)):
                continue
            call = a.value.value
            cn = call_name(call).split('.')[-1]
            if cn not in ('reindex', '_reindex_other_like_iloc'):
                continue
            v = a.targets[0].id
            stores = [s for s in stmts if isinstance(s.targets[0], ast.Subscript) and isinstance(s.value, ast.Name) and s.value.id == v and s.lineno > a.lineno
                      and isinstance(s.targets[0].value, ast.Name)]
            for s in stores:
                k = s.targets[0].slice
                ktxt = norm(k)
                # the key is not rebound between the alignment and the store
                rebound = [x for x in stmts if a.lineno < x.lineno < s.lineno and norm(x.targets[0]) == ktxt]
                n += 1
                key = f'{f.qualname.split(".", 1)[1]}:{norm(s.targets[0].value)}[{ktxt}]'
                if rebound:
                    ctx.bad(R, f, s, f'`{ktxt}` is rebound between the alignment of the value and the store: the values were aligned to another selection', key=key)
                    continue
                if cn == '_reindex_other_like_iloc':
                    got = norm(call.args[1]) if len(call.args) > 1 else norm(kwarg(call, 'iloc_key'))
                    if got == ktxt:
                        ctx.ok(R, f, s, f'value aligned with _reindex_other_like_iloc(..., {ktxt}) and stored at [{ktxt}]', key=key)
                    else:
                        ctx.bad(R, f, call, f'the value is aligned to the labels at `{got}` but stored at `[{ktxt}]`', key=key)
                    continue
                tgt = call.args[0] if call.args else kwarg(call, 'index')
                tgt_i = roles.Inliner(f.node).expr(tgt) if tgt is not None else None
                t = norm(tgt_i)
                # the target itself is <recv>._index._extract_iloc(K) / <recv>.index[K] / <recv>.index.iloc[K]
                def own_at_key(e: tp.Optional[ast.expr]) -> bool:
                    if isinstance(e, ast.Call) and isinstance(e.func, ast.Attribute) and e.func.attr == '_extract_iloc' and len(e.args) == 1:
                        base, kk = e.func.value, e.args[0]
                    elif isinstance(e, ast.Subscript):
                        base, kk = e.value, e.slice
                        if isinstance(base, ast.Attribute) and base.attr in ('iloc',):
                            base = base.value
                    else:
                        return False
                    return norm(kk) == ktxt and isinstance(base, ast.Attribute) and base.attr in ('_index', 'index')
                own = own_at_key(tgt_i) or own_at_key(tgt)
                if own:
                    ctx.ok(R, f, s, f'value reindexed to `{t[:60]}` (the receiver\'s labels at the stored positions)', key=key)
                else:
                    ctx.bad(R, f, call, f'the value is reindexed to `{t[:60]}`, not to the receiver\'s own labels at `[{ktxt}]`, and then stored by position: cells receive the '
                            'values of other labels (a set-operation result is sorted, the receiver need not be)', key=key)
    ctx.require(n >= 2, 'positional stores of label-aligned values')


# confirmed exceptions, one reason each
REBUILD_NAME_EXCEPTIONS = {
    '_ufunc_set': 'binary set operation: the result derives from two indices and is deliberately unnamed (the equal-operands shortcut returns self, name included)',
}


def index_rebuild_carries_name(ctx: Ctx) -> None:
    R = 'G.index-rebuild-carries-name'
    ctx.rule(R, 'inferred convention, confirmed and frozen (Engler et al.): an index rebuilt from an existing one through that one\'s own class '
             '(`<E>.__class__._from_type_blocks(...)`, `<E>.__class__.from_labels(...)`) is a derivation of E and carries E\'s name — the call passes `name=` with '
             'E\'s name (9 of the 13 sites did; one is a set operation (exception table), the 3 others lost the name of the index in astype / insert_before / insert_after)', floor=9)
    prog = ctx.prog
    n = 0
    for f in prog.all_funcs():
        if isinstance(f.node, ast.Lambda) or f.module.short not in ('index_hierarchy', 'index', 'index_base', 'index_datetime', 'frame', 'series', 'index_level'):
            continue
        for c in walk_local(f.node):
            if not (isinstance(c, ast.Call) and isinstance(c.func, ast.Attribute) and c.func.attr in ('_from_type_blocks', 'from_labels')
                    and isinstance(c.func.value, ast.Attribute) and c.func.value.attr == '__class__'):
                continue
            e = c.func.value.value
            etxt = norm(e)
            n += 1
            key = f'{f.qualname.split(".", 1)[1]}:{etxt}.__class__.{c.func.attr}'
            if f.name in REBUILD_NAME_EXCEPTIONS:
                ctx.ok(R, f, c, f'exception table: {REBUILD_NAME_EXCEPTIONS[f.name]}', key=key)
                continue
            nm = kwarg(c, 'name')
            if nm is None:
                ctx.bad(R, f, c, f'`{etxt}.__class__.{c.func.attr}(...)` rebuilds the index without `name=`: the derived index loses the name of `{etxt}`', key=key)
                continue
            ntxt = norm(nm)
            # the name of E itself, or a `name` parameter of a renaming method
            if ntxt in (f'{etxt}._name', f'{etxt}.name') or (isinstance(nm, ast.Name) and nm.id in f.params):
                ctx.ok(R, f, c, f'name={ntxt}', key=key)
            else:
                ctx.bad(R, f, c, f'`{etxt}.__class__.{c.func.attr}(...)` passes name={ntxt}, which is not the name of `{etxt}`', key=key)
    ctx.require(n >= 9, 'index rebuild sites')
