'''C11 rules: concatenation and overlay keep every input cell once, aligned by label.

All matching is by role (loop targets, what a local is assigned from, which list an append goes to), never by
the identifier of a local; parameters and attribute / callee names are API and are matched by name.'''
from __future__ import annotations

import ast
import copy
import typing as tp

from sfa import roles
from sfa.model import AnalysisError
from sfa.model import FuncInfo
from sfa.model import call_name
from sfa.model import kwarg
from sfa.model import norm
from sfa.model import walk_local
from sfa.report import Ctx
from sfa.rules.frozen import _enclosing_tests


def _normalise(st: ast.stmt) -> None:
    for x in ast.walk(st):
        if isinstance(x, ast.Raise) and isinstance(x.exc, ast.Call):
            x.exc.args = []
    _sort_keywords(st)
    _alpha_comprehensions(st)


def _swap_axes(stmts: tp.Sequence[ast.stmt], mirror: bool = True) -> str:
    '''Normalised text of a statement list (messages stripped, keywords sorted, comprehension variables numbered); with
    mirror=True reflected across the axes: index <-> columns (names, slots, own_* flags), Index <-> cls._COLUMNS_CONSTRUCTOR.'''
    import re
    names = {'index': 'columns', 'columns': 'index', 'own_index': 'own_columns', 'own_columns': 'own_index'}
    attrs = {'_index': '_columns', '_columns': '_index', 'index': 'columns', 'columns': 'index'}
    out = []
    for st in stmts:
        st = copy.deepcopy(st)
        if mirror:
            for x in ast.walk(st):
                if isinstance(x, ast.Name) and x.id in names:
                    x.id = names[x.id]
                elif isinstance(x, ast.Attribute) and x.attr in attrs:
                    x.attr = attrs[x.attr]
                elif isinstance(x, ast.keyword) and x.arg in names:
                    x.arg = names[x.arg]
        _normalise(st)
        t = norm(st)
        if mirror:
            t = t.replace('cls._COLUMNS_CONSTRUCTOR', '\0')
            t = re.sub(r'\bIndex\b', 'cls._COLUMNS_CONSTRUCTOR', t)
            t = t.replace('\0', 'Index')
        out.append(t)
    return '\n'.join(out)


def _sort_keywords(node: ast.AST) -> None:
    for c in ast.walk(node):
        if isinstance(c, ast.Call) and all(k.arg is not None for k in c.keywords):
            c.keywords = sorted(c.keywords, key=lambda k: k.arg or '')


def _alpha_comprehensions(node: ast.AST) -> None:
    '''Comprehension variables are numbered in order of appearance.'''
    n = 0
    for c in ast.walk(node):
        if isinstance(c, (ast.GeneratorExp, ast.ListComp, ast.SetComp, ast.DictComp)):
            for g in c.generators:
                for t in ast.walk(g.target):
                    if isinstance(t, ast.Name) and not t.id.startswith('_c'):
                        old, new = t.id, f'_c{n}'
                        n += 1
                        for x in ast.walk(c):
                            if isinstance(x, ast.Name) and x.id == old:
                                x.id = new


def _kwargs(c: ast.Call) -> tp.Dict[str, str]:
    return {k.arg: norm(k.value) for k in c.keywords if k.arg}


def _stmt_index(body: tp.Sequence[ast.stmt], pred: tp.Callable[[ast.AST], bool]) -> tp.List[int]:
    return [i for i, s in enumerate(body) if any(pred(x) for x in ast.walk(s))]


def frame_concat(ctx: Ctx) -> None:
    R = 'E.concat-sequence'
    ctx.rule(R, 'Frame.from_concat materialises its inputs once and draws both the concatenated labels and the blocks from that one '
             'unmodified sequence, in order; along the other axis every frame is reindexed to the one shared union/intersection index with '
             'the caller\'s fill_value before its blocks are emitted; duplicate labels after concatenation raise ErrorInitFrame; the two '
             'axes are handled as mirror images', floor=10)
    prog = ctx.prog
    f = prog.method('Frame', 'from_concat', inherited=False)
    seq = f.params[1] if len(f.params) > 1 else 'frames'
    # one materialisation, no later mutation
    defs = [a for a in walk_local(f.node) if isinstance(a, ast.Assign) and norm(a.targets[0]) == seq]
    good = len(defs) == 1 and isinstance(defs[0].value, ast.ListComp) and norm(defs[0].value.generators[0].iter) == seq and not defs[0].value.generators[0].ifs
    (ctx.ok if good else ctx.bad)(R, f, defs[0] if defs else f.node, 'inputs materialised once into a list, in input order' if good else
                                  'the input sequence is rebuilt / reordered / filtered', key='materialise')
    muts = [c for c in ast.walk(f.node) if isinstance(c, ast.Call) and isinstance(c.func, ast.Attribute) and norm(c.func.value) == seq
            and c.func.attr in ('sort', 'reverse', 'pop', 'remove', 'insert', 'append', 'extend', 'clear')]
    reorder = [c for c in ast.walk(f.node) if isinstance(c, ast.Call) and call_name(c) in ('sorted', 'reversed', 'set', 'frozenset') and c.args and norm(c.args[0]) == seq]
    (ctx.ok if not muts and not reorder else ctx.bad)(R, f, (muts + reorder)[0] if muts or reorder else f.node, 'the sequence is not mutated or reordered' if not muts and not reorder else
                                                      f'`{norm((muts + reorder)[0])[:50]}` changes the input order: labels and blocks no longer correspond', key='no-reorder')
    # labels: read from every input frame, in order
    for label, fn in (('concat-labels', 'index_many_concat'), ('set-labels', 'index_many_set')):
        calls = [c for c in ast.walk(f.node) if isinstance(c, ast.Call) and call_name(c) == fn]
        ctx.require(len(calls) == 2, f'from_concat calls {fn} once per axis')
        for c in calls:
            gen = c.args[0] if c.args else None
            attr = None
            good = False
            if isinstance(gen, ast.GeneratorExp) and len(gen.generators) == 1:
                g0 = gen.generators[0]
                good = norm(g0.iter) == seq and not g0.ifs and isinstance(g0.target, ast.Name) and isinstance(gen.elt, ast.Attribute) \
                    and isinstance(gen.elt.value, ast.Name) and gen.elt.value.id == g0.target.id and gen.elt.attr in ('_columns', '_index')
                attr = gen.elt.attr if isinstance(gen.elt, ast.Attribute) else None
            (ctx.ok if good else ctx.bad)(R, f, c, f'{fn} over the {attr} of every input frame, in order' if good else f'{fn} does not read the labels of every input frame in order: `{norm(gen)[:60]}`',
                                          key=f'{label}:{attr or "?"}')
    # blocks(): a nested generator per axis that loops over the materialised frames
    block_fns = [nf for nf in f.nested if any(isinstance(n, ast.For) and norm(n.iter) == seq for n in walk_local(nf.node))]
    ctx.require(len(block_fns) == 2, 'from_concat defines a block generator per axis')
    for nf in block_fns:
        loops = [n for n in walk_local(nf.node) if isinstance(n, ast.For) and norm(n.iter) == seq]
        reidx = [c for c in ast.walk(nf.node) if isinstance(c, ast.Call) and isinstance(c.func, ast.Attribute) and c.func.attr == 'reindex']
        axis_kw = 'index' if any(kwarg(c, 'index') is not None for c in reidx) else 'columns'
        key = f'blocks[{axis_kw}]'
        if len(loops) != 1 or not isinstance(loops[0].target, ast.Name):
            ctx.bad(R, nf, nf.node, 'the block generator does not iterate the materialised frames exactly once', key=key)
            continue
        lp = loops[0]
        t = lp.target.id
        first = lp.body[0]
        # if len(t.<axis>) != len(<axis>) or (t.<axis> != <axis>).any():  t = t.reindex(<axis>=<axis>, fill_value=fill_value)
        from sfa.model import canon_text
        want_atoms = {canon_text(f'len({t}.{axis_kw}) != len({axis_kw})'), canon_text(f'({t}.{axis_kw} != {axis_kw}).any()')}
        good = isinstance(first, ast.If) and isinstance(first.test, ast.BoolOp) and isinstance(first.test.op, ast.Or) \
            and {norm(v) for v in first.test.values} == want_atoms and not first.orelse
        if good:
            acts = [s for s in first.body if not isinstance(s, ast.Pass)]
            good = len(acts) == 1 and isinstance(acts[0], ast.Assign) and norm(acts[0].targets[0]) == t and isinstance(acts[0].value, ast.Call) \
                and norm(acts[0].value.func) == f'{t}.reindex' and not acts[0].value.args and _kwargs(acts[0].value) == {axis_kw: axis_kw, 'fill_value': 'fill_value'}
        (ctx.ok if good else ctx.bad)(R, nf, first, f'each frame is aligned to the shared `{axis_kw}` with the caller\'s fill_value before its blocks are used' if good else
                                      f'alignment guard changed: `{norm(first)[:90]}` (expected: a frame whose {axis_kw} differs in length or in any label is reindexed to the shared '
                                      f'{axis_kw} with fill_value)', key=key)
        # blocks taken from the (possibly reindexed) frame of this iteration (or the local carrying the previous iteration's frame)
        carried = {n for n in roles.assigned_from_all(lp, lambda v: isinstance(v, ast.Name) and v.id == t)}
        uses = [x.value.id for x in ast.walk(lp) if isinstance(x, ast.Attribute) and x.attr == '_blocks' and isinstance(x.value, ast.Name)]
        good = bool(uses) and all(u == t or u in carried for u in uses)
        (ctx.ok if good else ctx.bad)(R, nf, lp, 'blocks come from the aligned frame of the same iteration' if good else f'blocks are read from {sorted(set(uses))}', key=key + ':source')
    # duplicate labels raise
    tries = [t for t in walk_local(f.node) if isinstance(t, ast.Try) and any(isinstance(c, ast.Call) and call_name(c) == 'index_many_concat' for s in t.body for c in ast.walk(s))]
    ctx.require(len(tries) == 2, 'from_concat guards both index_many_concat calls')
    for n_try, t in enumerate(tries):
        h = t.handlers[0] if t.handlers else None
        good = h is not None and norm(h.type) == 'ErrorInitIndexNonUnique' and len(h.body) == 1 and isinstance(h.body[0], ast.Raise) and 'ErrorInitFrame' in norm(h.body[0].exc)
        (ctx.ok if good else ctx.bad)(R, f, t, 'non-unique concatenated labels raise ErrorInitFrame' if good else
                                      'non-unique labels after concatenation no longer raise: construction falls through', key=f'dup#{n_try}')
    # result constructor: the computed labels and the ownership flags
    ret = [c for c in walk_local(f.node) if isinstance(c, ast.Call) and norm(c.func) == 'cls' and kwarg(c, 'own_data') is not None]
    flags: tp.Dict[str, tp.Optional[str]] = {}
    if ret:
        for k in ('own_index', 'own_columns'):
            v = kwarg(ret[0], k)
            flags[k] = v.id if isinstance(v, ast.Name) else None
    fnode = roles.canonical(f.node, flags)
    # mirror: the label computations of the two axis branches
    branches = {}
    for n in walk_local(fnode):
        if isinstance(n, ast.If) and norm(n.test) in ('axis == 1', 'axis == 0'):
            branches[norm(n.test)] = [s for s in n.body if not isinstance(s, (ast.FunctionDef, ast.Pass))]
    if len(branches) == 2:
        good = _swap_axes(branches['axis == 1']) == _swap_axes(branches['axis == 0'], mirror=False)
        (ctx.ok if good else ctx.bad)(R, f, branches['axis == 0'][0], 'the axis-0 and axis-1 label computations are mirror images (index <-> columns)' if good else
                                      'the axis-0 and axis-1 branches are no longer mirror images of each other', key='mirror')
    good = False
    if ret:
        data = ret[0].args[0] if ret[0].args else kwarg(ret[0], 'data')
        ex = roles.Expander(f.node)
        srcs = ex.expand(data)
        gen_names = {nf.name for nf in block_fns}
        # TypeBlocks.from_blocks(<the block generator>() | consolidate_blocks(<the block generator>()))
        ok_src = bool(srcs) and all(s.startswith('TypeBlocks.from_blocks(') and any(f'{g}()' in s for g in gen_names) for s in srcs)
        good = norm(kwarg(ret[0], 'index')) == 'index' and norm(kwarg(ret[0], 'columns')) == 'columns' and ok_src
    (ctx.ok if good else ctx.bad)(R, f, ret[0] if ret else f.node, 'result built from the aligned blocks with the computed index and columns' if good else
                                  'the result is not built from the block generator with the computed index and columns', key='result')


def _appends(node: ast.AST) -> tp.List[tp.Tuple[str, ast.expr, ast.Call]]:
    '''(list name, appended expression, call) for every `L.append(e)` under node.'''
    return [(c.func.value.id, c.args[0], c) for c in ast.walk(node) if isinstance(c, ast.Call) and isinstance(c.func, ast.Attribute) and c.func.attr == 'append'
            and isinstance(c.func.value, ast.Name) and len(c.args) == 1]


def _target_names(t: ast.expr) -> tp.List[str]:
    return [x.id for x in ast.walk(t) if isinstance(x, ast.Name)]


def items_and_series(ctx: Ctx) -> None:
    R = 'E.concat-items-pairing'
    ctx.rule(R, 'from_concat_items (Frame and Series) and Series.from_concat collect the values in the very pass that yields the labels '
             '(one append per yielded / recorded label, same iteration), join values with concat_resolved, and hand the frames and the '
             'built hierarchy to the concatenation together', floor=6)
    prog = ctx.prog
    # ---- Frame.from_concat_items
    f = prog.method('Frame', 'from_concat_items', inherited=False)
    items_p = f.params[1] if len(f.params) > 1 else 'items'
    gens = [nf for nf in f.nested if nf.is_generator() and any(isinstance(n, ast.For) and norm(n.iter) == items_p for n in walk_local(nf.node))]
    ctx.require(len(gens) == 1, 'Frame.from_concat_items defines one generator over items')
    g = gens[0]
    lp = [n for n in walk_local(g.node) if isinstance(n, ast.For) and norm(n.iter) == items_p][0]
    tn = _target_names(lp.target)
    problems = []
    lst = None
    if len(tn) != 2:
        problems.append('the loop does not unpack (label, frame)')
    else:
        lab, frm = tn
        apps = [(l, e) for l, e, _c in _appends(lp) if isinstance(e, ast.Name) and e.id == frm]
        if len(apps) != 1:
            problems.append(f'{len(apps)} appends of the item\'s frame per iteration')
        else:
            lst = apps[0][0]
        ys = [y for y in ast.walk(lp) if isinstance(y, ast.Yield)]
        if not ys:
            problems.append('no (label, index) pair is yielded')
        for y in ys:
            v = y.value
            ok = isinstance(v, ast.Tuple) and len(v.elts) == 2 and isinstance(v.elts[0], ast.Name) and v.elts[0].id == lab \
                and isinstance(v.elts[1], ast.Attribute) and isinstance(v.elts[1].value, ast.Name) and v.elts[1].value.id == frm and v.elts[1].attr in ('_index', '_columns')
            if not ok:
                problems.append(f'yields `{norm(v)}`, not (this item\'s label, this item\'s frame\'s axis labels)')
        i_app = _stmt_index(lp.body, lambda x: isinstance(x, ast.Call) and isinstance(x.func, ast.Attribute) and x.func.attr == 'append')
        i_y = _stmt_index(lp.body, lambda x: isinstance(x, ast.Yield))
        if i_app and i_y and not (max(i_app) < min(i_y)):
            problems.append('the frame is appended after its label pair is yielded')
        if any(isinstance(s, (ast.Continue, ast.Break)) for s in ast.walk(lp)):
            problems.append('an item can be skipped on one side only')
    (ctx.bad if problems else ctx.ok)(R, g, g.node, '; '.join(problems) or 'each item appends its frame and yields (label, that frame\'s axis index) in one pass',
                                      key='Frame.from_concat_items:gen')
    ex = roles.Expander(f.node)
    call = [c for c in walk_local(f.node) if isinstance(c, ast.Call) and call_name(c) == 'cls.from_concat']
    problems = []
    if not call:
        problems.append('from_concat is not called')
    else:
        c0 = call[0]
        if not (c0.args and isinstance(c0.args[0], ast.Name) and c0.args[0].id == lst):
            problems.append(f'from_concat receives `{norm(c0.args[0]) if c0.args else "?"}`, not the list the generator fills')
        for k in ('axis', 'union', 'name', 'fill_value', 'consolidate_blocks'):
            if k in f.params and norm(kwarg(c0, k)) != k:
                problems.append(f'{k} is not forwarded unchanged')
        star = [k.value for k in c0.keywords if k.arg is None]
        if len(star) != 1:
            problems.append('the hierarchy is not handed over')
    (ctx.bad if problems else ctx.ok)(R, f, call[0] if call else f.node, '; '.join(problems) or 'from_concat receives the collected frames, every option unchanged, and the hierarchy as index/columns',
                                      key='Frame.from_concat_items:forward')
    # the hierarchy labels the concatenated axis
    problems = []
    n_d = 0
    for a in walk_local(f.node):
        if isinstance(a, ast.Assign) and isinstance(a.value, ast.Call) and call_name(a.value) == 'dict' and len(a.value.keywords) == 1 and a.value.keywords[0].arg in ('index', 'columns'):
            n_d += 1
            kw = a.value.keywords[0]
            tests = {norm(t) for t, pol in _enclosing_tests(f.node, a) if pol}
            want = 'axis == 0' if kw.arg == 'index' else 'axis == 1'
            if want not in tests:
                problems.append(f'{kw.arg}= hierarchy is built outside the `{want}` branch')
            src = ex.expand(kw.value)
            if not all('.from_index_items(' in s and f'{g.name}()' in s for s in src):
                problems.append(f'{kw.arg}= is `{sorted(src)}`, not the hierarchy built from the generator')
    if n_d != 2:
        problems.append('the hierarchy is not passed as index for axis 0 and as columns for axis 1')
    (ctx.bad if problems else ctx.ok)(R, f, f.node, '; '.join(problems) or 'the hierarchy labels the concatenated axis (index for axis 0, columns for axis 1)', key='Frame.from_concat_items:axis')

    # ---- Series.from_concat_items
    s = prog.method('Series', 'from_concat_items', inherited=False)
    items_p = s.params[1] if len(s.params) > 1 else 'items'
    gens = [nf for nf in s.nested if nf.is_generator() and any(isinstance(n, ast.For) and norm(n.iter) == items_p for n in walk_local(nf.node))]
    problems = []
    if len(gens) != 1:
        problems.append('no single generator over items')
    else:
        lp = [n for n in walk_local(gens[0].node) if isinstance(n, ast.For) and norm(n.iter) == items_p][0]
        tn = _target_names(lp.target)
        if len(tn) != 2:
            problems.append('the loop does not unpack (label, series)')
        else:
            lab, ser = tn
            apps = [(l, e) for l, e, _c in _appends(lp)]
            vals = [l for l, e in apps if norm(e) == f'{ser}.values']
            if len(vals) != 1 or len(apps) != 1:
                problems.append('the values of each item are not appended exactly once per iteration')
            ys = [y for y in ast.walk(lp) if isinstance(y, ast.Yield)]
            if len(ys) != 1 or norm(ys[0].value) != f'({lab}, {ser}._index)':
                problems.append('the (label, index) pair of the same item is not yielded once per iteration')
            ex = roles.Expander(s.node)
            res = [c for c in walk_local(s.node) if isinstance(c, ast.Call) and norm(c.func) == 'cls' and c.args]
            if not res:
                problems.append('no result constructor')
            for c in res:
                data = ex.expand(c.args[0])
                idx = ex.expand(kwarg(c, 'index'))
                if vals and not (data <= {f'concat_resolved({vals[0]})', 'EMPTY_TUPLE'} and f'concat_resolved({vals[0]})' in data):
                    problems.append(f'result values are {sorted(data)}, not concat_resolved of the collected arrays')
                if not (idx and all(t == 'None' or ('.from_index_items(' in t and f'{gens[0].name}()' in t) for t in idx) and any(t != 'None' for t in idx)):
                    problems.append(f'result index is {sorted(idx)}, not the hierarchy built from the same pass')
    (ctx.bad if problems else ctx.ok)(R, s, s.node, '; '.join(problems) or 'values and (label, index) pairs collected in one pass; values joined by concat_resolved', key='Series.from_concat_items')

    # ---- Series.from_concat
    c = prog.method('Series', 'from_concat', inherited=False)
    seq = c.params[1] if len(c.params) > 1 else 'containers'
    lps = [n for n in walk_local(c.node) if isinstance(n, ast.For) and norm(n.iter) == seq and isinstance(n.target, ast.Name)]
    problems = []
    vlist = ilist = None
    if len(lps) != 1:
        problems.append('containers are not walked exactly once')
    else:
        t = lps[0].target.id
        apps = _appends(lps[0])
        v = [l for l, e, _ in apps if norm(e) == f'{t}.values']
        i = [l for l, e, _ in apps if norm(e) in (f'{t}.index', f'{t}._index')]
        if len(v) != 1 or len(i) != 1:
            problems.append('values and index of each container are not each appended once in the same iteration')
        else:
            vlist, ilist = v[0], i[0]
        if any(isinstance(x, (ast.Continue, ast.Break)) for x in ast.walk(lps[0])):
            problems.append('a container can be skipped on one side only')
    ex = roles.Expander(c.node)
    joined_idx = [a for a in walk_local(c.node) if isinstance(a, ast.Assign) and isinstance(a.value, ast.Call) and call_name(a.value) == 'index_many_concat']
    if not (joined_idx and all(a.value.args and isinstance(a.value.args[0], ast.Name) and a.value.args[0].id == ilist for a in joined_idx)):
        problems.append('the result index is not index_many_concat of the collected indices')
    (ctx.bad if problems else ctx.ok)(R, c, c.node, '; '.join(problems) or 'values and indices of each container are collected in the same iteration and joined in that order', key='Series.from_concat')
    rets = [x for x in walk_local(c.node) if isinstance(x, ast.Return) and isinstance(x.value, ast.Call) and norm(x.value.func) == 'cls' and x.value.args
            and vlist is not None and ex.expand(x.value.args[0]) == {f'concat_resolved({vlist})'}]
    good = bool(rets) and all(norm(kwarg(r.value, 'index')) == 'index' for r in rets) and bool(joined_idx) and all(norm(a.targets[0]) == 'index' for a in joined_idx)
    (ctx.ok if good else ctx.bad)(R, c, rets[0] if rets else c.node, 'result pairs the joined values with the joined index' if good else
                                  'the result does not pair concat_resolved(values) with the joined index', key='Series.from_concat:result')

    # ---- vstack
    v = prog.func('type_blocks.TypeBlocks.vstack_blocks_to_blocks')
    seq = v.params[0] if v.params else 'type_blocks'
    ys = [y for y in walk_local(v.node) if isinstance(y, ast.Yield)]
    good = len(ys) >= 2 and all(isinstance(y.value, ast.Call) and call_name(y.value) == 'concat_resolved' and len(y.value.args) == 1 and isinstance(y.value.args[0], ast.Name) for y in ys)
    (ctx.ok if good else ctx.bad)(R, v, v.node, 'both vstack strategies join parts with concat_resolved' if good else 'vstack joins parts without the resolver', key='vstack:concat_resolved')
    ex = roles.Expander(v.node)
    problems = []
    for y in ys:
        if not (isinstance(y.value, ast.Call) and y.value.args and isinstance(y.value.args[0], ast.Name)):
            continue
        parts = y.value.args[0].id
        encl = [lp for lp in walk_local(v.node) if isinstance(lp, ast.For) and any(x is y for x in ast.walk(lp))]
        inner = encl[-1] if encl else None
        pdefs = [a.value for a in (ast.walk(inner) if inner is not None else []) if isinstance(a, ast.Assign) and norm(a.targets[0]) == parts]
        if len(pdefs) != 1:
            problems.append('the parts list is not rebuilt once per output block')
            continue
        d = pdefs[0]
        if isinstance(d, ast.ListComp):
            g0 = d.generators[0]
            direct = len(d.generators) == 1 and norm(g0.iter) == seq and not g0.ifs and any(isinstance(x, ast.Name) and x.id in _target_names(g0.target) for x in ast.walk(d.elt))
            # [... X[i] ... for i in range(len(X))], X the sequence or its per-element consolidation: the comprehension spelling of the indexed loop
            indexed = False
            it = g0.iter
            if len(d.generators) == 1 and not g0.ifs and isinstance(it, ast.Call) and call_name(it) == 'range' and len(it.args) == 1 and isinstance(it.args[0], ast.Call) \
                    and call_name(it.args[0]) == 'len' and it.args[0].args and isinstance(g0.target, ast.Name):
                x = it.args[0].args[0]
                srcs = ex.expand(x)
                from_seq = all(t == seq or (t.startswith('[') and t.endswith(f' in {seq}]')) for t in srcs)
                indexed = from_seq and f'{norm(x)}[{g0.target.id}]' in norm(d.elt)
            if not (direct or indexed):
                problems.append('parts are not taken from every TypeBlocks in sequence order')
        else:
            # [] + append inside `for i in range(len(X))` of X[i], X = the sequence or its per-element consolidation
            loops = [lp for lp in ast.walk(inner) if isinstance(lp, ast.For) and lp is not inner and any(l == parts for l, _e, _c in _appends(lp))]
            ok = False
            for lp in loops:
                it = lp.iter
                if isinstance(it, ast.Call) and call_name(it) == 'range' and len(it.args) == 1 and isinstance(it.args[0], ast.Call) and call_name(it.args[0]) == 'len' \
                        and it.args[0].args and isinstance(lp.target, ast.Name):
                    x = it.args[0].args[0]
                    srcs = ex.expand(x)
                    from_seq = all(t == seq or (t.startswith('[') and t.endswith(f' in {seq}]')) for t in srcs)
                    want = f'{norm(x)}[{lp.target.id}]'
                    inl = roles.Inliner(lp)
                    indexed = all(want in inl.text(e) for l, e, _c in _appends(lp) if l == parts)
                    ok = from_seq and indexed and not any(isinstance(s, (ast.Continue, ast.Break)) for s in ast.walk(lp))
            if not ok:
                problems.append('parts are not taken from every TypeBlocks in sequence order')
    (ctx.bad if problems else ctx.ok)(R, v, v.node, '; '.join(sorted(set(problems))) or 'parts are taken from every TypeBlocks in sequence order', key='vstack:order')


def overlay(ctx: Ctx) -> None:
    R = 'I.overlay-first-non-missing'
    ctx.rule(R, 'from_overlay walks the containers in input order, aligns each to the one shared index (and columns), and changes the '
             'accumulated result only through fillna / fillna_by_values — missing cells are filled, present cells are never assigned', floor=6)
    prog = ctx.prog
    for cname, fillers in (('Frame', ('fillna_by_values',)), ('Series', ('fillna',))):
        f = prog.method(cname, 'from_overlay', inherited=False)
        seq = f.params[1] if len(f.params) > 1 else 'containers'
        walker = roles.assigned_from(f.node, lambda v: isinstance(v, ast.Call) and call_name(v) == 'iter' and v.args and norm(v.args[0]) == seq)
        firsts = [c for c in walk_local(f.node) if isinstance(c, ast.Call) and call_name(c) == 'next' and c.args and norm(c.args[0]) == walker]
        loops = [n for n in walk_local(f.node) if isinstance(n, ast.For) and norm(n.iter) == walker]
        other_walks = [n for n in walk_local(f.node) if isinstance(n, ast.For) and norm(n.iter) == seq]
        good = walker is not None and len(firsts) == 1 and len(loops) == 1 and not other_walks and not any(any(x is firsts[0] for x in ast.walk(lp)) for lp in loops)
        (ctx.ok if good else ctx.bad)(R, f, loops[0] if loops else f.node, 'first container, then the rest, in input order' if good else 'containers are not walked once in input order', key=f'{cname}:order')
        # the accumulated result: what the function returns
        rets = [r for r in walk_local(f.node) if isinstance(r, ast.Return) and isinstance(r.value, ast.Name)]
        acc = rets[-1].value.id if rets else None
        in_loop = [a for a in (ast.walk(loops[0]) if loops else []) if isinstance(a, ast.Assign) and acc is not None and norm(a.targets[0]) == acc]

        def fills(v: ast.expr) -> bool:
            return any(isinstance(c, ast.Call) and isinstance(c.func, ast.Attribute) and c.func.attr in fillers and any(isinstance(x, ast.Name) and x.id == acc for x in ast.walk(c.func.value))
                       for c in ast.walk(v))
        good = bool(in_loop) and all(fills(a.value) for a in in_loop)
        (ctx.ok if good else ctx.bad)(R, f, in_loop[0] if in_loop else f.node, f'the accumulated result changes only through {"/".join(fillers)} of itself' if good else
                                      f'inside the loop the accumulated result is rebuilt as `{norm(in_loop[0].value)[:60] if in_loop else "?"}`: present cells can be overwritten', key=f'{cname}:fill-only')
        idx = [c for c in ast.walk(f.node) if isinstance(c, ast.Call) and call_name(c) == 'index_many_set']
        good = bool(idx) and all(norm(kwarg(c, 'union')) == 'union' for c in idx)
        (ctx.ok if good else ctx.bad)(R, f, idx[0] if idx else f.node, 'shared axis = union/intersection of all containers, per the caller\'s flag', key=f'{cname}:shared-index')
    f = prog.method('Frame', 'from_overlay', inherited=False)
    ex = roles.Expander(f.node, limit=400)
    problems = []
    inner = [lp for lp in walk_local(f.node) if isinstance(lp, ast.For) and norm(lp.iter).endswith('.dtypes.items()')]
    if len(inner) != 1:
        problems.append('fill arrays are not built per column of the accumulated result')
    else:
        lp = inner[0]
        col = _target_names(lp.target)[0] if _target_names(lp.target) else None
        apps = [(l, e) for l, e, _c in _appends(lp)]
        top = [s for s in lp.body if isinstance(s, ast.Expr) and isinstance(s.value, ast.Call) and isinstance(s.value.func, ast.Attribute) and s.value.func.attr == 'append']
        if len(apps) != 1 or len(top) != 1:
            problems.append('not exactly one fill array is appended per column, unconditionally')
        else:
            srcs = ex.expand(apps[0][1], depth=2)       # the array's definitions, with the column Series spelled out
            reindexed = [t for t in srcs if '.reindex(index' in t and f'[{col}]' in t]
            others = [t for t in srcs if t not in reindexed]
            if not reindexed:
                problems.append('the fill array of a column the container has is not that column reindexed to the shared index')
            # a cache of constant fill columns: every array stored into it is np.full(len(index), ...)
            caches = set()
            for a in ast.walk(f.node):
                if isinstance(a, ast.Assign) and isinstance(a.targets[0], ast.Subscript) and isinstance(a.targets[0].value, ast.Name):
                    caches.add(a.targets[0].value.id)
            sized_caches = {c for c in caches if all(any('len(index)' in t for t in ex.expand(a.value, depth=1)) for a in ast.walk(f.node)
                                                     if isinstance(a, ast.Assign) and isinstance(a.targets[0], ast.Subscript) and norm(a.targets[0].value) == c)}
            bad_others = [t for t in others if 'len(index)' not in t and not any(t.startswith(c + '[') for c in sized_caches)]
            if bad_others:
                problems.append(f'a fill array not sized by the shared index: {bad_others[:1]}')
    (ctx.bad if problems else ctx.ok)(R, f, f.node, '; '.join(problems) or 'fill arrays are built per column of the result, aligned to the shared index', key='Frame:fill-arrays')
    brks = [b for b in ast.walk(f.node) if isinstance(b, ast.Break)]
    ok_brk = all(any('.isna()' in norm(t) and pol for t, pol in _enclosing_tests(f.node, b)) for b in brks)
    (ctx.ok if ok_brk else ctx.unk)(R, f, f.node, 'stops early only when nothing is missing any more', key='Frame:early-exit')
