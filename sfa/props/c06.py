'''C06 Index set algebra and label alignment of binary operators.'''
from sfa.report import Ctx
from sfa.rules import resolve
from sfa.rules import symm
from sfa.rules import alignrules
from sfa.rules import table

LEVEL_TEXT = (
    'Static decision of structural clauses of C06. (a) Alignment discipline, decided per path on a path-sensitive symbolic store of '
    'Series/Frame._ufunc_binary_operator: wherever `other` is a labelled container not known to have equal labels, both operands are '
    'reindexed to one and the same union (self\'s labels united with other\'s) on each aligned axis, that union labels the result on that '
    'axis, the untouched axis keeps self\'s labels, and the operator gets self\'s data as left and other\'s as right operand. '
    '(b) The operator-dunder table of ContainerOperand (29 methods: each passes the like-named operator function, reflected forms swap '
    'operands and are named r<op>) and the operator names special-cased by apply_binary_operator are names that table produces. '
    '(c) Every early return of _ufunc_set_1d/_2d that hands back an operand or an empty array does so only under the conditions set '
    'algebra allows and, for operands, only under assume_unique; the 1-D and 2-D functions take the same shortcuts; assume_unique=True '
    'reaches the set functions only with operands that are index values (or a computed uniqueness flag / pass-through). '
    '(d) No axis crossing: wherever own axis labels are related (equals / union / from_correspondence / comparisons) to an `index` / `columns` parameter it is the parameter of the same axis — the alignment shortcuts of reindex and concatenation. Reindex correspondence: per path, IndexCorrespondence.iloc_src / iloc_dst are read only where has_common / is_subset holds (they are None otherwise, which pairs rows by position). The equality test that lets operands with equal indices skip alignment is itself checked (family H: symmetric tests, option forwarding, two-sided memo). Fill arrays: util.full_for_fill (behind reindex, shift and the aligned axis of concatenation) types its array by resolving the target dtype with the dtype of the fill element on every path. Not decided: NumPy set-operation results, NaN labels, the values of op(a, b), IndexCorrespondence itself.')

CLAIM = dict(
    text=LEVEL_TEXT,
    technique='path-sensitive symbolic-store dataflow (per-path operand/label provenance) + branch-fact dominance on shortcut returns + operator-table comparison',
    design_ref='DESIGN.md section 2.G and section 3 C06',
)


def run(ctx: Ctx) -> None:
    table.t1_operators(ctx)
    alignrules.binary_alignment(ctx)
    alignrules.set_shortcuts(ctx)
    alignrules.assume_unique_provenance(ctx)
    alignrules.axis_crossing(ctx)
    alignrules.correspondence_guards(ctx)
    symm.h_equals(ctx)
    resolve.f1_full_for_fill(ctx)
