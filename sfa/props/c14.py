'''C14 Missing-value operations act per cell exactly as specified.'''
from sfa.report import Ctx
from sfa.rules import forwardrules
from sfa.rules import flowmisc
from sfa.rules import narules
from sfa.rules import table
from sfa.rules import updaterules

LEVEL_TEXT = (
    'Static decision of structural clauses of C14: (a) the dtype-kind constant sets and the dispatch of isna_array (inexact -> isnan, NaT kinds -> '
    'isnat, other non-object -> all False, object -> (x != x) | (x == None)); (b) "never alters a non-missing cell": in each of the 7 fill routines every '
    'store into the result array is addressed by an expression data-dependent on the isna_array mask of the data being filled (taint analysis); '
    '(c) fillna / fillna_by_values pass the per-block isna masks of self, isna / notna are the (negated) isna_array per block, dropna keep-locations '
    'are the negated condition over the unified isna mask and Frame / Series dropna select labels and data with those same keys; (d) edge fills: per path, '
    'the leading / forward-bridging slice is slice(0, T[0]) and the trailing / backward one slice(T[-1] + 1, end) with T the positions of present cells, '
    'chosen by the routine\'s own direction flag; (e) contradiction rule: within one loop all paths update the same carried counter cell the same way '
    '(accumulate or define); (f) every fill / isna / notna interface of Series and Frame returns a container labelled by exactly the original index (and columns) and, for fills, the original name. Option forwarding: in every missing-value interface each call to a resolved callee that accepts a parameter named like one of the function\'s own parameters passes it on (confirmed exceptions listed in sfa/rules/forwardrules.py). Finite case analysis over the eleven dtype kinds: in isna_array, _ufunc_logical_skipna and the arg-extreme helpers no return is reachable for a kind that can hold a missing value (f, c, M, m, O) before a missing-value predicate was consulted. Configured generic check: no np attribute removed from the pinned NumPy 2.x is referenced in core (np.in1d made isin / label-aligned fillna raise). Sibling defaults: a parameter taken by the same-named method of several container classes has the same default in each (confirmed exceptions listed in sfa/rules/forwardrules.py). Aligned positional stores: a labelled value stored into selected positions is reindexed to the own labels of the receiver at exactly those positions (same key for alignment and store). Derived flags: a local recording a fact about an array (any / all / sum / len) is not tested after that array was changed in place (a block is passed through untouched exactly when the narrowed mask is empty). Carried state: in the block-walking fill routines the state carried from block to block (exit mask, bridging values / counts) is assigned on every path to the next iteration, `continue` included. Not decided: binary_transition / slices_from_targets arithmetic, limit counting across blocks beyond (e), count values.')

CLAIM = dict(
    text=LEVEL_TEXT,
    technique='taint dataflow from the isna mask to every store address + per-path symbolic-store check of edge slices + constant-table / dispatch extraction + update-kind contradiction rule',
    design_ref='DESIGN.md section 2.G and section 3 C14',
)


def run(ctx: Ctx) -> None:
    table.t3_kinds(ctx)
    narules.mask_derived_stores(ctx)
    narules.fill_targets(ctx)
    narules.sided_slices(ctx)
    flowmisc.accumulator_consistency(ctx)
    updaterules.label_passthrough(ctx, only=('fillna', 'fillna_leading', 'fillna_trailing', 'fillna_forward', 'fillna_backward', 'isna', 'notna'), rule_suffix='na')
    forwardrules.forwarding(ctx, modules=None, prefixes=('fillna', 'dropna', 'isna', 'notna', '_fillna', 'count', 'fillfalsy', 'dropfalsy'), suffix='na', floor=36, what='missing-value interface')
    narules.nullable_kinds(ctx)
    updaterules.aligned_store_key(ctx)
    flowmisc.numpy_removed_api(ctx)
    forwardrules.sibling_defaults(ctx, prefixes=('fillna', 'dropna', 'isna', 'notna', '_fillna', 'count', 'fillfalsy', 'dropfalsy'), suffix='na', floor=6)
    flowmisc.stale_derived_flag(ctx)
    narules.carried_state_every_iteration(ctx)
