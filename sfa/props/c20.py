'''C20 Reshaping and relational operations follow their relational definitions.'''
from sfa.report import Ctx
from sfa.rules import table

LEVEL_TEXT = (
    'Static decision of a structural clause of C20: join_inner/left/right/outer pass the like-named Join member and forward every own parameter by name; _join handles every member of Join and raises otherwise; its LEFT and RIGHT index branches are mirror images (left<->right, PairLeft<->PairRight, tuple order). Not decided: pivot, pivot_stack/unstack and join matching, which are relational computations over values.')

CLAIM = dict(
    text=LEVEL_TEXT,
    technique='dispatch-table exhaustiveness + mirrored-sibling structural comparison',
    design_ref='DESIGN.md section 2.G and section 3 C20',
)


def run(ctx: Ctx) -> None:
    table.t8_join(ctx)
