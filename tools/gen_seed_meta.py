#!/usr/bin/env python3
'''Write seeded/<id>/meta.json from the table below and the confirm.json produced by tools/confirm_seed.py.'''
import json
import os

HERE = os.path.dirname(os.path.dirname(os.path.abspath(__file__)))

TABLE = {
    'C01-a1': ('C01', 'Index.__init__ shares the donor AutoMap on the datetime-typed arm without requiring labels.STATIC',
               'a static datetime index (IndexDate, ...) built from its grow-only counterpart of the same unit, the source then grown and a new label probed on the static index'),
    'C02-a1': ('C02', 'the labels.STATIC half of the map-sharing guard in Index.__init__ is dropped',
               'a static Index built from an IndexGO that is appended to afterwards; membership / loc_to_iloc of the static index then answer for labels it does not hold'),
    'C03-a1': ('C03', '`continue` before `t_start = t_end` in TypeBlocks._assign_from_bloc_by_coordinate',
               'bloc assignment on a Frame of at least three blocks where a middle block has no selected cell'),
    'C04-a1': ('C04', 'TypeBlocks.extract_bloc drops the running block offset from 2-D coordinates',
               'Boolean-Frame (bloc) selection that selects cells of a 2-D block which is not the first block'),
    'C05-a1': ('C05', 'IndexHierarchy.__init__ tests `levels._blocks is not None` instead of `not levels._recache` before adopting the cached table',
               'an IndexHierarchy constructed from an IndexHierarchyGO that was read once and then grown'),
    'C06-a1': ('C06', 'Frame.reindex tests self._index.equals(columns) for the columns shortcut',
               'a square Frame whose row index equals the (sorted union of the) target columns while its own columns are those labels in another order'),
    'C07-a1': ('C07', 'prepare_iter_for_array sets has_big_int only once a float has been seen',
               'an iterable with an int above 2**53 before the first float'),
    'C08-a1': ('C08', 'assignment dtype in TypeBlocks._assign_from_iloc_by_blocks resolved from assigned_blocks[0] only',
               'assign of a multi-block (mixed dtype) value over columns that sit in one 2-D block, with a row key'),
    'C09-a1': ('C09', 'IndexHierarchy.__init__ keeps the IndexLevelGO tree of a grow-only donor',
               'a static IndexHierarchy derived from an IndexHierarchyGO which is then extended'),
    'C10-a1': ('C10', 'IndexLevel.equals memoises on the id of self\'s sub-index only',
               'receiver built with from_product (shared inner Index), other built from labels and differing in one label not under the last outer label'),
    'C11-a1': ('C11', 'Frame.from_concat skips the label comparison for a derived intersection of equal width',
               'axis=0, union=False, no columns= given, an input whose columns are the intersection in a non-sorted order'),
    'C12-a1': ('C12', 'sort_index_for_order returns positions unchanged on an "already sorted" fast path that ignores key',
               'sort_index / sort_columns with a key function on labels that are already in order'),
    'C13-a1': ('C13', 'axis_window_items no longer floors the stop bound of the window slice',
               'start_shift < -size together with a positive label_shift and window_sized=False'),
    'C14-a1': ('C14', 'TypeBlocks._fillna_directional_axis_1 overwrites the bridging count instead of accumulating it',
               'fillna_forward/backward with axis=1 and limit >= 3 over a missing run spanning three or more blocks'),
    'C15-a1': ('C15', 'TypeBlocks.ufunc_axis_skipna casts to the output dtype only 2-D blocks',
               'axis-0 reduction of a multi-block Frame with a 1-D block whose dtype is narrower than the resolved dtype and values large / precise enough to matter'),
    'C16-a1': ('C16', 'Frame.from_delimited no longer forwards store_filter to _structured_array_to_d_ia_cl',
               'from_csv / from_tsv with a non-default store_filter and cells the default filter would decode (empty strings, "None", "inf")'),
    'C17-a1': ('C17', 'Bus._update_series_cache_iloc derives the labels for the chunked reader from the live self._loaded mask',
               'max_persist >= 2, a slice selection over a Bus in which a Frame inside the slice is already loaded'),
    'C18-a1': ('C18', '_StoreZip.read_many builds the worker payload config once from config_map.default',
               'a zip store read with read_max_workers set and a StoreConfigMap whose per-label config differs from the default'),
    'C19-a1': ('C19', 'Quilt._extract_array joins parts with np.concatenate instead of concat_resolved',
               'iter_window_array(_items) whose window crosses two Bus Frames of different dtype'),
    'C20-a1': ('C20', 'the reindex-to-index_inner guard of Frame.pivot (no columns_fields branch) is removed',
               'pivot with two or more index_fields of different dtypes, no columns_fields, first-seen order differing from sorted order'),
    'C01-a2': ('C01', 'Series.__init__ builds the values of a 0-d array input with np.broadcast_to (a stride-0 view of the caller\'s array) instead of np.repeat',
               'a Series built directly from a writable 0-d ndarray that the caller keeps and later writes to in place'),
    'C02-a2': ('C02', 'the sequential-predecessor test is removed from the outer-depth branch of IndexHierarchy._from_type_blocks',
               'a hierarchy of depth 3 or more derived from a Frame / iloc selection in which an outer label recurs non-adjacently'),
    'C03-a2': ('C03', 'Frame.rename hands self._blocks over without copying, with own_data=True',
               'a FrameGO that is renamed, after which one of the two frames is grown in place and the other inspected'),
    'C04-a2': ('C04', 'Index._loc_to_iloc refreshes the label cache only for multi-element keys',
               'a grown datetime IndexGO (appends not yet recached) selected with a scalar key coarser than its labels'),
    'C05-a2': ('C05', 'IndexLevelGO.append resets the cached _length on the root and the grown node only, not on every node of the descent',
               'an IndexHierarchyGO of depth 3 or more whose table was rebuilt once, then an append of a new innermost label under an existing (outer, middle) pair'),
    'C06-a2': ('C06', 'the equal-operands shortcut of _ufunc_set_1d additionally requires equal dtypes',
               'two indices with identical labels in identical unsorted order but different label dtypes (e.g. <U1 vs <U4, int64 vs int32)'),
    'C07-a2': ('C07', 'SeriesAssign.__call__ reads value.dtype before the value Series is reindexed with the fill value',
               'assign with a Series value that misses a selected label and a fill value that does not fit the value\'s dtype'),
    'C08-a2': ('C08', 'FrameAssignILoc.__call__ reindexes a Series value with self.key instead of the ascending normalised key',
               'assign.loc on a single row and several columns given in non-ascending order, with a Series value'),
    'C09-a2': ('C09', 'the row-count check is removed from the ndarray branch of FrameGO.__setitem__',
               'a mis-sized 1-D ndarray assigned as a new column, the error caught, and the same FrameGO used again'),
    'C10-a2': ('C10', 'FrameHE.__hash__ hashes index / columns values after .tolist()',
               'two equal FrameHE whose date or timedelta labels have different units, used as set members or dict keys'),
    'C11-a2': ('C11', 'Frame.from_overlay skips the per-column reindex for containers whose index has the same length as the aligned index',
               'a second or later frame with the same number of row labels as the aligned index but in a different order'),
    'C12-a2': ('C12', 'Frame.sort_values (axis=1, no key function) consolidates the key columns into one array before lexsort',
               'two or more key columns of different dtypes with values that the common dtype changes (integers above 2**53 next to floats)'),
    'C13-a2': ('C13', 'Frame._axis_group_sort_items orders the columns (axis 1) with a bare np.argsort over the consolidated key row instead of sort_values',
               'group iteration over columns by a row label on the sort fast path, with ties among the key values (the default quicksort does not keep their order)'),
    'C14-a2': ('C14', 'Frame.count (skipna) calls isna_array only for object / float / complex vectors and counts every other vector by its length',
               'a datetime64 or timedelta64 column containing NaT (axis 0), or an all-datetime Frame (axis 1)'),
    'C15-a2': ('C15', '_argminmax_2d returns the plain arg-extreme for every dtype kind that is not float / complex / object, forgetting NaT',
               'iloc_min / iloc_max / loc_min / loc_max with skipna=False on a Frame of datetime64 or timedelta64 values containing NaT'),
    'C16-a2': ('C16', 'Frame._to_str_records pads the header rows with one blank cell too few when writing the columns name above a hierarchical index',
               'export with include_index_name=False, include_columns_name=True of a Frame whose index is an IndexHierarchy'),
    'C17-a2': ('C17', 'Store._mtime_coherent raises only when the file\'s mtime is newer than the one recorded',
               'the file behind an open Bus replaced by one with an older mtime, then an unloaded label read'),
    'C18-a2': ('C18', 'Batch._apply_pool_except catches Exception instead of the exception class passed by the caller',
               'apply_except / apply_items_except with max_workers set and a task raising another exception type'),
    'C19-a2': ('C19', 'Batch._ufunc_axis_skipna forwards ufunc=ufunc_skipna',
               'a Batch reduction called with skipna=False on Frames that contain NaN'),
    'C20-a2': ('C20', 'Frame.relabel_shift_out reads the labels of the moved levels in ascending level order instead of the caller\'s depth_level order',
               'relabel_shift_out on an IndexHierarchy axis with a depth_level list that is not ascending'),
    'C01-a3': ('C01', 'PositionsAllocator.get grows the shared positions array with np.concatenate and stores the writable result in the class slot',
               'an auto-integer index (or any container with default labels) longer than every one made before in the process; its positions array is then writable and shared'),
    'C02-a3': ('C02', "IndexHierarchy.__init__ adopts the donor's cached table when `levels._blocks is not None` instead of `not levels._recache`",
               'a hierarchy derived (copy constructor, rename, to static) from an IndexHierarchyGO that grew after its table had been realised'),
    'C03-a3': ('C03', 'TypeBlocks._slice_blocks detects a single selected row of a slice key by `stop - start == 1`, ignoring the step',
               'a row slice with a step other than 1 that selects exactly one row, on a Frame holding a multi-column 2-D block'),
    'C04-a3': ('C04', "Frame._extract sets own_columns = True for the grow-only class too (rows-only selection shares the source's IndexGO columns)",
               'a rows-only selection from a FrameGO followed by growth of the selection or of the source'),
    'C05-a3': ('C05', "the HLoc worklist of IndexLevel.loc_to_iloc pushes children with the node's own offset instead of the accumulated offset",
               'an HLoc selection on a hierarchy of depth >= 3 below an outer label that is not the first'),
    'C06-a3': ('C06', 'IndexLevel.equals keys its memo of compared index pairs on the left operand twice',
               'two hierarchies where one Index object is shared by several left sub-levels whose right-hand partners differ'),
    'C07-a3': ('C07', 'TypeBlocks.append compares dtype.kind (not dtype) to decide whether the cached row dtype must widen',
               'a FrameGO grown with a wider block of the same kind (<U1 then <U4, int8 then int64) followed by a row-wise read'),
    'C08-a3': ('C08', "IndexHierarchy.__init__ adopts the donor's table when `_blocks is not None` (reached through rename / relabel, which rely on the constructor)",
               'rename of an IndexHierarchyGO (or of FrameGO hierarchical columns) that grew after its table had been realised'),
    'C09-a3': ('C09', 'IndexLevelGO.append checks that the matched component is the last label at the outermost depth only',
               'a depth >= 3 IndexHierarchyGO and an appended key under the last outer label but a non-last inner label'),
    'C10-a3': ('C10', 'TypeBlocks.equals switches skipna off when the row dtype kind is not float / complex / object',
               'two Frames equal except that both hold NaT at the same position of datetime64 / timedelta64 columns'),
    'C11-a3': ('C11', "concat_resolved resolves each input's dtype against the first input's dtype instead of the dtype carried so far",
               'three or more inputs of which one in the middle has a strictly wider dtype than the first and the last'),
    'C12-a3': ('C12', 'the descending branch of Series.sort_values calls np.argsort without kind=',
               'a descending sort with tied keys (more than 16 elements for most dtypes)'),
    'C13-a3': ('C13', 'Series._axis_group_labels no longer forwards depth_level to _axis_group_labels_items (and its default becomes None)',
               'iter_group_labels(depth_level != 0) iterated directly on a Series with a hierarchical index'),
    'C14-a3': ('C14', 'Series.fillna(<Series>) reindexes the filler to the sorted common labels and then stores by position',
               'a target whose index is not label-sorted and at least two missing cells covered by the filler'),
    'C15-a3': ('C15', 'Frame._ufunc_shape_skipna uses the NaN-aware ufunc only when the consolidated values are float / complex',
               'cumsum / cumprod with skipna=True on a bool + float (object values) Frame containing NaN'),
    'C16-a3': ('C16', 'TypeBlocks.append compares dtype.kind to decide whether the cached row dtype must widen',
               'a FrameGO grown with a wider block of the same kind, exported row-wise (to_pairs(1), iter_tuple, values)'),
    'C17-a3': ('C17', 'the multi-process branch of _StoreZip.read_many builds one read config from config_map.default',
               'a zip csv/tsv/parquet store read with read_max_workers set through a StoreConfigMap whose per-label configs differ from the default'),
    'C18-a3': ('C18', 'the pooled branch of Batch.apply_items yields frame.name where the in-process branch passes the Batch label',
               'a pooled Batch (max_workers set) whose labels differ from the names of its Frames, and a function that uses its label'),
    'C19-a3': ('C19', 'Quilt._extract returns the only Frame of a one-Frame Bus before looking at retain_labels',
               'a Quilt over a Bus of exactly one Frame with retain_labels=True and a full export'),
    'C20-a3': ('C20', 'pivot_index_map keeps the first dtype seen for a group (setdefault) instead of resolving it with the later ones',
               'pivot_stack of hierarchical columns where one remaining group mixes dtypes, the narrower first'),
}


def main() -> None:
    for sid, (prop, change, needs) in TABLE.items():
        d = os.path.join(HERE, 'seeded', sid)
        if not os.path.isdir(d):
            continue
        conf = {}
        cp = os.path.join(d, 'confirm.json')
        if os.path.exists(cp):
            with open(cp) as f:
                conf = json.load(f)
        suite = conf.get('suite') or {}
        rp = os.path.join(d, 'reconfirm.json')
        reconf = json.load(open(rp)) if os.path.exists(rp) else {}
        meta = {
            'id': sid,
            'breaks_property': prop,
            'change': change,
            'needs_to_manifest': needs,
            'produced_by': 'fresh sub-agent given only the property text and its own scratch worktree of /repo',
            'what_was_run': {
                'tool': 'tools/confirm_seed.py <dir> --jobs N (scratch worktree of /repo HEAD under a temporary directory, removed afterwards)',
                'patch_applies_and_imports': bool(conf.get('patch_applies')) and bool(conf.get('imports')),
                'demo_on_clean_tree_exit': conf.get('demo_clean_rc'),
                'demo_on_changed_tree_exit': conf.get('demo_patched_rc'),
                'pinned_suite_with_change': ({'stable_tests_missing_after_rerun': [m for m, _w in suite.get('missing_confirmed', [])],
                                              'passed_total': suite.get('passed')} if suite else 'not run'),
                'checks_reporting_a_violation': {p: sorted({x.split(' ')[1] for x in v if x.startswith('violated:')}) for p, v in ((reconf or conf).get('checks_fired') or {}).items()},
                'checks_re_run_against_final_tree': bool(reconf) and bool(reconf.get('confirmed')),
            },
            'confirmed': conf.get('confirmed'),
        }
        with open(os.path.join(d, 'meta.json'), 'w') as f:
            json.dump(meta, f, indent=1)
        print(sid, 'confirmed' if conf.get('confirmed') else 'UNCONFIRMED', 'suite' if suite else 'no-suite')


if __name__ == '__main__':
    main()
