'''Catalogue of seeded variants for the self-test (see sfa/selftest.py).

kind 'B' must be reported (rule prefix `expect_rule`, function containing `expect_func`);
kind 'N' is a behaviour-preserving edit and must stay silent.
`within` is Class.method / function / Class / <module> inside `file`; `find` is replaced once
(occurrence `nth`, default the first) by `replace` inside that span only.
'''

V = []


def B(id, props, file, within, find, replace, expect_rule, expect_func=None, nth=0, **kw):
    V.append(dict(id=id, kind='B', props=props, file=file, within=within, find=find, replace=replace,
                  expect_rule=expect_rule, expect_func=expect_func, nth=nth, **kw))


def N(id, props, file, within, find, replace, nth=0, **kw):
    V.append(dict(id=id, kind='N', props=props, file=file, within=within, find=find, replace=replace, nth=nth, **kw))


# ---------------------------------------------------------------------------------- H (C10)
B('H1-mask-self-self', ['C10'], 'type_blocks.py', 'TypeBlocks.equals',
  'isna_both = isna_self & isna_other', 'isna_both = isna_self & isna_self', 'H1', 'TypeBlocks.equals')
B('H1-mask-other-other-series', ['C10'], 'series.py', 'Series.equals',
  'isna_array(self.values, include_none=False) &', 'isna_array(other.values, include_none=False) &', 'H1', 'Series.equals')
B('H1-mask-ungated', ['C10'], 'index.py', 'Index.equals',
  'if skipna:\n            isna_both', 'if True:\n            isna_both', 'H1', 'Index.equals')
B('H2-name-self-self', ['C10'], 'frame.py', 'Frame.equals',
  'self._name != other._name', 'self._name != self._name', 'H2', 'Frame.equals')
B('H2-shape-other-other', ['C10'], 'type_blocks.py', 'TypeBlocks.equals',
  'self._shape != other._shape', 'other._shape != other._shape', 'H2', 'TypeBlocks.equals')
B('H2-name-ungated', ['C10'], 'index_hierarchy.py', 'IndexHierarchy.equals',
  'if compare_name and self.name != other.name:', 'if self.name != other.name:', 'H2.option-gating', 'IndexHierarchy.equals')
B('H2-one-sided-terminus', ['C10'], 'index_level.py', 'IndexLevel.equals',
  'if level_self.targets is None or level_other.targets is None:', 'if level_self.targets is None:', 'H2', 'IndexLevel.equals')
B('H3-drop-skipna', ['C10'], 'series.py', 'Series.equals',
  '                compare_class=compare_class,\n                skipna=skipna,\n', '                compare_class=compare_class,\n', 'H3', 'Series.equals')
B('H3-wrong-component', ['C10'], 'frame.py', 'Frame.equals',
  'self._columns.equals(other._columns,', 'self._columns.equals(other._index,', 'H3', 'Frame.equals')
B('H3-constant-option', ['C10'], 'bus.py', 'Bus.equals',
  'compare_dtype=compare_dtype,', 'compare_dtype=False,', 'H3', 'Bus.equals')
B('H4-identity-broken', ['C10'], 'series.py', 'Series.equals',
  'if skipna and id(other) == id(self):', 'if skipna and id(other) != id(self):', 'H4', 'Series.equals')
B('H5-hash-dtypes', ['C10'], 'frame.py', 'FrameHE.__hash__',
  'tuple(self.columns.values),', 'tuple(self.columns.values), tuple(dt.str for dt in self._blocks.dtypes),', 'H5', 'FrameHE.__hash__')
B('H5-eq-compare-dtype', ['C10'], 'series.py', 'SeriesHE.__eq__',
  'compare_dtype=False,', 'compare_dtype=True,', 'H5', 'SeriesHE.__eq__')
B('H5-ne-not-negation', ['C10'], 'frame.py', 'FrameHE.__ne__',
  'return not self.__eq__(other)', 'return not self.equals(other, compare_name=False)', 'H5', 'FrameHE.__ne__')
N('H-swap-and-operands', ['C10'], 'type_blocks.py', 'TypeBlocks.equals',
  'isna_both = isna_self & isna_other', 'isna_both = isna_other & isna_self')
N('H-other-first', ['C10'], 'frame.py', 'Frame.equals',
  'self._name != other._name', 'other._name != self._name')
N('H-property-vs-slot', ['C10'], 'series.py', 'Series.equals',
  'self._name != other._name', 'self.name != other.name')
N('H-identity-is', ['C10'], 'index.py', 'Index.equals',
  'if skipna and id(other) == id(self):', 'if skipna and other is self:')

B('H5-hash-through-tolist', ['C10'], 'frame.py', 'FrameHE.__hash__',
  'tuple(self.index.values),', 'tuple(self.index.values.tolist()),', 'H5', 'FrameHE.__hash__')
N('H5-hash-through-slots', ['C10'], 'series.py', 'SeriesHE.__hash__',
  'hash(tuple(self.index.values))', 'hash(tuple(self._index.values))')
B('H6-memo-one-sided', ['C10'], 'index_level.py', 'IndexLevel.equals',
  'pair = (id(level_self.index), id(level_other.index))', 'pair = id(level_self.index)', 'H6', 'IndexLevel.equals')
N('H6-memo-pair-swapped', ['C10'], 'index_level.py', 'IndexLevel.equals',
  'pair = (id(level_self.index), id(level_other.index))', 'pair = (id(level_other.index), id(level_self.index))')

# ---------------------------------------------------------------------------------- B (C02, C05, C09, C19)
B('B-index-values-guard', ['C02', 'C09'], 'index.py', 'Index.values',
  'if self._recache:\n            self._update_array_cache()\n        return self._labels', 'return self._labels', 'B.recache[Index]', 'Index.values')
B('B-index-iter-guard', ['C02', 'C09'], 'index.py', 'Index.__iter__',
  'if self._recache:\n            self._update_array_cache()\n', 'pass\n', 'B.recache[Index]', 'Index.__iter__')
B('B-index-itercache-guard', ['C02', 'C09'], 'index.py', 'Index._iter_label',
  'if self._recache:\n            self._update_array_cache()\n', 'pass\n', 'B.recache[Index]', 'Index._iter_label')
B('B-index-loc-to-iloc-private', ['C02', 'C09'], 'index.py', 'Index._loc_to_iloc',
  '        # PERF: isolate for usage of _positions\n        if self._recache:\n            self._update_array_cache()\n\n        return LocMap.loc_to_iloc(',
  '        return LocMap.loc_to_iloc(', 'B.recache[Index]', 'Index._loc_to_iloc')
B('B-index-init-donor-guard', ['C02', 'C09'], 'index.py', 'Index.__init__',
  'if labels._recache:\n                labels._update_array_cache()\n', 'pass\n', 'B.recache[Index]', 'Index.__init__')
B('B-index-mutate-after-guard', ['C02', 'C09'], 'index.py', 'Index.__len__',
  'return len(self._labels)', 'self._recache = True\n        return len(self._labels)', 'B.recache[Index]', 'Index.__len__')
B('B-ih-values-at-depth', ['C02', 'C05', 'C09'], 'index_hierarchy.py', 'IndexHierarchy.values_at_depth',
  'if self._recache:\n            self._update_array_cache()\n', 'pass\n', 'B.recache[IndexHierarchy]', 'IndexHierarchy.values_at_depth')
B('B-ih-len-branch', ['C02', 'C05', 'C09'], 'index_hierarchy.py', 'IndexHierarchy.__len__',
  'if self._recache:\n            # avoid full recache\n            return self._levels.__len__()\n', 'pass\n', 'B.recache[IndexHierarchy]', 'IndexHierarchy.__len__')
B('B-ih-init-donor', ['C02', 'C05', 'C09'], 'index_hierarchy.py', 'IndexHierarchy.__init__',
  'if not levels._recache:\n                self._blocks = levels._blocks.copy()', 'if True:\n                self._blocks = levels._blocks.copy()', 'B.recache[IndexHierarchy]', 'IndexHierarchy.__init__')
B('B-ih-init-donor-blocks-realised', ['C02', 'C05', 'C09'], 'index_hierarchy.py', 'IndexHierarchy.__init__',
  'if not levels._recache:\n                self._blocks = levels._blocks.copy()', 'if levels._blocks is not None:\n                self._blocks = levels._blocks.copy()', 'B.recache[IndexHierarchy]', 'IndexHierarchy.__init__')
B('B-ih-external-reader', ['C05', 'C09'], 'frame.py', 'Frame.relabel_shift_in',
  'if index_target._recache:\n                index_target._update_array_cache()\n', 'pass\n', 'B.recache[IndexHierarchy]', 'relabel_shift_in')
B('B-arraygo-len', ['C02', 'C05'], 'array_go.py', 'ArrayGO.__len__',
  'if self._recache:\n            self._update_array_cache()\n', 'pass\n', 'B.recache[ArrayGO]', 'ArrayGO.__len__')
B('B-quilt-shape', ['C19'], 'quilt.py', 'Quilt.shape',
  'if self._assign_axis:\n            self._update_axis_labels()\n', 'pass\n', 'B.recache[Quilt]', 'Quilt.shape')
N('B-helper-fresh', ['C02', 'C09'], 'index.py', 'Index.__len__',
  'if self._recache:\n            self._update_array_cache()\n        return len(self._labels)', 'return len(self.values)')
N('B-early-return-form', ['C02', 'C09'], 'index.py', 'Index.dtype',
  'if self._recache:\n            self._update_array_cache()\n        return self._labels.dtype',
  'if not self._recache:\n            return self._labels.dtype\n        self._update_array_cache()\n        return self._labels.dtype')
N('B-ih-through-property', ['C05', 'C09'], 'index_hierarchy.py', 'IndexHierarchy._ufunc_unary_operator',
  'if self._recache:\n            self._update_array_cache()\n\n        values = self._blocks.values', 'values = self.values')

# ---------------------------------------------------------------------------------- G tables
B('G1-sub-passes-add', ['C06'], 'container.py', 'ContainerOperand.__sub__',
  'operator_mod.__sub__', 'operator_mod.__add__', 'G1', '__sub__')
B('G1-rsub-unswapped', ['C06'], 'container.py', 'ContainerOperand.__rsub__',
  'operator_mod.__sub__(lhs, rhs)', 'operator_mod.__sub__(rhs, lhs)', 'G1', '__rsub__')
B('G1-rname-wrong', ['C06'], 'container.py', 'ContainerOperand.__radd__',
  "operator.__name__ = 'r' + operator_mod.__add__.__name__", "operator.__name__ = operator_mod.__add__.__name__", 'G1', '__radd__')
B('G1-radd-order', ['C06'], 'container_util.py', 'apply_binary_operator',
  'result = npc.add(other, values)', 'result = npc.add(values, other)', 'G1', 'apply_binary_operator')
N('G1-reorder-kwargs', ['C06'], 'container.py', 'ContainerOperand.__mul__',
  'self._ufunc_binary_operator(operator=operator_mod.__mul__, other=other)', 'self._ufunc_binary_operator(other=other, operator=operator_mod.__mul__)')
B('G2-mean-composable', ['C15'], 'container.py', 'ContainerOperand.mean',
  'composable=False', 'composable=True', 'G2', 'mean')
B('G2-std-unity', ['C15'], 'container.py', 'ContainerOperand.std',
  'size_one_unity=False', 'size_one_unity=True', 'G2', 'std')
B('G2-min-nanmax', ['C15'], 'container.py', 'ContainerOperand.min',
  'ufunc_skipna=np.nanmin', 'ufunc_skipna=np.nanmax', 'G2', 'min')
B('G2-skipna-constant', ['C15'], 'container.py', 'ContainerOperand.sum',
  'skipna=skipna', 'skipna=True', 'G2', 'sum')
B('G2-nanall-flag', ['C15'], 'util.py', 'ufunc_nanall',
  'skipna=True', 'skipna=False', 'G2', 'ufunc_nanall')
B('G3-nat-kinds', ['C14'], 'util.py', '<module>',
  'DTYPE_NAT_KINDS = (DTYPE_DATETIME_KIND, DTYPE_TIMEDELTA_KIND)', 'DTYPE_NAT_KINDS = (DTYPE_DATETIME_KIND,)', 'G3', None)
B('G3-isna-object-none', ['C14'], 'util.py', 'isna_array',
  'return np.not_equal(array, array) | np.equal(array, None)', 'return np.not_equal(array, array)', 'G3', 'isna_array')
B('G3-isna-nat-isnan', ['C14'], 'util.py', 'isna_array',
  'return np.isnat(array)', 'return np.isnan(array)', 'G3', 'isna_array')
N('G3-frozenset-kinds', ['C14'], 'util.py', '<module>',
  "DTYPE_STR_KINDS = ('U', 'S')", "DTYPE_STR_KINDS = frozenset(('S', 'U'))")
B('G4-quicksort', ['C12'], 'util.py', '<module>',
  "DEFAULT_SORT_KIND = 'mergesort'", "DEFAULT_SORT_KIND = 'quicksort'", 'G4', None)
N('G4-stable', ['C12'], 'util.py', '<module>',
  "DEFAULT_SORT_KIND = 'mergesort'", "DEFAULT_SORT_KIND = 'stable'")
B('G5-none-token', ['C16'], 'store_filter.py', 'StoreFilter.__init__',
  "from_none: tp.Optional[str] = 'None'", "from_none: tp.Optional[str] = 'none'", 'G5', 'StoreFilter.__init__')
B('G5-pair-crossed', ['C16'], 'store_filter.py', 'StoreFilter.__init__',
  '(np.isposinf, self.from_posinf)', '(np.isposinf, self.from_neginf)', 'G5', 'StoreFilter.__init__')
B('G6-sqlite-labels-undecorated', ['C17'], 'store_sqlite.py', 'StoreSQLite.labels',
  '@store_coherent_non_write\n    ', '', 'G6', 'StoreSQLite.labels')
B('G6-zip-write-wrong-decorator', ['C17'], 'store_zip.py', '_StoreZip.write',
  '@store_coherent_write', '@store_coherent_non_write', 'G6', '_StoreZip.write')
B('G6-coherent-after', ['C17'], 'store.py', 'store_coherent_non_write',
  "self._mtime_coherent()\n        return f(self, *args, **kwargs) # type: ignore", "post = f(self, *args, **kwargs)\n        self._mtime_coherent()\n        return post", 'G6', 'store_coherent_non_write')
B('G6-vanished-silent', ['C17'], 'store.py', 'Store._mtime_coherent',
  "raise StoreFileMutation(f'expected file {self._fp} no longer exists')", 'pass', 'G6', '_mtime_coherent')
B('G7-loc-min-max', ['C19'], 'batch.py', 'Batch.loc_min',
  "attr='loc_min'", "attr='loc_max'", 'G7', 'Batch.loc_min')
B('G7-param-dropped', ['C19'], 'batch.py', 'Batch.sort_values',
  '                ascending=ascending,\n', '', 'G7', 'Batch.sort_values')
B('G7-param-constant', ['C19'], 'batch.py', 'Batch.sort_index',
  'kind=kind,', 'kind=DEFAULT_SORT_KIND,', 'G7', 'Batch.sort_index')
B('G8-left-right', ['C20'], 'frame.py', 'Frame.join_left',
  'join_type=Join.LEFT', 'join_type=Join.RIGHT', 'G8', 'join_left')
B('G8-mirror-wrong-set', ['C20'], 'frame.py', 'Frame._join',
  'for x in right_index if x not in right_loc_set)\n                final_index = Index(chain(many_loc, extend))', 'for x in right_index if x not in left_loc_set)\n                final_index = Index(chain(many_loc, extend))', 'G8', '_join')
N('G8-mirror-renamed-local', ['C20'], 'frame.py', 'Frame._join',
  'extend = (PairRight((cifv, x))\n                        for x in right_index if x not in right_loc_set)\n                final_index = Index(chain(many_loc, extend))',
  'extra = (PairRight((cifv, y))\n                        for y in right_index if y not in right_loc_set)\n                final_index = Index(chain(many_loc, extra))')
B('G8-mirror-broken', ['C20'], 'frame.py', 'Frame._join',
  'for x in right_index if x not in right_loc_set)\n                final_index = Index(chain(many_loc, extend))',
  'for x in right_index if x not in left_loc_set)\n                final_index = Index(chain(many_loc, extend))', 'G8', '_join')
B('G9-bus-derive-max-persist', ['C17'], 'bus.py', 'Bus._derive',
  'max_persist=self._max_persist,', '', 'G9', 'Bus._derive')
B('G9-batch-derive-chunksize', ['C19', 'C18'], 'batch.py', 'Batch._derive',
  'chunksize=self._chunksize,', 'chunksize=1,', 'G9', 'Batch._derive')

# ---------------------------------------------------------------------------------- A (C01)
B('A1-append-no-filter', ['C01', 'C09'], 'type_blocks.py', 'TypeBlocks.append',
  'self._blocks.append(immutable_filter(block))', 'self._blocks.append(block)', 'A-R1', 'TypeBlocks.append')
B('A1-from-blocks-no-filter', ['C01'], 'type_blocks.py', 'TypeBlocks.from_blocks',
  'blocks.append(immutable_filter(block))', 'blocks.append(block)', 'A-R1', 'TypeBlocks.from_blocks')
B('A1-series-init-raw', ['C01'], 'series.py', 'Series.__init__',
  'self.values = immutable_filter(values)', 'self.values = values', 'A-R1', 'Series.__init__')
B('A1-arraygo-cache-unfrozen', ['C01'], 'array_go.py', 'ArrayGO._update_array_cache',
  'array.flags.writeable = False\n                self._array = array', 'self._array = array', 'A-R1', 'ArrayGO._update_array_cache')
B('A1-extract-labels-raw', ['C01'], 'index.py', 'Index._extract_labels',
  'return immutable_filter(labels)', 'return labels', 'A-R1', 'Index.__init__')
B('A1-indexgo-recache-unfrozen', ['C01', 'C09'], 'index.py', '_IndexGOMixin._update_array_cache',
  'self._labels, _ = iterable_to_array_1d(\n                self._labels_mutable,\n                dtype=self._labels_mutable_dtype)',
  'self._labels = np.array(self._labels_mutable, dtype=self._labels_mutable_dtype)', 'A-R1', '_update_array_cache')
B('A1-raw-ctor-new-site', ['C01', 'C03'], 'type_blocks.py', 'TypeBlocks.transpose',
  'return self.from_blocks(array)', 'a2 = array.copy()\n        return self.__class__(blocks=[a2], dtypes=[a2.dtype] * a2.shape[1], index=[(0, i) for i in range(a2.shape[1])], shape=a2.shape)',
  ('A-R1', 'I.typeblocks-raw'), 'TypeBlocks.transpose')
B('A3-assign-into-view', ['C01', 'C08'], 'type_blocks.py', 'TypeBlocks._assign_from_bloc_by_unit',
  'assigned = block.copy()', 'assigned = block', 'A-R3', '_assign_from_bloc_by_unit')
B('A3-index-fillna-inplace', ['C01', 'C08'], 'index.py', 'Index.fillna',
  'assigned = values.copy()', 'assigned = values', 'A-R3', 'Index.fillna')
B('A3-boolean-blocks-view', ['C01', 'C08'], 'type_blocks.py', 'TypeBlocks._assign_from_boolean_blocks_by_blocks',
  'assigned = block_sub.copy()', 'assigned = block_sub', 'A-R3', '_assign_from_boolean_blocks_by_blocks')
B('A3-thaw-owned', ['C01'], 'type_blocks.py', 'TypeBlocks.equals',
  'for block in eq._blocks:', 'for block in self._blocks:', 'A-R3', 'TypeBlocks.equals')
B('A3-sort-owned', ['C01'], 'series.py', 'Series.sort_values',
  'order = np.argsort(cfs_values, kind=kind)', 'self.values.sort(kind=kind)\n        order = np.argsort(cfs_values, kind=kind)', 'A-R3', 'Series.sort_values')
B('A4-typeblocks-setstate', ['C01', 'C16'], 'type_blocks.py', 'TypeBlocks.__setstate__',
  'b.flags.writeable = False', 'pass', 'A-R4', 'TypeBlocks.__setstate__')
B('A4-series-setstate', ['C01', 'C16'], 'series.py', 'Series.__setstate__',
  'self.values.flags.writeable = False', 'pass', 'A-R4', 'Series.__setstate__')
B('A4-index-setstate-positions', ['C01', 'C16'], 'index.py', 'Index.__setstate__',
  'self._positions.flags.writeable = False', 'pass', 'A-R4', 'Index.__setstate__')
B('A4-deepcopy-flag', ['C01', 'C16'], 'util.py', 'array_deepcopy',
  'post.flags.writeable = array.flags.writeable', 'pass', 'A-R4', 'array_deepcopy')
B('A4-deepcopy-plain-copy', ['C01', 'C16'], 'series.py', 'Series.__deepcopy__',
  'obj.values = array_deepcopy(self.values, memo)', 'obj.values = self.values.copy()', 'A-R', 'Series.__deepcopy__')
B('A5-freeze-caller-array', ['C01'], 'frame.py', 'Frame.__init__',
  'if own_data:\n                data.flags.writeable = False', 'if True:\n                data.flags.writeable = False', 'A-R5', 'Frame.__init__')
B('A6-setitem-on-series', ['C01'], 'series.py', 'Series',
  '    def __len__(self) -> int:', '    def __setitem__(self, key, value):\n        v = self.values.copy()\n        v[key] = value\n        v.flags.writeable = False\n        self.values = v\n\n    def __len__(self) -> int:', 'A-R6', 'Series')
B('A2-blocks-to-array-unfrozen', ['C01'], 'type_blocks.py', 'TypeBlocks._blocks_to_array',
  'array.flags.writeable = False\n        return array', 'return array', 'A-R2', None)
B('A2-ih-unary-unfrozen', ['C01'], 'index_hierarchy.py', 'IndexHierarchy._ufunc_unary_operator',
  'array.flags.writeable = False', 'pass', 'A-R2', 'IndexHierarchy._ufunc_unary_operator')
B('A2-series-unique-unfrozen', ['C01'], 'series.py', 'Series.unique',
  'array.flags.writeable = False', 'pass', 'A-R2', 'Series.unique')
B('A2-ih-isin-unfrozen', ['C01'], 'index_hierarchy.py', 'IndexHierarchy.isin',
  'array.flags.writeable = False', 'pass', 'A-R2', 'IndexHierarchy.isin')
N('A-roll-freeze-redundant', ['C01'], 'index.py', 'Index.roll',
  'values.flags.writeable = False', 'pass')
N('A-inline-copy-freeze', ['C01'], 'series.py', 'Series.__init__',
  'self.values = immutable_filter(values)', 'self.values = values.copy()\n                self.values.flags.writeable = False')
N('A-empty-like-copy', ['C01', 'C08'], 'type_blocks.py', 'TypeBlocks._assign_from_bloc_by_unit',
  'assigned = block.copy()', 'assigned = np.empty_like(block)\n                    assigned[...] = block')
N('A-values-view', ['C01'], 'index.py', 'Index.values',
  'return self._labels', 'return self._labels[:]')
N('A-series-reindex-freeze-redundant', ['C01'], 'type_blocks.py', 'TypeBlocks._shift_blocks',
  'b.flags.writeable = False', 'pass')

# ---------------------------------------------------------------------------------- C / D (C09)
B('C-rename-share-blocks', ['C09', 'C03'], 'frame.py', 'Frame.rename',
  'self._blocks.copy()', 'self._blocks', 'C.own-handoff', 'Frame.rename')
B('C-group-own-go-columns', ['C09'], 'frame.py', 'Frame._axis_group_iloc_items',
  'own_columns=self.STATIC, # own if static', 'own_columns=True,', 'C.own-handoff', '_axis_group_iloc_items')
B('C-setindex-flag-flip', ['C09'], 'frame.py', 'Frame.set_index',
  'columns = self._columns\n            own_data = False\n            own_columns = False', 'columns = self._columns\n            own_data = False\n            own_columns = True',
  'C.own-handoff', 'Frame.set_index')
B('C-setindex-data-flip', ['C09'], 'frame.py', 'Frame.set_index',
  'blocks = self._blocks\n            columns = self._columns\n            own_data = False', 'blocks = self._blocks\n            columns = self._columns\n            own_data = True',
  'C.own-handoff', 'Frame.set_index')
B('C-extract-own-null-slice', ['C09', 'C04'], 'frame.py', 'Frame._extract',
  'own_columns = self._COLUMNS_CONSTRUCTOR.STATIC', 'own_columns = True', 'C.own-handoff', 'Frame._extract')
B('C-togo-own-columns', ['C09'], 'frame.py', 'FrameGO._to_frame',
  'own_columns=False, # all cases need new columns', 'own_columns=True,', 'C.', 'FrameGO._to_frame')
B('C-toframe-no-copy', ['C09'], 'frame.py', 'Frame._to_frame',
  'self._blocks.copy()', 'self._blocks', 'C.own-handoff', 'Frame._to_frame')
B('C-index-share-map', ['C09', 'C02', 'C01'], 'index.py', 'Index.__init__',
  'if (labels.STATIC and self.STATIC and dtype is None):', 'if (self.STATIC and dtype is None):', 'C.sharing-guards', 'Index.__init__')
B('C-index-share-map-typed-arm', ['C09', 'C02', 'C01'], 'index.py', 'Index.__init__',
  'if (labels.STATIC and self.STATIC and dtype is None):\n                    if not is_typed or (is_typed and self._DTYPE == labels.dtype):',
  'if self.STATIC and dtype is None:\n                    if (not is_typed and labels.STATIC) or (is_typed and self._DTYPE == labels.dtype):', 'C.sharing-guards', 'Index.__init__')
N('C-index-share-map-guard-nested', ['C09', 'C02', 'C01'], 'index.py', 'Index.__init__',
  'if (labels.STATIC and self.STATIC and dtype is None):\n                    if not is_typed or (is_typed and self._DTYPE == labels.dtype):',
  'if self.STATIC and dtype is None:\n                    if labels.STATIC and (not is_typed or (is_typed and self._DTYPE == labels.dtype)):')
B('C-ih-share-levels', ['C09', 'C05', 'C01'], 'index_hierarchy.py', 'IndexHierarchy.__init__',
  'if self.STATIC and index_level.STATIC:', 'if index_level.STATIC:', 'C.sharing-guards', 'IndexHierarchy.__init__')
B('C-optional-ctor-share', ['C09'], 'container_util.py', 'index_from_optional_constructor',
  '            if not value.STATIC:\n                # v: ~S, dc: ~S, both are mutable\n                return value.copy()',
  '            if not value.STATIC:\n                return value', 'C.sharing-guards', 'index_from_optional_constructor')
B('C-immutable-filter-always', ['C09', 'C01'], 'index.py', 'immutable_index_filter',
  'if index.STATIC:\n        return index', 'if True:\n        return index', 'C.sharing-guards', 'immutable_index_filter')
B('C-grow-shared-blocks', ['C09'], 'frame.py', 'Frame.relabel_shift_in',
  'ih_blocks = index_target._blocks.copy() # will mutate copied blocks', 'ih_blocks = index_target._blocks', 'C.who-may-grow', 'relabel_shift_in')
B('C-grow-foreign-columns', ['C09'], 'frame.py', 'Frame._insert',
  'columns = self._columns.__class__.from_labels(chain(', 'self._columns.extend(())\n        columns = self._columns.__class__.from_labels(chain(', 'C.who-may-grow', 'Frame._insert')
N('C-hoist-copy', ['C09'], 'frame.py', 'Frame.rename',
  'return self.__class__(self._blocks.copy(),', 'blocks_new = self._blocks.copy()\n        return self.__class__(blocks_new,')
N('C-static-guard-spelling', ['C09'], 'frame.py', 'Frame._axis_group_iloc_items',
  'own_columns=self.STATIC, # own if static', 'own_columns=self._COLUMNS_CONSTRUCTOR.STATIC,')
B('D1-typeblocks-skip-dtypes', ['C09', 'C03'], 'type_blocks.py', 'TypeBlocks.append',
  'self._dtypes.append(block.dtype)', 'pass', 'D1', 'TypeBlocks.append')
B('D1-ihgo-append-no-recache', ['C09', 'C05'], 'index_hierarchy.py', 'IndexHierarchyGO.append',
  'self._recache = True', 'pass', 'D1', 'IndexHierarchyGO.append')
B('D1-levelgo-extend-no-length-reset', ['C09', 'C05', 'C02'], 'index_level.py', 'IndexLevelGO.extend',
  'self._length = None', 'pass', 'D1', 'IndexLevelGO.extend')
B('D1-levelgo-append-no-length-reset', ['C09', 'C05', 'C02'], 'index_level.py', 'IndexLevelGO.append',
  'for node in edge_nodes:\n            node._length = None', 'pass', 'D1', 'IndexLevelGO.append')
B('D1-indexgo-append-no-recache', ['C09', 'C02'], 'index.py', '_IndexGOMixin.append',
  'self._positions_mutable_count += 1\n        self._recache = True', 'self._positions_mutable_count += 1', 'D1', '_IndexGOMixin.append')
B('D1-indexgo-append-early-return', ['C09', 'C02'], 'index.py', '_IndexGOMixin.append',
  'if map_new is not None:\n            self._map = map_new', 'if map_new is not None:\n            self._map = map_new\n            return', 'D1', '_IndexGOMixin.append')
B('D2-setitem-mutate-before-validate', ['C09'], 'frame.py', 'FrameGO.__setitem__',
  '        row_count = len(self._index)\n', '        row_count = len(self._index)\n        self._columns.append(key)\n', 'D2', 'FrameGO.__setitem__')
B('D2-setitem-drop-length-check', ['C09'], 'frame.py', 'FrameGO.__setitem__',
  "            if block.ndim != 1 or len(block) != row_count:\n                raise RuntimeError('incorrectly sized, unindexed value')", '            pass', 'D2', 'FrameGO.__setitem__')
B('D2-extend-drop-precheck', ['C09'], 'frame.py', 'FrameGO.extend',
  'if key in self._columns:', 'if False:', 'D2', 'FrameGO.extend')
B('D2-indexgo-append-dup-after', ['C09', 'C02'], 'index.py', '_IndexGOMixin.append',
  "        if self.__contains__(value): #type: ignore\n            raise KeyError(f'duplicate key append attempted: {value}')\n",
  "        self._labels_mutable.append(value)\n        if self.__contains__(value): #type: ignore\n            raise KeyError(f'duplicate key append attempted: {value}')\n", 'D2', '_IndexGOMixin.append')
N('D-reorder-directory-appends', ['C09', 'C03'], 'type_blocks.py', 'TypeBlocks.append',
  'self._index.append((block_idx, i))\n            self._dtypes.append(block.dtype)', 'self._dtypes.append(block.dtype)\n            self._index.append((block_idx, i))')
# ---------------------------------------------------------------------------------- Bus (C17)
B('BUS-get-unloaded', ['C17'], 'bus.py', 'Bus.get',
  'return self.__getitem__(key)', 'return self._series.__getitem__(key)', 'B.bus-load', 'Bus.get')
B('BUS-items-no-load', ['C17'], 'bus.py', 'Bus.items',
  'if not self._loaded_all:\n                self._update_series_cache_iloc(key=NULL_SLICE)\n            yield from self._series.items()', 'yield from self._series.items()', 'B.bus-load', 'Bus.items')
B('BUS-extract-loc-no-load', ['C17'], 'bus.py', 'Bus._extract_loc',
  'self._update_series_cache_iloc(key=iloc_key)', 'pass', 'B.bus-load', 'Bus._extract_loc')
B('BUS-config-iterator', ['C17'], 'bus.py', 'Bus._store_reader',
  'config=config[label])', 'config=config[labels])', 'I.loop-iterable', '_store_reader')
B('BUS-evict-no-flag', ['C17'], 'bus.py', 'Bus._update_series_cache_iloc',
  'self._loaded[idx_remove] = False', 'pass', 'I.bus-lru', '_update_series_cache_iloc')
B('BUS-evict-gte', ['C17'], 'bus.py', 'Bus._update_series_cache_iloc',
  'loaded_count > self._max_persist', 'loaded_count >= self._max_persist', 'I.bus-lru', '_update_series_cache_iloc')
B('BUS-evict-newest', ['C17'], 'bus.py', 'Bus._update_series_cache_iloc',
  'label_remove = next(iter(self._last_accessed))', 'label_remove = next(reversed(self._last_accessed))', 'I.bus-lru', '_update_series_cache_iloc')
B('BUS-load-no-count', ['C17'], 'bus.py', 'Bus._update_series_cache_iloc',
  '                if max_persist_active:\n                    loaded_count += 1', '                pass', 'I.bus-lru', '_update_series_cache_iloc')
B('BUS-init-no-check', ['C17'], 'bus.py', 'Bus.__init__',
  'if max_persist is not None and max_persist < self._loaded.sum():', 'if False:', 'I.bus-lru', 'Bus.__init__')
N('BUS-get-via-loc', ['C17'], 'bus.py', 'Bus.get',
  'return self.__getitem__(key)', 'return self._extract_loc(key)')

# ---------------------------------------------------------------------------------- I (C05 dtype lint, C16 dialect)
B('I-dtype-class-as-specifier', ['C05'], 'type_blocks.py', 'TypeBlocks.dtypes',
  'dtype=DTYPE_OBJECT', 'dtype=np.dtype', 'I.dtype-specifier', 'dtypes')
B('I-dtype-class-elsewhere', ['C05'], 'type_blocks.py', 'TypeBlocks.shapes',
  'a = np.empty(len(self._blocks), dtype=object)', 'a = np.empty(len(self._blocks), dtype=np.dtype)', 'I.dtype-specifier', 'shapes')
B('I-csv-reader-quotechar-dropped', ['C16'], 'frame.py', 'Frame.from_delimited',
  'for row in csv.reader(fp, delimiter=delimiter, quotechar=quote_char):', 'for row in csv.reader(fp, delimiter=delimiter):', 'I.csv-dialect', 'file_like')
B('I-csv-raw-lines', ['C16'], 'frame.py', 'Frame.from_delimited',
  "                    with open(fp, 'r') as f:\n                        for row in csv.reader(f, delimiter=delimiter, quotechar=quote_char):\n                            yield delimiter_native.join(row)",
  "                    with open(fp, 'r') as f:\n                        for row in f:\n                            yield row.replace(delimiter, delimiter_native)", 'I.csv-dialect', 'file_like')
B('I-csv-writer-quotechar', ['C16'], 'frame.py', 'Frame.to_delimited',
  'quotechar=quote_char,', "quotechar='\\'',", 'I.csv-dialect', 'to_delimited')
B('I-tsv-wrapper-constant', ['C16'], 'frame.py', 'Frame.to_tsv',
  "delimiter='\\t',", "delimiter=' ',", 'I.csv-dialect', 'to_tsv')

# ---------------------------------------------------------------------------------- sort (C12) / index (C02)
B('S-argsort-default-kind', ['C12'], 'series.py', 'Series.sort_values',
  'order = np.argsort(cfs_values, kind=kind)', 'order = np.argsort(cfs_values)', 'I.sort-kind', 'Series.sort_values')
B('S-kind-hardwired', ['C12'], 'container_util.py', 'sort_index_for_order',
  'order = np.argsort(v, kind=kind)', "order = np.argsort(v, kind='quicksort')", 'I.sort-kind', 'sort_index_for_order')
B('S-kind-dropped-in-forward', ['C12'], 'frame.py', 'Frame.sort_index',
  'order = sort_index_for_order(self._index, kind=kind, ascending=ascending, key=key)', 'order = sort_index_for_order(self._index, kind=DEFAULT_SORT_KIND, ascending=ascending, key=key)', 'I.sort-kind', 'Frame.sort_index')
B('S-duplicated-unstable', ['C12'], 'util.py', '_array_to_duplicated_sortable',
  'o_idx = np.argsort(array, axis=None, kind=DEFAULT_STABLE_SORT_KIND)', 'o_idx = np.argsort(array, axis=None)', 'I.sort-kind', '_array_to_duplicated_sortable')
B('S-lexsort-ascending-keys', ['C12'], 'container_util.py', 'sort_index_for_order',
  'for i in range(cfs.depth-1, -1, -1)]', 'for i in range(cfs.depth)]', 'I.lexsort', 'sort_index_for_order')
B('S-lexsort-frame-ascending', ['C12'], 'frame.py', 'Frame.sort_values',
  'values_for_lex = [cfs[:, i] for i in range(cfs.shape[1]-1, -1, -1)]', 'values_for_lex = [cfs[:, i] for i in range(cfs.shape[1])]', 'I.lexsort', 'Frame.sort_values')
B('S-descending-resort', ['C12'], 'series.py', 'Series.sort_values',
  'if not ascending:\n            order = order[::-1]', 'if not ascending:\n            order = np.argsort(-cfs_values, kind=kind)', 'I.descending', 'Series.sort_values')
B('S-ascending-ignored', ['C12'], 'frame.py', 'Frame.sort_columns',
  'order = sort_index_for_order(self._columns, kind=kind, ascending=ascending, key=key)', 'order = sort_index_for_order(self._columns, kind=kind, ascending=True, key=key)', 'I.descending', 'Frame.sort_columns')
B('S-labels-not-permuted', ['C12'], 'series.py', 'Series.sort_values',
  'index = self._index[order]', 'index = self._index', 'E.pair[sort]', 'Series.sort_values')
B('S-values-other-key', ['C12'], 'frame.py', 'Frame.sort_index',
  'blocks = self._blocks.iloc[order]', 'blocks = self._blocks.iloc[order[::-1]]', 'E.pair[sort]', 'Frame.sort_index')
B('S-axis-swap', ['C12'], 'frame.py', 'Frame.sort_columns',
  'blocks = self._blocks[order]', 'blocks = self._blocks.iloc[order]', 'E.pair[sort]', 'Frame.sort_columns')
B('S-name-dropped', ['C12'], 'frame.py', 'Frame.sort_index',
  '                columns=self._columns,\n                name=self._name,', '                columns=self._columns,', 'E.pair[sort]', 'Frame.sort_index')
N('S-reversed-range', ['C12'], 'container_util.py', 'sort_index_for_order',
  'for i in range(cfs.depth-1, -1, -1)]', 'for i in reversed(range(cfs.depth))]')
N('S-flip', ['C12'], 'container_util.py', 'sort_index_for_order',
  'order = order[::-1]', 'order = np.flip(order)')
B('X-dup-handler-swallows', ['C02'], 'index.py', 'Index.__init__',
  'if self._map is None:\n                    raise ErrorInitIndexNonUnique(', 'if False:\n                    raise ErrorInitIndexNonUnique(', 'I.index-uniqueness', 'Index.__init__')
B('X-loc-is-iloc-new-caller', ['C02'], 'index.py', 'Index._extract_iloc',
  'return self.__class__(labels=labels, name=self._name)', 'return self.__class__(labels=labels, name=self._name, loc_is_iloc=self._map is None)', 'I.index-uniqueness', '_extract_iloc')
B('X-contains-stale-array', ['C02'], 'index.py', 'Index.__contains__',
  'return self._map.__contains__(value) #type: ignore', 'return value in self._labels', 'I.index-uniqueness', '__contains__')
B('X-tree-test-dropped', ['C02', 'C05'], 'index_hierarchy.py', 'IndexHierarchy._from_type_blocks',
  "                    if v != observed_last[d]:\n                        raise ErrorInitIndex(f'invalid tree-form for IndexHierarchy: {v} cannot follow {observed_last[d]} when {v} has already been defined.')\n                current = current[v]\n                observed_last[d] = v\n            elif d < depth_max:",
  "                    pass\n                current = current[v]\n                observed_last[d] = v\n            elif d < depth_max:", 'I.tree-form', None)

# ---------------------------------------------------------------------------------- select (C04)
B('SEL-series-label-other-key', ['C04'], 'series.py', 'Series._extract_loc',
  'index=self._index.iloc[iloc_key],', 'index=self._index.iloc[key],', 'E.pair[select]', 'Series._extract_loc')
B('SEL-frame-columns-row-key', ['C04'], 'frame.py', 'Frame._extract',
  'columns = self._columns._extract_iloc(column_key)', 'columns = self._columns._extract_iloc(row_key)', 'E.pair[select]', 'Frame._extract')
B('SEL-frame-reduce-crossed', ['C04'], 'frame.py', 'Frame._extract',
  "                return Series(\n                        column_1d_filter(blocks._blocks[0]),\n                        index=index,\n                        name=name_column)",
  "                return Series(\n                        column_1d_filter(blocks._blocks[0]),\n                        index=index,\n                        name=name_row)", 'E.pair[select]', 'Frame._extract')
B('SEL-stop-not-inclusive', ['C04'], 'index.py', 'LocMap.map_slice_args',
  "                if field == SLICE_STOP_ATTR:\n                    # loc selections are inclusive, so iloc gets one more\n                    pos += 1 #type: ignore", "                pass", 'I.inclusive-stop', 'map_slice_args')
B('SEL-datetime-stop-not-inclusive', ['C04'], 'index.py', 'LocMap.map_slice_args',
  'pos = matches[-1] + 1', 'pos = matches[-1]', 'I.inclusive-stop', 'map_slice_args')
B('SEL-inclusive-helper', ['C04'], 'util.py', 'slice_to_inclusive_slice',
  'stop = None if key.stop is None else key.stop + 1 + offset', 'stop = None if key.stop is None else key.stop + offset', 'I.inclusive-stop', 'slice_to_inclusive_slice')
B('SEL-auto-index-slice-raw', ['C04'], 'index.py', 'Index._loc_to_iloc',
  '                key = slice_to_inclusive_slice(key) #type: ignore\n            elif isinstance(key, INT_TYPES):', '                pass\n            elif isinstance(key, INT_TYPES):', 'I.inclusive-stop', 'Index._loc_to_iloc')
B('SEL-get-for-element', ['C04'], 'index.py', 'LocMap.loc_to_iloc',
  '        return label_to_pos[key]', '        return label_to_pos.get(key, 0)', 'I.absent-label', 'LocMap.loc_to_iloc')
B('SEL-slice-none-passes', ['C04'], 'index.py', 'LocMap.map_slice_args',
  "                    if pos is None:\n                        # NOTE: could raise LocEmpty() to silently handle this\n                        raise LocInvalid('Invalid loc given in a slice', attr, field)", "                    pass", 'I.absent-label', 'map_slice_args')
B('SEL-partial-leaks', ['C04'], 'series.py', 'Series._extract_loc',
  'iloc_key = self._index._loc_to_iloc(key)', 'iloc_key = self._index._loc_to_iloc(key, partial_selection=True)', 'I.absent-label', 'Series._extract_loc')
B('SEL-compound-axes-crossed', ['C04'], 'frame.py', 'Frame._compound_loc_to_iloc',
  'iloc_column_key = self._columns._loc_to_iloc(loc_column_key)', 'iloc_column_key = self._index._loc_to_iloc(loc_column_key)', 'I.loc-delegates', '_compound_loc_to_iloc')
B('SEL-bloc-offset-dropped', ['C04', 'C08'], 'type_blocks.py', 'TypeBlocks.extract_bloc',
  'coords.append((row_pos, t_start + col_pos))', 'coords.append((row_pos, col_pos))', 'H.bloc-coordinate', 'extract_bloc')
B('SEL-bloc-offset-not-advanced', ['C04', 'C08'], 'type_blocks.py', 'TypeBlocks.extract_bloc',
  "            if not target.any():\n                t_start = t_end\n                continue", "            if not target.any():\n                continue", 'H.bloc-coordinate', 'extract_bloc')
N('SEL-alias-key', ['C04'], 'series.py', 'Series._extract_iloc',
  'def _extract_iloc(self, key: GetItemKeyType) -> \'Series\':', 'def _extract_iloc(self, key: GetItemKeyType) -> \'Series\':\n        k = key')
N('SEL-bloc-rename-vars', ['C04', 'C08'], 'type_blocks.py', 'TypeBlocks.extract_bloc',
  'for row_pos, col_pos in zip(*np.nonzero(target)):\n                    coords.append((row_pos, t_start + col_pos))', 'for r, c in zip(*np.nonzero(target)):\n                    coords.append((r, t_start + c))')

# ---------------------------------------------------------------------------------- update (C08)
B('U-assign-auto-index', ['C08'], 'frame.py', 'FrameAssignILoc.__call__',
  '                index=self.container._index,\n', '', 'E.passthrough', 'FrameAssignILoc.__call__')
B('U-assign-drops-name', ['C08'], 'series.py', 'SeriesAssign.__call__',
  '                index=self.container._index,\n                name=self.container._name)', '                index=self.container._index)', 'E.passthrough', 'SeriesAssign.__call__')
B('U-astype-columns-from-index', ['C08'], 'frame.py', 'FrameAsType.__call__',
  'columns=self.container.columns,', 'columns=self.container.index,', 'E.passthrough', 'FrameAsType.__call__')
B('U-fillna-name-lost', ['C08', 'C14'], 'frame.py', 'Frame.fillna_forward',
  '                name=self._name,\n', '', 'E.passthrough', 'Frame.fillna_forward')
B('U-transpose-unswapped', ['C08'], 'frame.py', 'Frame.transpose',
  'index=self._columns,\n                columns=self._index,', 'index=self._index,\n                columns=self._columns,', 'E.transpose', 'Frame.transpose')
B('U-drop-labels-other-key', ['C08'], 'series.py', 'Series._drop_iloc',
  'index = self._index._drop_iloc(key)', 'index = self._index._drop_iloc(None)', 'E.pair[drop]', 'Series._drop_iloc')
B('U-assign-key-unsorted', ['C08'], 'frame.py', 'FrameAssignILoc.__call__',
  '                    key_to_ascending_key(\n                    self.key[1],\n                    self.container.shape[1])) #type: ignore [index]', '                    self.key[1]) #type: ignore [index]', 'I.assign-key', 'FrameAssignILoc.__call__')
B('U-assign-align-raw-key', ['C08'], 'frame.py', 'FrameAssignILoc.__call__',
  'assigned = self.container._reindex_other_like_iloc(value,\n                    key,\n                    fill_value=fill_value).values', 'assigned = self.container._reindex_other_like_iloc(value,\n                    self.key,\n                    fill_value=fill_value).values', 'I.assign-key', 'FrameAssignILoc.__call__')
B('U-series-assign-inplace', ['C08', 'C01'], 'series.py', 'SeriesAssign.__call__',
  'array = self.container.values.copy()', 'array = self.container.values', 'A-R3', 'SeriesAssign.__call__')
B('U-iloc-assign-view', ['C08', 'C01'], 'type_blocks.py', 'TypeBlocks._assign_from_iloc_by_unit',
  'assigned_target = assigned_target_pre.copy()', 'assigned_target = assigned_target_pre', 'A-R3', '_assign_from_iloc_by_unit')
N('U-kwarg-order', ['C08'], 'frame.py', 'FrameAsType.__call__',
  '                columns=self.container.columns,\n                index=self.container.index,', '                index=self.container.index,\n                columns=self.container.columns,')
N('U-slot-instead-of-property', ['C08'], 'frame.py', 'FrameAsType.__call__',
  'index=self.container.index,', 'index=self.container._index,')

# ---------------------------------------------------------------------------------- resolve (C07)
B('F1-astype-to-copy', ['C07'], 'type_blocks.py', 'TypeBlocks._assign_from_boolean_blocks_by_unit',
  'assigned = block.astype(assigned_dtype)', 'assigned = block.copy()', 'F1', '_assign_from_boolean_blocks_by_unit')
B('F1-unconditional-copy', ['C07'], 'index.py', 'Index.fillna',
  '        if values.dtype == assignable_dtype:\n            assigned = values.copy()\n        else:\n            assigned = values.astype(assignable_dtype)', '        assigned = values.copy()', 'F1', 'Index.fillna')
B('F1-resolve-dropped', ['C07'], 'series.py', 'SeriesAssign.__call__',
  'dtype = resolve_dtype(self.container.dtype, value_dtype)', 'dtype = self.container.dtype', 'F1', 'SeriesAssign.__call__')
B('F1-guard-inverted', ['C07'], 'type_blocks.py', 'TypeBlocks._fillna_sided_axis_0',
  'if b.dtype == assignable_dtype:', 'if b.dtype != assignable_dtype:', 'F1', '_fillna_sided_axis_0')
B('F1-empty-no-dtype', ['C07'], 'series.py', 'Series._insert',
  'values = np.empty(len(self) + len(container), dtype=dtype)', 'values = np.empty(len(self) + len(container))', 'F1', 'Series._insert')
B('F2-bare-concatenate', ['C07', 'C11'], 'util.py', 'concat_resolved',
  '    out = np.empty(shape=shape, dtype=dt_resolve)\n    np.concatenate(arrays, out=out, axis=axis)', '    out = np.concatenate(arrays, axis=axis)', 'F2', 'concat_resolved')
B('F2-hstack', ['C07'], 'type_blocks.py', 'TypeBlocks.transpose',
  'array = np.concatenate(blocks)', 'array = np.vstack(blocks)', 'F2', 'TypeBlocks.transpose')
B('F2-transpose-no-cast', ['C07'], 'type_blocks.py', 'TypeBlocks.transpose',
  '            if b.dtype != self._row_dtype:\n                b = b.astype(self._row_dtype)\n', '', 'F2', 'TypeBlocks.transpose')
B('F3-bool-guard-dropped', ['C07'], 'util.py', 'resolve_dtype',
  '            or dt1_is_bool or dt2_is_bool\n', '', 'F3', 'resolve_dtype')
B('F3-str-family-one-sided', ['C07'], 'util.py', 'resolve_dtype',
  'if dt1_is_str and dt2_is_str:', 'if dt1_is_str or dt2_is_str:', 'F3', 'resolve_dtype')
B('F3-row-dtype-not-widened', ['C07', 'C16'], 'type_blocks.py', 'TypeBlocks.append',
  'self._row_dtype = DTYPE_OBJECT', 'pass', 'F3', 'TypeBlocks.append')
B('F3-str-nonstr-not-object', ['C07'], 'util.py', 'prepare_iter_for_array',
  'if has_tuple or has_enum or (has_str and has_non_str):', 'if has_tuple or has_enum:', 'F3', 'prepare_iter_for_array')
N('F-rename-resolved-local', ['C07'], 'index.py', 'Index.fillna',
  '        assignable_dtype = resolve_dtype(value_dtype, values.dtype)\n\n        if values.dtype == assignable_dtype:\n            assigned = values.copy()\n        else:\n            assigned = values.astype(assignable_dtype)',
  '        dt = resolve_dtype(value_dtype, values.dtype)\n\n        if values.dtype == dt:\n            assigned = values.copy()\n        else:\n            assigned = values.astype(dt)')
N('F-noteq-form', ['C07'], 'series.py', 'Series.fillna',
  '        if values.dtype == assignable_dtype:\n            assigned = values.copy()\n        else:\n            assigned = values.astype(assignable_dtype)',
  '        if values.dtype != assignable_dtype:\n            assigned = values.astype(assignable_dtype)\n        else:\n            assigned = values.copy()')
# the agent-seeded C12 fast path
B('S-order-ignores-key', ['C12'], 'container_util.py', 'sort_index_for_order',
  "    else:\n        # depth is 1\n        v = cfs if cfs_is_array else cfs.values", "    elif not cfs_is_array and index.depth == 1 and index._map is None:\n        order = index.positions\n    else:\n        # depth is 1\n        v = cfs if cfs_is_array else cfs.values", 'I.order-from', 'sort_index_for_order')

# ---------------------------------------------------------------------------------- parallel (C18)
B('P-as-completed', ['C18'], 'batch.py', 'Batch._apply_pool_except',
  "                for label, future in zip(labels, futures):", "                from concurrent.futures import as_completed\n                for label, future in zip(labels, as_completed(futures)):", 'I.parallel-ordered', None)
B('P-label-after-yield', ['C18'], 'batch.py', 'Batch.apply',
  "                labels.append(label)\n                yield frame, func", "                yield frame, func\n                labels.append(label)", 'I.parallel-label', 'arg_gen')
B('P-labels-precomputed', ['C18'], 'node_iter.py', 'IterNodeDelegate._apply_iter_items_parallel',
  "            yield from zip(func_keys,", "            yield from zip(sorted(func_keys, key=str),", 'I.parallel-label', '_apply_iter_items_parallel')
B('P-wrong-label', ['C18'], 'batch.py', 'Batch.apply_items',
  "                labels.append(label)\n                yield frame, func, label", "                labels.append(frame.name)\n                yield frame, func, label", 'I.parallel-label', 'arg_gen')
B('P-swallow-errors', ['C18'], 'batch.py', 'Batch._apply_pool',
  "                yield from zip(labels,\n                        executor.map(caller, arg_iter, chunksize=self._chunksize)\n                        )", "                try:\n                    yield from zip(labels,\n                        executor.map(caller, arg_iter, chunksize=self._chunksize)\n                        )\n                except Exception:\n                    return", 'I.parallel-errors', '_apply_pool')
B('P-except-catches-all', ['C18'], 'batch.py', 'Batch._apply_pool_except',
  "                    except exception:\n                        continue", "                    except Exception:\n                        continue", 'I.parallel-errors', '_apply_pool_except')
B('P-chunksize-ignored', ['C18'], 'batch.py', 'Batch._apply_pool',
  "executor.map(caller, arg_iter, chunksize=self._chunksize)", "executor.map(caller, arg_iter, chunksize=1)", 'I.parallel-ordered', '_apply_pool')
B('P-align-attr-dropped', ['C18', 'C17'], 'store.py', 'StoreConfigMap',
  "            'read_chunksize',\n", "", 'I.parallel-config', None)
B('P-zip-read-paths-diverge', ['C18', 'C17'], 'store_zip.py', '_StoreZip.read_many',
  "            yield from gen() # type: ignore", "            yield from reversed(tuple(gen())) # type: ignore", 'I.parallel-config', 'read_many')
N('P-rename-labels-list', ['C18'], 'batch.py', 'Batch.apply',
  "        labels = []\n        def arg_gen() -> tp.Iterator[tp.Tuple[FrameOrSeries, AnyCallable]]:\n            for label, frame in self._items:\n                labels.append(label)\n                yield frame, func\n\n        return self._apply_pool(labels, arg_gen(), call_func)",
  "        keys = []\n        def arg_gen() -> tp.Iterator[tp.Tuple[FrameOrSeries, AnyCallable]]:\n            for label, frame in self._items:\n                keys.append(label)\n                yield frame, func\n\n        return self._apply_pool(keys, arg_gen(), call_func)")

# ---------------------------------------------------------------------------------- blocks (C03)
B('K-raw-ctor-in-round', ['C03', 'C01'], 'type_blocks.py', 'TypeBlocks.__round__',
  "        return self.from_blocks(\n                self._ufunc_blocks(column_key=NULL_SLICE, func=func),\n                shape_reference=self._shape,\n                )",
  "        return self.__class__(\n                blocks=list(self._ufunc_blocks(column_key=NULL_SLICE, func=func)),\n                dtypes=self._dtypes.copy(),\n                index=self._index.copy(),\n                shape=self._shape\n                )", ('I.typeblocks-raw', 'A-R1'), '__round__')
B('K-copy-shares-directory', ['C03', 'C09'], 'type_blocks.py', 'TypeBlocks.__copy__',
  'dtypes=self._dtypes.copy(), # list', 'dtypes=self._dtypes,', 'I.typeblocks-raw', '__copy__')
B('K-from-blocks-skip-dtypes', ['C03'], 'type_blocks.py', 'TypeBlocks.from_blocks',
  '                    index.append((block_count, i))\n                    dtypes.append(block.dtype)', '                    index.append((block_count, i))', 'D1.from-blocks', 'from_blocks')
B('K-from-blocks-counter-early', ['C03'], 'type_blocks.py', 'TypeBlocks.from_blocks',
  '                blocks.append(immutable_filter(block))\n', '                blocks.append(immutable_filter(block))\n                block_count += 1\n', 'D1.from-blocks', 'from_blocks')
B('K-from-blocks-no-row-check', ['C03'], 'type_blocks.py', 'TypeBlocks.from_blocks',
  "                if row_count is not None and r != row_count: #type: ignore [unreachable]\n                    raise ErrorInitTypeBlocks(f'mismatched row count: {r}: {row_count}')\n                else: # assign on first\n                    row_count = r",
  "                row_count = r", 'D1.from-blocks', 'from_blocks')
B('K-frame-init-no-column-check', ['C03'], 'frame.py', 'Frame.__init__',
  "        if self._blocks.shape[1] != col_count:\n            raise ErrorInitFrame(\n                f'Columns has incorrect size (got {self._blocks.shape[1]}, expected {col_count})'\n                )", "        pass", 'I.final-shape', 'Frame.__init__')
B('K-frame-init-early-return', ['C03'], 'frame.py', 'Frame.__init__',
  "        if blocks_constructor:\n            # if we have a blocks_constructor if is because data remained FRAME_INITIALIZER_DEFAULT\n            blocks_constructor((row_count, col_count))",
  "        if blocks_constructor:\n            blocks_constructor((row_count, col_count))\n            return", 'I.final-shape', 'Frame.__init__')
B('K-series-init-no-size-check', ['C03'], 'series.py', 'Series.__init__',
  "        if value_count != index_count:", "        if False:", 'I.final-shape', 'Series.__init__')
N('K-copy-list-spelling', ['C03'], 'type_blocks.py', 'TypeBlocks.__copy__',
  'blocks=[b for b in self._blocks],', 'blocks=list(self._blocks),')

# ---------------------------------------------------------------------------------- concat (C11)
B('CC-no-align', ['C11'], 'frame.py', 'Frame.from_concat',
  "                    if len(frame.index) != len(index) or (frame.index != index).any():\n                        frame = frame.reindex(index=index, fill_value=fill_value)\n", "", 'E.concat-sequence', 'blocks')
B('CC-align-length-only', ['C11'], 'frame.py', 'Frame.from_concat',
  "if len(frame.columns) != len(columns) or (frame.columns != columns).any():", "if len(frame.columns) != len(columns):", 'E.concat-sequence', 'blocks')
B('CC-fill-value-dropped', ['C11'], 'frame.py', 'Frame.from_concat',
  "frame = frame.reindex(columns=columns, fill_value=fill_value)", "frame = frame.reindex(columns=columns)", 'E.concat-sequence', 'blocks')
B('CC-dup-swallowed', ['C11'], 'frame.py', 'Frame.from_concat',
  "                except ErrorInitIndexNonUnique:\n                    raise ErrorInitFrame('Index names after vertical concatenation are not unique; supply an index argument or IndexAutoFactory.')\n                own_index = True",
  "                except ErrorInitIndexNonUnique:\n                    index = None\n                own_index = True", 'E.concat-sequence', 'from_concat')
B('CC-frames-sorted', ['C11'], 'frame.py', 'Frame.from_concat',
  "        own_columns = False\n        own_index = False\n\n        if not frames:", "        own_columns = False\n        own_index = False\n        frames.sort(key=len)\n\n        if not frames:", 'E.concat-sequence', 'from_concat')
B('CC-labels-filtered', ['C11'], 'frame.py', 'Frame.from_concat',
  "index = index_many_concat((f._index for f in frames), Index)", "index = index_many_concat((f._index for f in frames if len(f._index)), Index)", 'E.concat-sequence', 'from_concat')
B('CC-axis-asymmetry', ['C11'], 'frame.py', 'Frame.from_concat',
  "                columns = index_many_set(\n                        (f._columns for f in frames),\n                        cls._COLUMNS_CONSTRUCTOR,\n                        union=union,\n                        )",
  "                columns = index_many_set(\n                        (f._columns for f in frames),\n                        cls._COLUMNS_CONSTRUCTOR,\n                        union=True,\n                        )", 'E.concat-sequence', 'from_concat')
B('CC-items-second-pass', ['C11'], 'series.py', 'Series.from_concat_items',
  "                array_values.append(series.values)\n                yield label, series._index", "                yield label, series._index\n        array_values.extend(s.values for _, s in sorted(items, key=lambda p: str(p[0])))\n        if False:\n                yield None", 'E.concat-items', 'Series.from_concat_items')
B('CC-vstack-raw-concat', ['C11', 'C07'], 'type_blocks.py', 'TypeBlocks.vstack_blocks_to_blocks',
  "                yield concat_resolved(block_parts) # returns immutable array", "                yield np.concatenate(block_parts)", ('E.concat-items', 'F2'), 'vstack_blocks_to_blocks')
B('CC-overlay-assign', ['C11'], 'series.py', 'Series.from_overlay',
  "            post = post.fillna(container)", "            post = post.assign[container.index.intersection(post.index)](container)", 'I.overlay', 'Series.from_overlay')
B('CC-overlay-reversed', ['C11'], 'frame.py', 'Frame.from_overlay',
  "        containers_iter = iter(containers)", "        containers_iter = iter(reversed(containers))", 'I.overlay', 'Frame.from_overlay')
N('CC-mirror-comment', ['C11'], 'frame.py', 'Frame.from_concat',
  "                columns = None # let default creation happen", "                columns = None # default creation")

# ---------------------------------------------------------------------------------- group (C13)
B('G-selection-shifted', ['C13'], 'series.py', 'Series._axis_group_items',
  'selection = locations == idx', 'selection = locations >= idx', 'I.group-partition', 'Series._axis_group_items')
B('G-enumerate-start', ['C13'], 'frame.py', 'Frame._axis_group_labels_items',
  'for idx, group in enumerate(groups):', 'for idx, group in enumerate(groups[::-1]):', 'I.group-partition', '_axis_group_labels_items')
B('G-groups-resorted', ['C13'], 'type_blocks.py', 'TypeBlocks.group',
  '        if unique_axis is not None:', '        groups = np.sort(groups)\n        if unique_axis is not None:', 'I.group-partition', 'TypeBlocks.group')
B('G-labels-whole', ['C13'], 'frame.py', 'Frame._axis_group_labels_items',
  'index=self._index[selection],', 'index=self._index,', 'E.pair[group]', '_axis_group_labels_items')
B('G-axis-crossed', ['C13'], 'frame.py', 'Frame._axis_group_iloc_items',
  '                        index=self._index,\n                        columns=self._columns[selection],', '                        index=self._index[selection],\n                        columns=self._columns,', 'E.pair[group]', '_axis_group_iloc_items')
B('G-typeblocks-other-selection', ['C13'], 'type_blocks.py', 'TypeBlocks.group',
  'yield g, selection, self._extract(row_key=selection)', 'yield g, selection, self._extract(row_key=np.flatnonzero(selection)[::-1])', 'E.pair[group]', 'TypeBlocks.group')
B('G-sort-unstable', ['C13'], 'frame.py', 'Frame._axis_group_sort_items',
  'frame_sorted: Frame = self.sort_values(key, axis=not axis)', "frame_sorted: Frame = self.sort_values(key, axis=not axis, kind='quicksort')", 'I.group-sort', '_axis_group_sort_items')
B('G-run-label-off-by-one', ['C13'], 'frame.py', 'Frame._axis_group_sort_items',
  'yield group_values[start], extract_frame(slc, index[slc])', 'yield group_values[t], extract_frame(slc, index[slc])', 'I.group-sort', '_axis_group_sort_items')
B('G-last-run-dropped', ['C13'], 'frame.py', 'Frame._axis_group_sort_items',
  '        yield group_values[start], extract_frame(slice(start, None), index[start:])', '        pass', 'I.group-sort', '_axis_group_sort_items')
B('G-slices-differ', ['C13'], 'frame.py', 'Frame._axis_group_sort_items',
  'extract_frame(slc, index[slc])', 'extract_frame(slc, index[start:t + 1])', 'I.group-sort', '_axis_group_sort_items')
N('G-swap-eq-operands', ['C13'], 'series.py', 'Series._axis_group_labels_items',
  'selection = locations == idx', 'selection = idx == locations')

# ---------------------------------------------------------------------------------- block offsets (C03), resolver coverage (C07, C08)
B('O-continue-skips-advance', ['C03'], 'type_blocks.py', 'TypeBlocks.extract_bloc',
  '                t_start = t_end\n                continue', '                continue', 'I.block-offset-discipline', 'extract_bloc')
B('O-new-continue-before-advance', ['C03'], 'type_blocks.py', 'TypeBlocks._assign_from_bloc_by_unit',
  '                yield block\n            else:', '                yield block\n                continue\n            else:', 'I.block-offset-discipline', '_assign_from_bloc_by_unit')
N('O-advance-augmented', ['C03'], 'type_blocks.py', 'TypeBlocks._assign_from_bloc_by_unit',
  't_start = t_end # always update start', 't_start += t_end - t_start')
N('O-continue-with-advance', ['C03'], 'type_blocks.py', 'TypeBlocks._assign_from_bloc_by_unit',
  '                yield block\n            else:', '                yield block\n                t_start = t_end\n                continue\n            else:')
B('F1-resolver-first-member-only', ['C07', 'C08'], 'type_blocks.py', 'TypeBlocks._assign_from_iloc_by_blocks',
  'assigned_dtype = resolve_dtype_iter(\n                            chain((a.dtype for a in assigned_blocks), (b.dtype,)))',
  'assigned_dtype = resolve_dtype(assigned_blocks[0].dtype, b.dtype)', 'F1.resolver-coverage', '_assign_from_iloc_by_blocks')
B('F1-dtype-captured-before-reindex', ['C07', 'C08'], 'series.py', 'SeriesAssign.__call__',
  "        if isinstance(value, Series):\n", "        if isinstance(value, Series):\n            value_dtype = value.dtype\n", 'F1.dtype-captured', 'SeriesAssign.__call__',
  edits=[dict(file='series.py', within='SeriesAssign.__call__', find="        if isinstance(value, Series):\n", replace="        if isinstance(value, Series):\n            value_dtype = value.dtype\n"),
         dict(file='series.py', within='SeriesAssign.__call__', find="\n        if value.__class__ is np.ndarray:", replace="\n        elif value.__class__ is np.ndarray:")])
N('F1-resolver-chain-swapped', ['C07', 'C08'], 'type_blocks.py', 'TypeBlocks._assign_from_iloc_by_blocks',
  'chain((a.dtype for a in assigned_blocks), (b.dtype,))', 'chain((b.dtype,), (a.dtype for a in assigned_blocks))')

# ---------------------------------------------------------------------------------- alignment / set shortcuts (C06)
B('AL-series-other-not-reindexed', ['C06'], 'series.py', 'Series._ufunc_binary_operator',
  'other = other.reindex(index, own_index=True, check_equals=False).values', 'other = other.values', 'E.align', 'Series._ufunc_binary_operator')
B('AL-series-label-self-index', ['C06'], 'series.py', 'Series._ufunc_binary_operator',
  'index = self._index.union(other._index)\n', 'index_u = self._index.union(other._index)\n                index = self._index\n', 'E.align', 'Series._ufunc_binary_operator')
B('AL-frame-series-wrong-axis-label', ['C06'], 'frame.py', 'Frame._ufunc_binary_operator',
  '                return self.__class__(blocks,\n                        index=index,\n                        columns=self._columns,',
  '                return self.__class__(blocks,\n                        index=self._index,\n                        columns=self._columns,', 'E.align', 'Frame._ufunc_binary_operator')
B('AL-frame-other-different-union', ['C06'], 'frame.py', 'Frame._ufunc_binary_operator',
  'other_array = other.reindex(columns, own_index=True).values', 'other_array = other.reindex(other._index.union(self._columns), own_index=True).values', 'E.align', 'Frame._ufunc_binary_operator')
B('AL-operands-swapped', ['C06'], 'series.py', 'Series._ufunc_binary_operator',
  '                values=values,\n                other=other,', '                values=other,\n                other=values,', 'E.align', 'Series._ufunc_binary_operator')
B('AX-reindex-columns-vs-index', ['C06'], 'frame.py', 'Frame.reindex',
  'if check_equals and self._columns.equals(columns):', 'if check_equals and self._index.equals(columns):', 'I.axis-crossing', 'Frame.reindex')
B('AX-correspondence-crossed', ['C06'], 'frame.py', 'Frame.reindex',
  'columns_ic = IndexCorrespondence.from_correspondence(self._columns, columns)', 'columns_ic = IndexCorrespondence.from_correspondence(self._index, columns)', 'I.axis-crossing', 'Frame.reindex')
N('AL-rename-union-local', ['C06'], 'series.py', 'Series._ufunc_binary_operator',
  '                index = self._index.union(other._index)\n                # now need to reindex the Series\n                values = self.reindex(index, own_index=True, check_equals=False).values\n                other = other.reindex(index, own_index=True, check_equals=False).values',
  '                union = self._index.union(other._index)\n                index = union\n                values = self.reindex(union, own_index=True, check_equals=False).values\n                other = other.reindex(union, own_index=True, check_equals=False).values')
B('SS-union-returns-array-nonempty', ['C06'], 'util.py', '_ufunc_set_1d',
  '            if len(array) == 0:\n                return other\n            elif len(other) == 0:\n                return array', '            if len(array) == 0:\n                return other\n            elif len(other) >= 0:\n                return array', 'I.set-shortcuts', '_ufunc_set_1d')
B('SS-shortcut-without-unique', ['C06'], 'util.py', '_ufunc_set_2d',
  '    if assume_unique:\n        # can only return arguments', '    if True:\n        # can only return arguments', 'I.set-shortcuts', '_ufunc_set_2d')
B('SS-difference-equal-returns-array', ['C06'], 'util.py', '_ufunc_set_1d',
  '            if arrays_are_equal:\n                if is_difference:', '            if arrays_are_equal:\n                if is_intersection and is_difference:', 'I.set-shortcuts', '_ufunc_set_1d')
B('SS-equal-shortcut-needs-dtype', ['C06'], 'util.py', '_ufunc_set_1d',
  '        if len(array) == len(other):', '        if len(array) == len(other) and array.dtype == other.dtype:', 'I.set-shortcuts', '_ufunc_set_1d')
B('SS-siblings-diverge', ['C06'], 'util.py', '_ufunc_set_2d',
  '        elif is_difference:\n            if len(other) == 0:\n                return array\n\n        if array.shape == other.shape:', '        if array.shape == other.shape:', 'I.set-shortcuts', '_ufunc_set_2d')
B('AU-ndarray-assumed-unique', ['C06'], 'index.py', 'Index._ufunc_set',
  '            operand = other\n            assume_unique = False', '            operand = other\n            assume_unique = True', 'I.assume-unique', 'Index._ufunc_set')
B('AU-iterable-assumed-unique', ['C06'], 'index_hierarchy.py', 'IndexHierarchy._ufunc_set',
  '            operand = iterable_to_array_2d(other) #type: ignore\n            assume_unique = False', '            operand = iterable_to_array_2d(other) #type: ignore\n            assume_unique = True', 'I.assume-unique', 'IndexHierarchy._ufunc_set')
N('SS-swap-len-test', ['C06'], 'util.py', '_ufunc_set_1d',
  '    if assume_unique:\n        # can only return arguments', '    if assume_unique is True or assume_unique:\n        # can only return arguments')

# ---------------------------------------------------------------------------------- windows (C13)
B('W-stop-unfloored', ['C13'], 'container_util.py', 'axis_window_items',
  'key = slice(idx_left_floored, idx_right_floored + 1)', 'key = slice(idx_left_floored, idx_right + 1)', 'I.window-slice', 'axis_window_items')
B('W-start-unfloored', ['C13'], 'container_util.py', 'axis_window_items',
  'key = slice(idx_left_floored, idx_right_floored + 1)', 'key = slice(idx_left, idx_right_floored + 1)', 'I.window-slice', 'axis_window_items')
B('W-label-wraps', ['C13'], 'container_util.py', 'axis_window_items',
  '            if idx_label < 0: # do not wrap around\n                raise IndexError()\n', '', 'I.window-slice', 'axis_window_items')
B('W-axis-crossed', ['C13'], 'container_util.py', 'axis_window_items',
  'window = source._extract(column_key=key) #type: ignore', 'window = source._extract(row_key=key) #type: ignore', 'I.window-slice', 'axis_window_items')
B('W-labels-other-axis', ['C13'], 'container_util.py', 'axis_window_items',
  'labels = source._index if axis == 0 else source._columns #type: ignore', 'labels = source._columns if axis == 0 else source._index #type: ignore', 'I.window-slice', 'axis_window_items')
N('W-floor-with-max', ['C13'], 'container_util.py', 'axis_window_items',
  'idx_left_floored = idx_left if idx_left > 0 else 0', 'idx_left_floored = max(idx_left, 0)')
N('W-rename-flag', ['C13'], 'container_util.py', 'axis_window_items',
  '        valid = True\n        try:', '        valid = True\n        pass\n        try:')

# ---------------------------------------------------------------------------------- missing values (C14)
B('NA-store-whole', ['C14'], 'series.py', 'Series._fillna_sided',
  '        assigned[sel_slice] = value\n', '        assigned[NULL_SLICE] = value\n', 'I.na-mask-derived', '_fillna_sided')
B('NA-store-by-position', ['C14'], 'series.py', 'Series.fillna',
  '        assigned[sel] = value\n', '        assigned[:len(values)] = value\n', 'I.na-mask-derived', 'Series.fillna')
B('NA-fill-targets-notna', ['C14'], 'type_blocks.py', 'TypeBlocks.fillna',
  'targets=(isna_array(b) for b in self._blocks),', 'targets=(~isna_array(b) for b in self._blocks),', 'I.na-fill-targets', 'TypeBlocks.fillna')
B('NA-dropna-keeps-dropped', ['C14'], 'type_blocks.py', 'TypeBlocks.dropna_to_keep_locations',
  'to_keep = np.logical_not(to_drop)', 'to_keep = to_drop', 'I.na-fill-targets', 'dropna_to_keep_locations')
B('NA-dropna-keys-swapped', ['C14'], 'frame.py', 'Frame.dropna',
  'return self._extract(row_key, column_key)', 'return self._extract(column_key, row_key)', 'I.na-fill-targets', 'Frame.dropna')
B('NA-series-dropna-labels-whole', ['C14'], 'series.py', 'Series.dropna',
  'index=self._index.loc[sel],', 'index=self._index.loc[~sel],', 'I.na-fill-targets', 'Series.dropna')
B('NA-leading-uses-last', ['C14'], 'series.py', 'Series._fillna_sided',
  'sel_slice = slice(0, targets[0])', 'sel_slice = slice(0, targets[-1])', 'I.na-sided', '_fillna_sided')
B('NA-trailing-off-by-one', ['C14'], 'type_blocks.py', 'TypeBlocks._fillna_sided_axis_0',
  'sel_slice = slice(targets[-1]+1, None)', 'sel_slice = slice(targets[-1], None)', 'I.na-sided', '_fillna_sided_axis_0')
B('NA-direction-flag-flipped', ['C14'], 'type_blocks.py', 'TypeBlocks._fillna_directional_axis_1',
  '                                if directional_forward:\n                                    sel_slice = slice(0, targets[0])', '                                if not directional_forward:\n                                    sel_slice = slice(0, targets[0])', 'I.na-sided', '_fillna_directional_axis_1')
B('NA-counter-overwritten', ['C14'], 'type_blocks.py', 'TypeBlocks._fillna_directional_axis_1',
  '                            # update with full length or limited length?\n                            bridging_count[idx] += sided_len # type: ignore',
  '                            bridging_count[idx] = len(range(*sel_slice.indices(length))) # type: ignore', 'I.accumulator', '_fillna_directional_axis_1')
N('NA-rename-mask', ['C14'], 'series.py', 'Series._fillna_sided',
  '        sel = isna_array(array)\n\n        if not np.any(sel):\n            return array\n\n        sided_index = 0 if sided_leading else -1\n\n        if not sel[sided_index]:',
  '        missing = isna_array(array)\n        sel = missing\n\n        if not np.any(sel):\n            return array\n\n        sided_index = 0 if sided_leading else -1\n\n        if not sel[sided_index]:')

# ---------------------------------------------------------------------------------- quilt (C19)
B('Q-component-axes-crossed', ['C19'], 'quilt.py', 'Quilt._extract',
  'component = self._bus.loc[key].iloc[opposite_key, sel_component]', 'component = self._bus.loc[key].iloc[sel_component, opposite_key]', 'I.quilt-axis', 'Quilt._extract')
B('Q-mask-from-opposite', ['C19'], 'quilt.py', 'Quilt._extract_array',
  '        sel[sel_key] = True', '        sel[opposite_key] = True', 'I.quilt-axis', 'Quilt._extract_array')
B('Q-join-wrong-axis', ['C19'], 'quilt.py', 'Quilt._extract',
  'return Frame.from_concat(parts, axis=self._axis) #type: ignore', 'return Frame.from_concat(parts, axis=0) #type: ignore', 'I.quilt-axis', 'Quilt._extract')
B('Q-bare-concatenate', ['C19'], 'quilt.py', 'Quilt._extract_array',
  '        return concat_resolved(parts, axis=self._axis)', '        return np.concatenate(parts, axis=self._axis)', ('I.quilt-axis', 'F2'), 'Quilt._extract_array')
B('Q-level-wrong-axis', ['C19'], 'quilt.py', 'Quilt._extract',
  'component = component.relabel_level_add(columns=key)', 'component = component.relabel_level_add(index=key)', 'I.quilt-axis', 'Quilt._extract')
N('Q-rename-component', ['C19'], 'quilt.py', 'Quilt._extract_array',
  '            sel_component = sel[self._axis_map.index._loc_to_iloc(HLoc[key])]\n\n            if self._axis == 0:\n                component = self._bus.loc[key]._extract_array(sel_component, opposite_key)',
  '            part_mask = sel[self._axis_map.index._loc_to_iloc(HLoc[key])]\n            sel_component = part_mask\n\n            if self._axis == 0:\n                component = self._bus.loc[key]._extract_array(part_mask, opposite_key)')

# ---------------------------------------------------------------------------------- bus reader (C17)
B('BR-labels-from-live-mask', ['C17'], 'bus.py', 'Bus._update_series_cache_iloc',
  'labels=(label for label, f in targets.items() if f is FrameDeferred),', 'labels=(label for label, loaded in zip(targets._index, self._loaded[key]) if not loaded),', 'I.bus-reader-consumer', '_update_series_cache_iloc')
B('BR-filter-differs', ['C17'], 'bus.py', 'Bus._update_series_cache_iloc',
  'labels=(label for label, f in targets.items() if f is FrameDeferred),', 'labels=(label for label, f in targets.items() if f is not None),', 'I.bus-reader-consumer', '_update_series_cache_iloc')
N('BR-rename-gen-vars', ['C17'], 'bus.py', 'Bus._update_series_cache_iloc',
  'labels=(label for label, f in targets.items() if f is FrameDeferred),', 'labels=(lb for lb, fr in targets.items() if fr is FrameDeferred),')

# ---------------------------------------------------------------------------------- pivot (C20)
B('PV-reindex-guard-removed', ['C20'], 'frame.py', 'Frame.pivot',
  '            if index_depth > 1 and not f.index.equals(index_inner):\n                f = f.reindex(index_inner, own_index=True, check_equals=False) #pragma: no cover\n', '', 'I.pivot-positional', 'Frame.pivot')
B('PV-concat-without-index', ['C20'], 'frame.py', 'Frame.pivot',
  '            f = self.__class__.from_concat(sub_frames,\n                    index=index_inner,', '            f = self.__class__.from_concat(sub_frames,', 'I.pivot-positional', 'Frame.pivot')
N('PV-guard-split', ['C20'], 'frame.py', 'Frame.pivot',
  '            if index_depth > 1 and not f.index.equals(index_inner):\n                f = f.reindex(index_inner, own_index=True, check_equals=False) #pragma: no cover\n',
  '            if index_depth > 1:\n                if not f.index.equals(index_inner):\n                    f = f.reindex(index_inner, own_index=True, check_equals=False)\n')

# ---------------------------------------------------------------------------------- reductions (C15)
B('R-cast-2d-only', ['C15', 'C03'], 'type_blocks.py', 'TypeBlocks.ufunc_axis_skipna',
  'if astype_pre and b.dtype != dtype:', 'if astype_pre and b.ndim == 2 and b.dtype != dtype:', 'I.layout-independent', 'ufunc_axis_skipna')
B('R-axis0-labelled-by-index', ['C15'], 'frame.py', 'Frame._ufunc_axis_skipna',
  '                    index=immutable_index_filter(self._columns)\n                    )\n        return Series(post, index=self._index)', '                    index=self._index\n                    )\n        return Series(post, index=self._index)', 'E.axis-labels', '_ufunc_axis_skipna')
B('R-locmin-labels-crossed', ['C15'], 'frame.py', 'Frame.loc_min',
  '        return Series(self.columns.values[post], index=self._index)', '        return Series(self.index.values[post], index=self._index)', 'E.axis-labels', 'Frame.loc_min')
B('R-locmax-uses-argmin', ['C15'], 'frame.py', 'Frame.loc_max',
  'post = argmax_2d(self.values, skipna=skipna, axis=axis)', 'post = argmin_2d(self.values, skipna=skipna, axis=axis)', 'E.axis-labels', 'Frame.loc_max')
B('R-iloc-axis-dropped', ['C15'], 'frame.py', 'Frame.iloc_min',
  'post = argmin_2d(self.values, skipna=skipna, axis=axis)', 'post = argmin_2d(self.values, skipna=skipna, axis=0)', 'E.axis-labels', 'Frame.iloc_min')
B('R-count-labels-crossed', ['C15'], 'frame.py', 'Frame.count',
  'labels = self._columns if axis == 0 else self._index', 'labels = self._index if axis == 0 else self._columns', 'E.axis-labels', 'Frame.count')
B('R-skipna-inverted', ['C15'], 'util.py', 'ufunc_axis_skipna',
  '    if skipna:\n        return ufunc_skipna(v, axis=axis, out=out)\n    return ufunc(v, axis=axis, out=out)', '    if not skipna:\n        return ufunc_skipna(v, axis=axis, out=out)\n    return ufunc(v, axis=axis, out=out)', 'I.skipna-selects', 'ufunc_axis_skipna')
B('R-skipna-not-forwarded', ['C15'], 'frame.py', 'Frame._ufunc_axis_skipna',
  '                skipna=skipna,\n                axis=axis,', '                skipna=True,\n                axis=axis,', 'E.axis-labels', '_ufunc_axis_skipna')
B('R-cumulative-skip-swapped', ['C15'], 'frame.py', 'Frame._ufunc_shape_skipna',
  '        if skipna:\n            post = ufunc_skipna(v, axis=axis, dtype=dtype)', '        if not skipna:\n            post = ufunc_skipna(v, axis=axis, dtype=dtype)', 'E.axis-labels', '_ufunc_shape_skipna')
N('R-axis-test-flipped-form', ['C15'], 'frame.py', 'Frame.iloc_max',
  '        if axis == 0:\n            return Series(post, index=immutable_index_filter(self._columns))\n        return Series(post, index=self._index)',
  '        if axis == 1:\n            return Series(post, index=self._index)\n        return Series(post, index=immutable_index_filter(self._columns))')

# ---------------------------------------------------------------------------------- option forwarding (C16)
B('FW-store-filter-dropped', ['C16'], 'frame.py', 'Frame.from_delimited',
  '                store_filter=store_filter,\n', '', 'I.same-name-forwarding', 'from_delimited')
B('FW-csv-quote-char-dropped', ['C16'], 'frame.py', 'Frame.from_csv',
  '                quote_char=quote_char,\n', '', 'I.same-name-forwarding', 'from_csv')
N('FW-keyword-to-position', ['C16'], 'frame.py', 'Frame.from_tsv',
  'return cls.from_delimited(fp,', 'return cls.from_delimited(fp=fp,')

# ---------------------------------------------------------------------------------- set_index family (C20)
B('SI-drop-other-column', ['C20'], 'frame.py', 'Frame.set_index',
  '            columns = self._columns._drop_iloc(column_iloc)\n            own_data = True', '            columns = self._columns._drop_iloc(0)\n            own_data = True', 'E.pair[set-index]', 'Frame.set_index')
B('SI-index-from-reordered', ['C20'], 'frame.py', 'Frame.set_index_hierarchy',
  '            blocks_src = self._blocks._extract(row_key=order_lex)', '            blocks_src = self._blocks', 'E.pair[set-index]', 'set_index_hierarchy')
B('SI-unset-labels-behind', ['C20'], 'frame.py', 'Frame.unset_index',
  '            columns = chain(self._index.names, self._columns.values)', '            columns = chain(self._columns.values, self._index.names)', 'E.pair[set-index]', 'unset_index')
B('SI-unset-blocks-behind', ['C20'], 'frame.py', 'Frame.unset_index',
  '            yield self.index.values # 2D immutable array\n            for b in self._blocks._blocks:\n                yield b', '            for b in self._blocks._blocks:\n                yield b\n            yield self.index.values', 'E.pair[set-index]', 'unset_index')
B('SI-name-dropped', ['C20'], 'frame.py', 'Frame.set_index',
  '                own_index=True,\n                name=self._name\n                )', '                own_index=True,\n                )', 'E.pair[set-index]', 'Frame.set_index')
N('SI-hoist-iloc', ['C20'], 'frame.py', 'Frame.set_index',
  '            index_values = self._blocks._extract_array(column_key=column_iloc)\n            name = column', '            key_pos = column_iloc\n            index_values = self._blocks._extract_array(column_key=key_pos)\n            name = column')

# ---------------------------------------------------------------------------------- option forwarding in other families
B('FW-fillna-limit-dropped', ['C14'], 'frame.py', 'Frame.fillna_forward',
  'self._blocks.fillna_forward(limit=limit, axis=axis)', 'self._blocks.fillna_forward(axis=axis)', 'I.same-name-forwarding', 'fillna_forward')
B('FW-window-step-dropped', ['C13'], 'frame.py', 'Frame._axis_window_items',
  '                step=step,\n', '', 'I.same-name-forwarding', '_axis_window_items')
B('FW-window-label-shift-dropped', ['C13'], 'frame.py', 'Frame._axis_window_items',
  '                label_shift=label_shift,\n', '', 'I.same-name-forwarding', '_axis_window_items')
B('FW-join-fill-value-dropped', ['C20'], 'frame.py', 'Frame.join_left',
  '                fill_value=fill_value,\n', '', ('I.same-name-forwarding', 'G8'), 'join_left')

# ---------------------------------------------------------------------------------- index views (C02, C05)
B('V-reversed-forward', ['C02'], 'index.py', 'Index.__reversed__',
  'return reversed(self._labels)', 'return iter(self._labels)', 'G.index-views', 'Index.__reversed__')
B('V-len-from-positions-cache', ['C02'], 'index.py', 'Index.__len__',
  'return len(self._labels)', 'return len(self._labels) - 0 if self._map is None else len(self._positions) + 0', 'G.index-views', 'Index.__len__')
B('V-ih-len-stale-table', ['C05', 'C02'], 'index_hierarchy.py', 'IndexHierarchy.__len__',
  '            return self._levels.__len__()\n        return self._blocks.__len__()', '            return self._blocks.__len__()\n        return self._blocks.__len__()', ('G.index-views', 'B.recache'), 'IndexHierarchy.__len__')
B('V-ih-reversed-not-reversed', ['C05', 'C02'], 'index_hierarchy.py', 'IndexHierarchy.__reversed__',
  'self._blocks.axis_values(1, reverse=True)', 'self._blocks.axis_values(1, reverse=False)', 'G.index-views', 'IndexHierarchy.__reversed__')
N('V-iter-builtin', ['C02'], 'index.py', 'Index.__reversed__',
  'return reversed(self._labels)', 'return iter(self._labels[::-1])')

# ---------------------------------------------------------------------------------- axis iteration (C03, C16)
B('AI-items-keys-crossed', ['C03', 'C16'], 'frame.py', 'Frame._axis_array_items',
  'keys = self._index if axis == 1 else self._columns', 'keys = self._columns if axis == 1 else self._index', 'E.axis-items', '_axis_array_items')
B('AI-series-name-crossed', ['C03'], 'frame.py', 'Frame._axis_series',
  '            labels = self._index\n        elif axis == 0:\n            index = self._index\n            labels = self._columns', '            labels = self._columns\n        elif axis == 0:\n            index = self._index\n            labels = self._index', 'E.axis-items', '_axis_series')
B('AI-pairs-major-minor-swapped', ['C03', 'C16'], 'frame.py', 'Frame.to_pairs',
  '            major = index_values\n            minor = columns_values\n        elif axis == 0:', '            major = columns_values\n            minor = index_values\n        elif axis == 0:', 'E.axis-items', 'to_pairs')
B('AI-tuple-axis-fixed', ['C03'], 'frame.py', 'Frame._axis_tuple_items',
  'self._axis_tuple(axis=axis, constructor=constructor)', 'self._axis_tuple(axis=1, constructor=constructor)', ('E.axis-items', 'I.same-name'), '_axis_tuple_items')
N('AI-keys-if-statement', ['C03', 'C16'], 'frame.py', 'Frame._axis_series_items',
  'keys = self._index if axis == 1 else self._columns', 'keys = self._columns if axis == 0 else self._index')

# ---------------------------------------------------------------------------------- cached leaf counts (C05, C09)
B('L-invalidate-root-and-grown-only', ['C05', 'C09'], 'index_level.py', 'IndexLevelGO.append',
  '        for node in edge_nodes:\n            node._length = None', '        self._length = None\n        edge_nodes[depth_not_found]._length = None', 'I.ancestor-cache', 'IndexLevelGO.append')
B('L-invalidate-slice', ['C05', 'C09'], 'index_level.py', 'IndexLevelGO.append',
  '        for node in edge_nodes:\n            node._length = None', '        for node in edge_nodes[depth_not_found:]:\n            node._length = None', 'I.ancestor-cache', 'IndexLevelGO.append')
N('L-invalidate-renamed', ['C05', 'C09'], 'index_level.py', 'IndexLevelGO.append',
  '        for node in edge_nodes:\n            node._length = None', '        for visited in edge_nodes:\n            visited._length = None')

# ---------------------------------------------------------------------------------- reindex correspondence (C06, C07)
B('IC-index-guard-dropped', ['C06', 'C07'], 'type_blocks.py', 'TypeBlocks.resize_blocks',
  '                    if index_ic.has_common:\n                        values[index_ic.iloc_dst] = b[index_ic.iloc_src]', '                    if True:\n                        values[index_ic.iloc_dst] = b[index_ic.iloc_src]', 'I.correspondence-guard', 'resize_blocks')
B('IC-both-axes-guard-dropped', ['C06', 'C07'], 'type_blocks.py', 'TypeBlocks.resize_blocks',
  '                                if index_ic.has_common:\n                                    if b.ndim == 1:', '                                if True:\n                                    if b.ndim == 1:', 'I.correspondence-guard', 'resize_blocks')
B('IC-columns-zip-unguarded', ['C06', 'C07'], 'type_blocks.py', 'TypeBlocks.resize_blocks',
  '                            ) if columns_ic.has_common else {}', '                            )', 'I.correspondence-guard', 'resize_blocks')
N('IC-guard-via-local', ['C06', 'C07'], 'type_blocks.py', 'TypeBlocks.resize_blocks',
  '                                if index_ic.has_common:\n                                    if b.ndim == 1:', '                                if index_ic.has_common is True or index_ic.has_common:\n                                    if b.ndim == 1:')

# ---------------------------------------------------------------------------------- key-steered descent (C02, C05, C09)
B('KD-position-check-removed', ['C05', 'C09', 'C02'], 'index_level.py', 'IndexLevelGO.append',
  "                elif node.targets is not None and node.index._loc_to_iloc(k) != node.index.__len__() - 1:", "                elif False:", 'I.descent-follows-key', 'IndexLevelGO.append')

# ---------------------------------------------------------------------------------- sort key dtypes (C12)
B('SK-keys-consolidated', ['C12'], 'frame.py', 'Frame.sort_values',
  '                cfs = self._blocks._extract(column_key=iloc_key) # get TypeBlocks\n                cfs_is_array = False', '                cfs = self._blocks._extract_array(column_key=iloc_key)\n                cfs_is_array = True', 'I.sort-keys-own-dtype', 'Frame.sort_values')

# ---------------------------------------------------------------------------------- nullable kinds (C14, C15)
B('NK-argminmax-skips-nat', ['C14', 'C15'], 'util.py', '_argminmax_2d',
  '    isna = isna_array(array)\n\n    isna_axis = isna.any(axis=axis)', '    if array.dtype.kind not in DTYPE_INEXACT_KINDS and array.dtype.kind != DTYPE_OBJECT_KIND:\n        return ufunc(array, axis=axis)\n    isna = isna_array(array)\n\n    isna_axis = isna.any(axis=axis)', 'I.nullable-kinds', '_argminmax_2d')
B('NK-isna-nat-dropped', ['C14'], 'util.py', 'isna_array',
  '    elif kind in DTYPE_NAT_KINDS:\n        return np.isnat(array)\n', '', ('I.nullable-kinds', 'G3'), 'isna_array')
N('NK-int-shortcut', ['C14', 'C15'], 'util.py', '_argminmax_2d',
  '    isna = isna_array(array)\n\n    isna_axis = isna.any(axis=axis)', '    if array.dtype.kind in DTYPE_INT_KINDS:\n        return ufunc(array, axis=axis)\n    isna = isna_array(array)\n\n    isna_axis = isna.any(axis=axis)')

# ---------------------------------------------------------------------------------- relabel_shift (C20)
B('RS-labels-ascending', ['C20'], 'frame.py', 'Frame.relabel_shift_out',
  'new_labels = (label_src[i] for i in depth_level)', 'new_labels = tuple(label for i, label in enumerate(label_src) if i in depth_level)', 'E.pair[relabel-shift]', 'relabel_shift_out')
B('RS-arrays-sorted-key', ['C20'], 'frame.py', 'Frame.relabel_shift_out',
  'add_blocks = target_tb._extract(column_key=depth_level)', 'add_blocks = target_tb._extract(column_key=sorted(depth_level))', 'E.pair[relabel-shift]', 'relabel_shift_out')
N('RS-labels-listcomp', ['C20'], 'frame.py', 'Frame.relabel_shift_out',
  'new_labels = (label_src[i] for i in depth_level)', 'new_labels = [label_src[pos] for pos in depth_level]')

# ---------------------------------------------------------------------------------- record width (C16)
B('RW-header-one-short', ['C16'], 'frame.py', 'Frame._to_str_records',
  "                        for col_idx in range(index_depth):\n                            row.append(f'{columns_names[row_idx]}' if col_idx == 0 else '')",
  "                        row.append(f'{columns_names[row_idx]}')\n                        row.extend(('' for _ in range(1, index_depth - 1)))", 'I.record-width', '_to_str_records')
B('RW-blank-apex-one-long', ['C16'], 'frame.py', 'Frame._to_str_records',
  "                        row.extend(('' for _ in range(index_depth)))", "                        row.extend(('' for _ in range(index_depth + 1)))", 'I.record-width', '_to_str_records')
N('RW-header-append-plus-extend', ['C16'], 'frame.py', 'Frame._to_str_records',
  "                        for col_idx in range(index_depth):\n                            row.append(f'{columns_names[row_idx]}' if col_idx == 0 else '')",
  "                        row.append(f'{columns_names[row_idx]}')\n                        row.extend(('' for _ in range(1, index_depth)))")

# ---------------------------------------------------------------------------------- removed NumPy API (C14, C08)
B('NP-in1d-back', ['C14', 'C08'], 'util.py', 'isin_array',
  'func = np.isin #', 'func = np.in1d if array.ndim == 1 else np.isin #', 'I.numpy-removed-api', None)

# ---------------------------------------------------------------------------------- sibling defaults
B('SD-sort-ascending-default', ['C12'], 'series.py', 'Series.sort_index',
  'ascending: bool = True,', 'ascending: bool = False,', 'G.sibling-defaults', None)
B('SD-fillna-limit-default', ['C14'], 'series.py', 'Series.fillna_forward',
  'limit: int = 0', 'limit: int = 1', 'G.sibling-defaults', None)
B('SD-window-step-default', ['C13'], 'frame.py', 'Frame._axis_window_items',
  'step: int = 1,', 'step: int = 0,', 'G.sibling-defaults', None)

# ---------------------------------------------------------------------------------- HLoc offsets (C04, C05)
B('HO-children-relative-offset', ['C05', 'C04'], 'index_level.py', 'IndexLevel.loc_to_iloc',
  'levels.append((level_targets, next_depth, next_offset))', 'levels.append((level_targets, next_depth, level.offset))', 'I.offset-accumulation', 'IndexLevel.loc_to_iloc')
B('HO-leaf-popped-offset', ['C05', 'C04'], 'index_level.py', 'IndexLevel.loc_to_iloc',
  '                            offset=next_offset,', '                            offset=offset,', 'I.offset-accumulation', 'IndexLevel.loc_to_iloc')
N('HO-accumulate-commuted', ['C05', 'C04'], 'index_level.py', 'IndexLevel.loc_to_iloc',
  'next_offset = offset + level.offset', 'next_offset = level.offset + offset')

# ---------------------------------------------------------------------------------- equals and NaT (C10)
B('NK-equals-skipna-kind-gated', ['C10'], 'type_blocks.py', 'TypeBlocks.equals',
  '        if skipna:\n            isna_self = self.isna(include_none=False)', '        if skipna and self._row_dtype is not None:\n            skipna = self._row_dtype.kind in DTYPE_INEXACT_KINDS or self._row_dtype.kind == DTYPE_OBJECT.kind\n        if skipna:\n            isna_self = self.isna(include_none=False)', 'I.nullable-kinds', 'TypeBlocks.equals')

VARIANTS = V

# ---------------------------------------------------------------------------------- slice cardinality (C03 / C08 / C10)
B('SC-single-row-span', ['C03'], 'type_blocks.py', 'TypeBlocks._slice_blocks',
  'if len(range(*row_key.indices(self._shape[0]))) == 1:', 'start, stop, _ = row_key.indices(self._shape[0])\n            if stop - start == 1:', 'I.slice-cardinality', '_slice_blocks')
B('SC-single-row-span-subscript', ['C03'], 'type_blocks.py', 'TypeBlocks._slice_blocks',
  'if len(range(*row_key.indices(self._shape[0]))) == 1:', 'bounds = row_key.indices(self._shape[0])\n            if bounds[1] - bounds[0] == 1:', 'I.slice-cardinality', '_slice_blocks')
B('SC-fill-limit-span', ['C10'], 'util.py', 'slices_from_targets',
  'shift = len(range(*target_slice.indices(length))) - limit', 'lo, hi, _step = target_slice.indices(length)\n                shift = (hi - lo) - limit', 'I.slice-cardinality', 'slices_from_targets')
B('SC-assign-width-span', ['C08'], 'type_blocks.py', 'TypeBlocks._assign_from_iloc_by_unit',
  'v_width = len(range(*target_key.indices(b.shape[1])))', 'k0, k1, _ = target_key.indices(b.shape[1])\n                        v_width = k1 - k0', 'I.slice-cardinality', '_assign_from_iloc_by_unit')
N('SC-single-row-unpacked-range', ['C03'], 'type_blocks.py', 'TypeBlocks._slice_blocks',
  'if len(range(*row_key.indices(self._shape[0]))) == 1:', 'start, stop, step = row_key.indices(self._shape[0])\n            if len(range(start, stop, step)) == 1:')
N('SC-single-row-ceil', ['C03'], 'type_blocks.py', 'TypeBlocks._slice_blocks',
  'if len(range(*row_key.indices(self._shape[0]))) == 1:', 'start, stop, step = row_key.indices(self._shape[0])\n            if step > 0 and 0 < stop - start <= step or step < 0 and 0 < start - stop <= -step:')

# ---------------------------------------------------------------------------------- zip member names (C17)
B('MN-replace-anywhere', ['C17'], 'store_zip.py', '_StoreZip.labels',
  'if strip_ext and self._EXT_CONTAINED and name.endswith(self._EXT_CONTAINED):\n                    # remove only the suffix added on write\n                    name = name[:-len(self._EXT_CONTAINED)]',
  "if strip_ext:\n                    name = name.replace(self._EXT_CONTAINED, '')", 'I.member-name-inverse', 'labels')
B('MN-split-first', ['C17'], 'store_zip.py', '_StoreZip.labels',
  'if strip_ext and self._EXT_CONTAINED and name.endswith(self._EXT_CONTAINED):\n                    # remove only the suffix added on write\n                    name = name[:-len(self._EXT_CONTAINED)]',
  "if strip_ext and self._EXT_CONTAINED:\n                    name = name.split(self._EXT_CONTAINED)[0]", 'I.member-name-inverse', 'labels')
N('MN-removesuffix', ['C17'], 'store_zip.py', '_StoreZip.labels',
  'if strip_ext and self._EXT_CONTAINED and name.endswith(self._EXT_CONTAINED):\n                    # remove only the suffix added on write\n                    name = name[:-len(self._EXT_CONTAINED)]',
  "if strip_ext:\n                    name = name.removesuffix(self._EXT_CONTAINED)")

# ---------------------------------------------------------------------------------- Quilt retained labels (C19)
B('QL-single-frame-shortcut', ['C19'], 'quilt.py', 'Quilt._extract',
  '            if self._retain_labels and self._axis == 0:\n                frames = (extractor(f.relabel_level_add(index=k))',
  '            if len(self._bus) == 1:\n                return extractor(self._bus.iloc[0])\n            if self._retain_labels and self._axis == 0:\n                frames = (extractor(f.relabel_level_add(index=k))',
  'I.quilt-retain-labels-consulted', '_extract')
B('QL-axis-labels-axis1-unconditional', ['C19'], 'quilt.py', 'Quilt._update_axis_labels',
  '            if not self._retain_labels:\n                self._columns = self._axis_map.index.level_drop(1) #type: ignore\n            else:\n                self._columns = self._axis_map.index\n',
  '            self._columns = self._axis_map.index.level_drop(1)\n', 'I.quilt-retain-labels-consulted', '_update_axis_labels')
N('QL-single-frame-shortcut-after-test', ['C19'], 'quilt.py', 'Quilt._extract',
  '            else:\n                frames = (extractor(f) for _, f in self._bus.items())\n',
  '            elif len(self._bus) == 1:\n                return extractor(self._bus.iloc[0])\n            else:\n                frames = (extractor(f) for _, f in self._bus.items())\n')

# ---------------------------------------------------------------------------------- Batch sequential / pooled agreement (C18)
B('PS-apply-items-name-for-label', ['C18'], 'batch.py', 'Batch.apply_items',
  '                yield frame, func, label\n', '                yield frame, func, frame.name\n', 'I.parallel-sequential-args', 'apply_items')
B('PS-apply-items-except-swapped', ['C18'], 'batch.py', 'Batch.apply_items_except',
  '                yield frame, func, label\n', '                yield frame, func, frame\n', 'I.parallel-sequential-args', 'apply_items_except')
B('PS-apply-attr-args-dropped', ['C18'], 'batch.py', 'Batch._apply_attr',
  '                yield frame, attr, args, kwargs\n', '                yield frame, attr, (), kwargs\n', 'I.parallel-sequential-args', '_apply_attr')
N('PS-apply-items-renamed-loop', ['C18'], 'batch.py', 'Batch.apply_items',
  '            for label, frame in self._items:\n                labels.append(label)\n                yield frame, func, label\n',
  '            for k, f in self._items:\n                labels.append(k)\n                yield f, func, k\n')

# ---------------------------------------------------------------------------------- aligned positional stores (C14 / C08)
B('AS-fillna-reindex-sorted-common', ['C14'], 'series.py', 'Series.fillna',
  '            value = self._reindex_other_like_iloc(value,\n                    sel,\n                    fill_value=fill_value).values',
  '            value = value.reindex(labels_common,\n                    fill_value=fill_value).values', 'I.aligned-store-same-key', 'fillna')
B('AS-fillna-other-key', ['C14'], 'series.py', 'Series.fillna',
  '            value = self._reindex_other_like_iloc(value,\n                    sel,\n                    fill_value=fill_value).values',
  '            value = self._reindex_other_like_iloc(value,\n                    isna_array(values),\n                    fill_value=fill_value).values', 'I.aligned-store-same-key', 'fillna')
B('AS-assign-own-labels', ['C08'], 'series.py', 'SeriesAssign.__call__',
  '            value = self.container._reindex_other_like_iloc(value,\n                    self.key,\n                    fill_value=fill_value).values',
  '            value = value.reindex(value.index, fill_value=fill_value).values', 'I.aligned-store-same-key', '__call__')
N('AS-fillna-explicit-own-index', ['C14'], 'series.py', 'Series.fillna',
  '            value = self._reindex_other_like_iloc(value,\n                    sel,\n                    fill_value=fill_value).values',
  '            value = value.reindex(self._index._extract_iloc(sel),\n                    fill_value=fill_value).values')

# ---------------------------------------------------------------------------------- IndexGO.append validates before mutating (C09)
B('D2-automap-after-append', ['C09', 'C02'], 'index.py', '_IndexGOMixin.append',
  '        if map_new is not None:\n            self._map = map_new\n', '        if map_new is not None:\n            self._map = AutoMap(self._labels_mutable)\n',
  'D2.validate-before-mutate', 'append')
N('D2-automap-built-earlier-renamed', ['C09', 'C02'], 'index.py', '_IndexGOMixin.append',
  '                map_new = AutoMap(self._labels_mutable + [value])\n', '                map_new = AutoMap([*self._labels_mutable, value])\n')

B('F3-row-dtype-kind-compare', ['C07', 'C16'], 'type_blocks.py', 'TypeBlocks.append',
  'block.dtype != self._row_dtype', 'block.dtype.kind != self._row_dtype.kind', 'F3', 'TypeBlocks.append')

# ---------------------------------------------------------------------------------- dtype accumulators (C07 / C20)
B('DA-group-dtype-setdefault', ['C07', 'C20'], 'pivot.py', 'pivot_index_map',
  '                if group in group_to_dtype:\n                    group_to_dtype[group] = resolve_dtype(group_to_dtype[group], dtype)\n                else:\n                    group_to_dtype[group] = dtype\n',
  '                group_to_dtype.setdefault(group, dtype)\n', 'F1.dtype-accumulator-merged', 'pivot_index_map')
B('DA-group-dtype-last-wins', ['C07', 'C20'], 'pivot.py', 'pivot_index_map',
  '                if group in group_to_dtype:\n                    group_to_dtype[group] = resolve_dtype(group_to_dtype[group], dtype)\n                else:\n                    group_to_dtype[group] = dtype\n',
  '                group_to_dtype[group] = dtype\n', 'F1.dtype-accumulator-merged', 'pivot_index_map')
B('DA-unstack-dtype-reset-in-loop', ['C07', 'C20'], 'frame.py', 'Frame.pivot_unstack',
  '                            row_idx = target_map[target]\n', '                            row_idx = target_map[target]\n                            dtype = dtype_src_col\n',
  'F1.loop-dtype-carried', 'items')
N('DA-group-dtype-get-merge', ['C07', 'C20'], 'pivot.py', 'pivot_index_map',
  '                if group in group_to_dtype:\n                    group_to_dtype[group] = resolve_dtype(group_to_dtype[group], dtype)\n                else:\n                    group_to_dtype[group] = dtype\n',
  '                if group not in group_to_dtype:\n                    group_to_dtype[group] = dtype\n                else:\n                    group_to_dtype[group] = resolve_dtype(group_to_dtype[group], dtype)\n')
N('DA-unstack-dtype-self-merge', ['C07', 'C20'], 'frame.py', 'Frame.pivot_unstack',
  '                            dtype = resolve_dtype(dtype_src_col, dtype_fill)\n', '                            dtype = resolve_dtype(dtype, dtype_fill)\n')

# ---------------------------------------------------------------------------------- fresh arrays returned frozen (C01)
B('R7-iloc-searchsorted-direct', ['C01'], 'series.py', 'Series.iloc_searchsorted',
  "        if post.__class__ is np.ndarray: # an element if a single value was given\n            post.flags.writeable = False\n        return post", "        return post",
  'A-R7', 'iloc_searchsorted')
B('R7-loc-searchsorted-nofill-unfrozen', ['C01'], 'index_base.py', 'IndexBase.loc_searchsorted',
  "            post = self.values[sel]\n            if post.__class__ is np.ndarray: # an element if a single value was given\n                post.flags.writeable = False\n            return post",
  "            return self.values[sel]", 'A-R7', 'loc_searchsorted')
B('R7-index-cumsum-unfrozen', ['C01'], 'index.py', 'Index._ufunc_axis_skipna',
  "        if post.__class__ is np.ndarray: # cumsum, cumprod\n            post.flags.writeable = False\n        return post", "        return post", 'A-R7', '_ufunc_axis_skipna')
B('R7-ih-loc-searchsorted-fill-unfrozen', ['C01'], 'index_hierarchy.py', 'IndexHierarchy.loc_searchsorted',
  "        post[mask] = fill_value\n        post.flags.writeable = False\n", "        post[mask] = fill_value\n", 'A-R7', 'loc_searchsorted')
N('R7-iloc-searchsorted-isinstance', ['C01'], 'series.py', 'Series.iloc_searchsorted',
  "        if post.__class__ is np.ndarray: # an element if a single value was given\n            post.flags.writeable = False\n        return post",
  "        if isinstance(post, np.ndarray):\n            post.flags.writeable = False\n        return post")

# ---------------------------------------------------------------------------------- IndexLevel key walkers (C02 / C05)
B('KW-contains-leaf-unconditional', ['C02', 'C05'], 'index_level.py', 'IndexLevel.__contains__',
  '            node.index._loc_to_iloc(k)\n            found = True # if above does not raise\n', '            node.index._loc_to_iloc(k)\n            return True\n',
  'I.leaf-exit-key-exhausted', '__contains__')
B('KW-leaf-lookup-length-unchecked', ['C02', 'C05'], 'index_level.py', 'IndexLevel.leaf_loc_to_iloc',
  '                if key_depth == key_depth_max:\n                    return pos + offset\n                break', '                return pos + offset',
  'I.leaf-exit-key-exhausted', 'leaf_loc_to_iloc')
N('KW-contains-len-check', ['C02', 'C05'], 'index_level.py', 'IndexLevel.__contains__',
  '            node.index._loc_to_iloc(k)\n            found = True # if above does not raise\n', '            node.index._loc_to_iloc(k)\n            found = True\n            continue\n')

# ---------------------------------------------------------------------------------- optional label parameters (C08 / C19)
B('OH-level-add-truthiness', ['C08', 'C19'], 'frame.py', 'Frame.relabel_level_add',
  'index = self._index.level_add(index) if index is not None else self._index', 'index = self._index.level_add(index) if index else self._index',
  'I.optional-hashable-identity-test', 'relabel_level_add')
B('OH-level-add-or', ['C08', 'C19'], 'frame.py', 'Frame.relabel_level_add',
  'columns = self._columns.level_add(columns) if columns is not None else self._columns.copy()', 'columns = (columns and self._columns.level_add(columns)) or self._columns.copy()',
  'I.optional-hashable-identity-test', 'relabel_level_add')
N('OH-level-add-is-none-flipped', ['C08', 'C19'], 'frame.py', 'Frame.relabel_level_add',
  'index = self._index.level_add(index) if index is not None else self._index', 'index = self._index if index is None else self._index.level_add(index)')

# ---------------------------------------------------------------------------------- index rebuilds carry the name (C08)
B('NM-ih-astype-name-dropped', ['C08'], 'index_hierarchy.py', 'IndexHierarchyAsType.__call__',
  '                name=container._name,\n', '', 'G.index-rebuild-carries-name', '__call__')
B('NM-frame-insert-name-dropped', ['C08'], 'frame.py', 'Frame._insert',
  '                ),\n                name=self._columns._name,\n                )\n', '                ))\n', 'G.index-rebuild-carries-name', '_insert')
B('NM-series-insert-other-name', ['C08'], 'series.py', 'Series._insert',
  '                name=self._index._name,\n', '                name=container._index._name,\n', 'G.index-rebuild-carries-name', '_insert')
B('NM-ih-roll-name-dropped', ['C08'], 'index_hierarchy.py', 'IndexHierarchy.roll',
  '                name=self._name,\n', '', 'G.index-rebuild-carries-name', 'roll')
N('NM-series-insert-name-property', ['C08'], 'series.py', 'Series._insert',
  '                name=self._index._name,\n', '                name=self._index.name,\n')

# ---------------------------------------------------------------------------------- identity shortcut honours skipna (C10)
B('IS-series-identity-unconditional', ['C10'], 'series.py', 'Series.equals',
  'if skipna and id(other) == id(self):', 'if id(other) == id(self):', 'I.equals-identity-shortcut-skipna', 'equals')
B('IS-typeblocks-identity-or', ['C10'], 'type_blocks.py', 'TypeBlocks.equals',
  'if skipna and id(other) == id(self):', 'if skipna or id(other) == id(self):', 'I.equals-identity-shortcut-skipna', 'equals')
N('IS-frame-identity-nested', ['C10'], 'frame.py', 'Frame.equals',
  '        if skipna and id(other) == id(self):\n            return True\n', '        if skipna:\n            if id(other) == id(self):\n                return True\n')

B('DA-concat-resolved-not-carried', ['C07', 'C11'], 'util.py', 'concat_resolved',
  'dt_resolve = resolve_dtype(array.dtype, dt_resolve)', 'dt_resolve = resolve_dtype(array.dtype, first.dtype)', 'F1.loop-dtype-carried', 'concat_resolved')
B('DA-extract-bloc-last-wins', ['C07'], 'type_blocks.py', 'TypeBlocks.extract_bloc',
  '                dt_resolve = resolve_dtype(dt_resolve, part.dtype)', '                dt_resolve = part.dtype', 'F1.loop-dtype-carried', 'extract_bloc')
B('DA-resolve-iter-not-carried', ['C07', 'C11'], 'util.py', 'resolve_dtype_iter',
  'dt_resolve = resolve_dtype(dt_resolve, dt)', 'dt_resolve = resolve_dtype(dt, dt)', 'F1.loop-dtype-carried', 'resolve_dtype_iter')
N('DA-concat-resolved-swapped-args', ['C07', 'C11'], 'util.py', 'concat_resolved',
  'dt_resolve = resolve_dtype(array.dtype, dt_resolve)', 'dt_resolve = resolve_dtype(dt_resolve, array.dtype)')

# ---------------------------------------------------------------------------------- IndexLevel sibling offsets (C02 / C05)
B('SO-level-drop-outer-old-offsets', ['C02', 'C05'], 'index_hierarchy.py', 'IndexHierarchy.level_drop',
  '                        for t in target.targets:\n                            # offsets were relative to the parent that is being removed\n                            t.offset = offset\n                            offset += t.__len__()\n                            targets.append(t)\n',
  '                        targets.extend(target.targets)\n', 'I.sibling-offsets-running', 'level_drop')
B('SO-level-drop-inner-no-recompute', ['C02', 'C05'], 'index_hierarchy.py', 'IndexHierarchy.level_drop',
  '                        for target in level.targets:\n                            target.offset = offset\n                            offset += target.__len__()\n',
  '                        pass\n', 'I.sibling-offsets-running', 'level_drop')
B('SO-from-index-items-offset-not-advanced', ['C02', 'C05'], 'index_hierarchy.py', 'IndexHierarchy.from_index_items',
  '            offset += len(index)\n', '', 'I.sibling-offsets-running', 'from_index_items')
B('SO-go-extend-offset-zero', ['C02', 'C05', 'C09'], 'index_level.py', 'IndexLevelGO.extend',
  '                target = t.to_index_level(offset_prior, cls=self.__class__)', '                target = t.to_index_level(0, cls=self.__class__)', 'I.sibling-offsets-running', 'target_gen')
N('SO-from-product-renamed-acc', ['C02', 'C05'], 'index_hierarchy.py', 'IndexHierarchy.from_product',
  '            offset = 0\n            for idx, _ in enumerate(index_up):\n                # this level does not have targets, only an index (as a leaf)\n                level = cls._LEVEL_CONSTRUCTOR(index=index,\n                        offset=offset,\n                        targets=targets_previous)\n\n                targets[idx] = level\n                offset += len(level)\n',
  '            total = 0\n            for idx, _ in enumerate(index_up):\n                level = cls._LEVEL_CONSTRUCTOR(index=index,\n                        offset=total,\n                        targets=targets_previous)\n\n                targets[idx] = level\n                total += level.__len__()\n')

# ---------------------------------------------------------------------------------- open slice ends under an offset (C05 / C04)
B('OS-open-stop-not-bounded', ['C05', 'C04'], 'index.py', 'LocMap.loc_to_iloc',
  '                if stop is None:\n                    stop = len(positions) + offset #type: ignore\n', '', 'I.offset-open-slice-bounded', 'loc_to_iloc')
B('OS-open-ends-passed-through', ['C05', 'C04'], 'index.py', 'LocMap.loc_to_iloc',
  '            if offset_apply and (step is None or step > 0):\n', '            if False:\n', 'I.offset-open-slice-bounded', 'loc_to_iloc')
B('OS-starred-bounds', ['C05', 'C04'], 'index.py', 'LocMap.loc_to_iloc',
  '            return slice(start, stop, step)\n', '            return slice(*(start, stop, step)[:0], *cls.map_slice_args(label_to_pos.get, key, labels, offset))\n', 'I.offset-open-slice-bounded', 'loc_to_iloc')
N('OS-open-start-ifexp', ['C05', 'C04'], 'index.py', 'LocMap.loc_to_iloc',
  '                if start is None:\n                    start = offset\n', '                start = offset if start is None else start\n')

# ---------------------------------------------------------------------------------- map-less route rejects negative labels (C04)
B('NM-element-negative-unchecked', ['C04'], 'index.py', 'Index._loc_to_iloc',
  '            elif isinstance(key, INT_TYPES):\n                # an element key is also used arithmetically (a leaf position within a hierarchy): it must be a label\n                if key < 0 or key >= self.__len__():\n                    raise KeyError(key)\n', '', 'I.nomap-negative-label-raises', '_loc_to_iloc')
B('NM-slice-negative-unchecked', ['C04'], 'index.py', 'Index._loc_to_iloc',
  '                for attr in (key.start, key.stop): #type: ignore\n                    if isinstance(attr, INT_TYPES) and attr < 0:\n                        raise LocInvalid(\'Invalid loc given in a slice\', attr)\n',
  '', 'I.nomap-negative-label-raises', '_loc_to_iloc')
B('NM-list-negative-passes', ['C04'], 'index.py', 'Index._loc_to_iloc',
  '                    if isinstance(k, INT_TYPES) and k < 0:\n                        raise KeyError(k)\n', '                    pass\n', 'I.nomap-negative-label-raises', '_loc_to_iloc')
N('NM-element-zero-gt', ['C04'], 'index.py', 'Index._loc_to_iloc',
  '                if key < 0 or key >= self.__len__():\n                    raise KeyError(key)\n', '                if 0 > key or key >= self.__len__():\n                    raise KeyError(key)\n')

# ---------------------------------------------------------------------------------- direction of the inclusive stop (C04): today's tree has four known findings;
# the variant checks that a direction-aware rewrite of one site is silent for this rule and for I.inclusive-stop
N('ISD-direction-aware-label-arm', ['C04'], 'index.py', 'LocMap.map_slice_args',
  '                if field == SLICE_STOP_ATTR:\n                    # loc selections are inclusive, so iloc gets one more\n                    pos += 1 #type: ignore\n',
  '                if field == SLICE_STOP_ATTR:\n                    if key.step is not None and key.step < 0:\n                        pos = pos - 1 if pos > 0 else None\n                    else:\n                        pos += 1\n')

# ---------------------------------------------------------------------------------- Quilt key order (C19): two known findings on today's tree; a handled form must be silent
N('QK-ordered-keys-told-apart', ['C19'], 'quilt.py', 'Quilt._extract',
  '        sel = np.full(len(self._axis_map), False)\n        sel[sel_key] = True\n',
  '        if isinstance(sel_key, list) or sel_key.__class__ is np.ndarray:\n            raise NotImplementedError(\'ordered keys are handled by the caller\')\n        sel = np.full(len(self._axis_map), False)\n        sel[sel_key] = True\n')

# ---------------------------------------------------------------------------------- slice bounds carry the offset (C05 / C04)
B('SBO-offset-only-same-unit', ['C05', 'C04'], 'index.py', 'LocMap.map_slice_args',
  '                if offset_apply and field != SLICE_STEP_ATTR:\n                    pos += offset #type: ignore\n\n                yield pos',
  '                if offset_apply and field != SLICE_STEP_ATTR and attr.dtype == labels.dtype:\n                    pos += offset #type: ignore\n\n                yield pos', 'I.slice-bounds-offset', 'map_slice_args')
B('SBO-label-arm-no-offset', ['C05', 'C04'], 'index.py', 'LocMap.map_slice_args',
  '                    if offset_apply:\n                        pos += offset #type: ignore\n                else: # step', '                else: # step', 'I.slice-bounds-offset', 'map_slice_args')
N('SBO-offset-binop', ['C05', 'C04'], 'index.py', 'LocMap.map_slice_args',
  '                    if offset_apply:\n                        pos += offset #type: ignore\n                else: # step', '                    if offset_apply:\n                        pos = pos + offset\n                else: # step')

# ---------------------------------------------------------------------------------- a duplicate check in the sibling arm does not guard this arm (C09)
B('D2-extend-series-blocks-first', ['C09'], 'frame.py', 'FrameGO.extend',
  '            self._columns.append(container.name)\n            self._blocks.append(container.values)\n', '            self._blocks.append(container.values)\n            self._columns.append(container.name)\n',
  'D2.validate-before-mutate', 'extend')

# ---------------------------------------------------------------------------------- option consulted on every producing path (C02 / C03 / C05)
B('OC-axis-values-fast-path', ['C02', 'C03', 'C05'], 'type_blocks.py', 'TypeBlocks.axis_values',
  '            unified = self.unified\n            # iterate over rows; might be faster to create entire values\n',
  '            unified = self.unified\n            if unified and not zero_size and self._blocks[0].ndim == 2:\n                yield from self._blocks[0]\n                return\n', 'I.option-consulted', 'axis_values')
N('OC-axis-values-fast-path-after-test', ['C02', 'C03', 'C05'], 'type_blocks.py', 'TypeBlocks.axis_values',
  '            unified = self.unified\n            # iterate over rows; might be faster to create entire values\n',
  '            unified = self.unified\n            if not reverse and unified and not zero_size and self._blocks[0].ndim == 2:\n                yield from self._blocks[0]\n                return\n')

# ---------------------------------------------------------------------------------- derived flags stay fresh (C07 / C08 / C14)
B('DF-any-before-narrowing', ['C07', 'C08', 'C14'], 'type_blocks.py', 'TypeBlocks._assign_from_boolean_blocks_by_unit',
  '            if not is_element:\n                if block.ndim == 1:', '            target_found = target.any()\n            if not is_element:\n                if block.ndim == 1:',
  'I.derived-flag-fresh', '_assign_from_boolean_blocks_by_unit',
  edits=[dict(file='type_blocks.py', within='TypeBlocks._assign_from_boolean_blocks_by_unit',
              find='            if not is_element:\n                if block.ndim == 1:', replace='            target_found = target.any()\n            if not is_element:\n                if block.ndim == 1:'),
         dict(file='type_blocks.py', within='TypeBlocks._assign_from_boolean_blocks_by_unit',
              find='            if not target.any(): # works for ndim 1 and 2\n                yield block\n\n            else:\n                assigned_dtype = resolve_dtype(value_dtype, block.dtype)',
              replace='            if not target_found:\n                yield block\n\n            else:\n                assigned_dtype = resolve_dtype(value_dtype, block.dtype)')])
N('DF-any-after-narrowing', ['C07', 'C08', 'C14'], 'type_blocks.py', 'TypeBlocks._assign_from_boolean_blocks_by_unit',
  '            # evaluate after updating target\n            if not target.any(): # works for ndim 1 and 2\n                yield block\n',
  '            target_found = target.any()\n            if not target_found:\n                yield block\n')

# ---------------------------------------------------------------------------------- map-less route with an offset (C05 / C04)
B('NMO-element-unchecked', ['C05', 'C04'], 'index.py', 'Index._loc_to_iloc',
  '            # a single element\n            if not (isinstance(key, INT_TYPES) and 0 <= key < size):\n                raise KeyError(key)\n            return key + offset',
  '            # a single element\n            return key + offset', 'I.nomap-offset-membership', '_loc_to_iloc')
B('NMO-list-partial-ignored', ['C05', 'C04'], 'index.py', 'Index._loc_to_iloc',
  '                if partial_selection:\n                    return [k + offset for k in key if isinstance(k, INT_TYPES) and 0 <= k < size]\n', '', 'I.nomap-offset-membership', '_loc_to_iloc')
B('NMO-slice-helper-direct', ['C05', 'C04'], 'index.py', 'Index._loc_to_iloc',
  '                key = slice_to_inclusive_slice(key, offset) #type: ignore\n                if key.step is None or key.step > 0: #type: ignore',
  '                return slice_to_inclusive_slice(key, offset)\n                if key.step is None or key.step > 0:', 'I.nomap-offset-membership', '_loc_to_iloc')
N('NMO-element-two-tests', ['C05', 'C04'], 'index.py', 'Index._loc_to_iloc',
  '            if not (isinstance(key, INT_TYPES) and 0 <= key < size):\n                raise KeyError(key)\n            return key + offset',
  '            if not isinstance(key, INT_TYPES) or key < 0 or key >= size:\n                raise KeyError(key)\n            return key + offset')

# ---------------------------------------------------------------------------------- lazy pairing of the label list (C18)
B('PL-inline-single-thread-lazy-map', ['C18'], 'node_iter.py', 'IterNodeDelegate._apply_iter_items_parallel',
  '        with pool_executor(max_workers=max_workers) as executor:', '        if use_threads and max_workers == 1:\n            yield from zip(func_keys, map(func, arg_gen()))\n            return\n        with pool_executor(max_workers=max_workers) as executor:',
  'I.parallel-label-pairing', '_apply_iter_items_parallel')

# ---------------------------------------------------------------------------------- exporters fall back to the container's config (C17)
B('EC-zip-tsv-no-fallback', ['C17'], 'store_client_mixin.py', 'StoreClientMixin.to_zip_tsv',
  '        config = config if not config is None else self._config\n', '', 'G.exporter-config-fallback', 'to_zip_tsv')
B('EC-sqlite-default-config', ['C17'], 'store_client_mixin.py', 'StoreClientMixin.to_sqlite',
  '        config = config if not config is None else self._config\n', '        config = config if not config is None else None\n', 'G.exporter-config-fallback', 'to_sqlite')
N('EC-zip-csv-or-form', ['C17'], 'store_client_mixin.py', 'StoreClientMixin.to_zip_csv',
  '        config = config if not config is None else self._config\n', '        if config is None:\n            config = self._config\n')

# ---------------------------------------------------------------------------------- composite join key (C20)
B('JK-columns-alternative', ['C20'], 'container_util.py', 'arrays_from_index_frame',
  '    if columns is not None:\n        column_key', '    elif columns is not None:\n        column_key', 'I.join-key-sources', 'arrays_from_index_frame')
B('JK-early-return-after-index', ['C20'], 'container_util.py', 'arrays_from_index_frame',
  '        yield container.index.values_at_depth(depth_level)\n', '        yield container.index.values_at_depth(depth_level)\n        return\n', 'I.join-key-sources', 'arrays_from_index_frame')
N('JK-columns-first', ['C20'], 'container_util.py', 'arrays_from_index_frame',
  '    if columns is not None:\n        column_key = container.columns._loc_to_iloc(columns)\n        yield from container._blocks._slice_blocks(column_key=column_key)',
  '    if not columns is None:\n        yield from container._blocks._slice_blocks(column_key=container.columns._loc_to_iloc(columns))')

# ---------------------------------------------------------------------------------- carried state of the block-walking fills (C14)
B('CS-sided-skip-non-na-kind', ['C14'], 'type_blocks.py', 'TypeBlocks._fillna_sided_axis_1',
  '            sel = isna_array(b) # True for is NaN\n            ndim = sel.ndim\n\n            if isna_exit_previous is None:',
  '            if b.dtype.kind in \'iub\':\n                yield b\n                continue\n            sel = isna_array(b) # True for is NaN\n            ndim = sel.ndim\n\n            if isna_exit_previous is None:',
  'I.na-carried-state', '_fillna_sided_axis_1')
B('CS-directional-no-na-branch-keeps-count', ['C14'], 'type_blocks.py', 'TypeBlocks._fillna_directional_axis_1',
  '                bridging_values = b\n                bridging_isna = sel\n                bridging_count = np.full(b.shape[0], 0)\n                yield b',
  '                bridging_values = b\n                bridging_isna = sel\n                yield b', 'I.na-carried-state', '_fillna_directional_axis_1')
N('CS-sided-skip-with-update', ['C14'], 'type_blocks.py', 'TypeBlocks._fillna_sided_axis_1',
  '            sel = isna_array(b) # True for is NaN\n            ndim = sel.ndim\n\n            if isna_exit_previous is None:',
  '            if b.dtype.kind in \'iub\':\n                isna_exit_previous = np.full(b.shape[0], False, dtype=bool)\n                yield b\n                continue\n            sel = isna_array(b) # True for is NaN\n            ndim = sel.ndim\n\n            if isna_exit_previous is None:')

# ---------------------------------------------------------------------------------- group key fallback (C13)
B('GK-fallback-joined-rows', ['C13'], 'util.py', 'array_to_groups_and_locations',
  '        _, group_index, locations = np.unique(\n                array.astype(str),\n                return_index=True,\n                return_inverse=True,\n                axis=unique_axis)\n        # groups here',
  "        array_str = array.astype(str)\n        if unique_axis == 0 and array_str.ndim == 2:\n            array_str = np.array([','.join(row) for row in array_str], dtype=str)\n            unique_axis = None\n        _, group_index, locations = np.unique(\n                array_str,\n                return_index=True,\n                return_inverse=True,\n                axis=unique_axis)\n        # groups here",
  'I.group-key-fallback', 'array_to_groups_and_locations')
B('GK-fallback-axis-dropped', ['C13'], 'util.py', 'array_to_groups_and_locations',
  '                array.astype(str),\n                return_index=True,\n                return_inverse=True,\n                axis=unique_axis)\n        # groups here',
  '                array.astype(str),\n                return_index=True,\n                return_inverse=True)\n        # groups here', 'I.group-key-fallback', 'array_to_groups_and_locations')
N('GK-fallback-named-temp', ['C13'], 'util.py', 'array_to_groups_and_locations',
  '        _, group_index, locations = np.unique(\n                array.astype(str),', '        as_text = array.astype(str)\n        _, group_index, locations = np.unique(\n                as_text,')

# ---------------------------------------------------------------------------------- full_for_fill resolves (C07 / C11 / C06)
B('FF-inexact-keeps-target', ['C07', 'C11', 'C06'], 'util.py', 'full_for_fill',
  '        dtype_final = resolve_dtype(dtype, dtype_element)\n', '        if dtype.kind in DTYPE_INEXACT_KINDS and dtype.kind == dtype_element.kind:\n            dtype_final = dtype\n        else:\n            dtype_final = resolve_dtype(dtype, dtype_element)\n',
  'F1.full-for-fill-resolves', 'full_for_fill')
B('FF-target-wins', ['C07', 'C11', 'C06'], 'util.py', 'full_for_fill',
  '        dtype_final = resolve_dtype(dtype, dtype_element)\n', '        dtype_final = dtype\n', 'F1.full-for-fill-resolves', 'full_for_fill')
N('FF-swapped-operands', ['C07', 'C11', 'C06'], 'util.py', 'full_for_fill',
  '        dtype_final = resolve_dtype(dtype, dtype_element)\n', '        dtype_final = resolve_dtype(dtype_element, dtype)\n')

# ---------------------------------------------------------------------------------- descending positional slices (C08)
B('DS-negative-bounds-raw', ['C08'], 'util.py', 'slice_to_ascending_slice',
  '    if (key.start is not None and key.start < 0) or (key.stop is not None and key.stop < 0):', '    if False:', 'I.descending-slice-normalised', 'slice_to_ascending_slice')
B('DS-only-start-normalised', ['C08'], 'util.py', 'slice_to_ascending_slice',
  '    if (key.start is not None and key.start < 0) or (key.stop is not None and key.stop < 0):', '    if key.start is not None and key.start < 0:', 'I.descending-slice-normalised', 'slice_to_ascending_slice')

# ---------------------------------------------------------------------------------- out parameter written (C15)
B('OP-logical-empty-returns-only', ['C15'], 'util.py', '_ufunc_logical_skipna',
  '        if out is not None:\n            out[NULL_SLICE] = ufunc == np.all\n            return out\n        return ufunc == np.all', '        return ufunc == np.all',
  'I.out-parameter-written', '_ufunc_logical_skipna')
B('OP-logical-truthy-returns-only', ['C15'], 'util.py', '_ufunc_logical_skipna',
  '    if out is not None:\n        out[NULL_SLICE] = True\n        return out\n    return np.full(', '    return np.full(', 'I.out-parameter-written', '_ufunc_logical_skipna')
B('OP-axis-skipna-dates-drop-out', ['C15'], 'util.py', 'ufunc_axis_skipna',
  '        return ufunc(array, axis=axis, out=out)\n\n    elif array.dtype.kind in DTYPE_STR_KINDS', '        return ufunc(array, axis=axis)\n\n    elif array.dtype.kind in DTYPE_STR_KINDS',
  'I.out-parameter-written', 'ufunc_axis_skipna')
N('OP-logical-empty-guard-flipped', ['C15'], 'util.py', '_ufunc_logical_skipna',
  '        if out is not None:\n            out[NULL_SLICE] = ufunc == np.all\n            return out\n        return ufunc == np.all',
  '        if out is None:\n            return ufunc == np.all\n        out[NULL_SLICE] = ufunc == np.all\n        return out')

B('NM-array-cast-unchecked', ['C04'], 'index.py', 'Index._loc_to_iloc',
  '                    if key_src.dtype.kind not in DTYPE_INT_KINDS and not (key == key_src).all(): #type: ignore\n                        # a value that is not equal to an integer is not a label\n                        raise KeyError(key_src[key != key_src][0]) #type: ignore\n',
  '', 'I.nomap-negative-label-raises', '_loc_to_iloc')

# ---------------------------------------------------------------------------------- type membership by equality (C07 / C16)
B('TM-inexact-by-equality', ['C07', 'C16'], 'util.py', 'prepare_iter_for_array',
  '                if issubclass(value_type, INEXACT_TYPES): # np.float64 is not equal to, but a subclass of, float and np.inexact', '                if value_type in INEXACT_TYPES:',
  'I.type-membership-by-subclass', 'prepare_iter_for_array')
B('TM-int-by-equality', ['C07', 'C16'], 'util.py', 'prepare_iter_for_array',
  'elif issubclass(value_type, INT_TYPES) and value_type not in BOOL_TYPES and abs(v)', 'elif value_type in INT_TYPES and abs(v)', 'I.type-membership-by-subclass', 'prepare_iter_for_array')
N('TM-isinstance-form', ['C07', 'C16'], 'util.py', 'prepare_iter_for_array',
  '                if issubclass(value_type, INEXACT_TYPES): # np.float64 is not equal to, but a subclass of, float and np.inexact', '                if isinstance(v, INEXACT_TYPES):')

B('F3-big-int-positive-only', ['C07', 'C16', 'C03'], 'util.py', 'prepare_iter_for_array',
  'value_type not in BOOL_TYPES and abs(v) > INT_MAX_COERCIBLE_TO_FLOAT', 'value_type not in BOOL_TYPES and v > INT_MAX_COERCIBLE_TO_FLOAT', 'F3', 'prepare_iter_for_array')
N('F3-big-int-two-comparisons', ['C07', 'C16', 'C03'], 'util.py', 'prepare_iter_for_array',
  'value_type not in BOOL_TYPES and abs(v) > INT_MAX_COERCIBLE_TO_FLOAT', 'value_type not in BOOL_TYPES and (v > INT_MAX_COERCIBLE_TO_FLOAT or v < -INT_MAX_COERCIBLE_TO_FLOAT)')
