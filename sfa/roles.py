'''Role discovery for locals: rules never depend on what a local variable is *called*.

A rule that needs "the running count", "the permutation", "the selection mask" names the role by the
construct that defines or uses it (assigned from a call of `argsort`, compared with `self._max_persist`,
set to 0 before the loop and advanced in it ...).  `canonical()` returns a deep copy of the function in
which every discovered role carries a fixed canonical identifier, so that the structural matching that
follows is independent of the identifiers in the source; positions (lineno / col_offset) are preserved.
A role that cannot be discovered is simply not renamed: the rule then reports what is missing.
'''
from __future__ import annotations

import ast
import copy
import typing as tp

from sfa.model import norm


class _Rename(ast.NodeTransformer):
    def __init__(self, mapping: tp.Mapping[str, str]):
        self.mapping = mapping

    def visit_Name(self, node: ast.Name) -> ast.AST:
        if node.id in self.mapping:
            node.id = self.mapping[node.id]
        return node


def params_of(fn: ast.AST) -> tp.Set[str]:
    out: tp.Set[str] = set()
    for n in ast.walk(fn):
        if isinstance(n, (ast.FunctionDef, ast.AsyncFunctionDef, ast.Lambda)):
            a = n.args
            for p in list(getattr(a, 'posonlyargs', [])) + a.args + a.kwonlyargs:
                out.add(p.arg)
            if a.vararg:
                out.add(a.vararg.arg)
            if a.kwarg:
                out.add(a.kwarg.arg)
    return out


def stored_names(fn: ast.AST) -> tp.List[str]:
    '''Locals of `fn` (bound by assignment / for / with / comprehension), parameters excluded, in order of first binding.'''
    ps = params_of(fn)
    out: tp.List[str] = []
    for n in ast.walk(fn):
        if isinstance(n, ast.Name) and isinstance(n.ctx, ast.Store) and n.id not in ps and n.id not in out:
            out.append(n.id)
    return out


def canonical(fn: ast.AST, roles: tp.Mapping[str, tp.Optional[str]]) -> ast.AST:
    '''Deep copy of fn with each discovered role (canonical -> actual name or None) renamed to its canonical name.
    A canonical name already used by another local is first moved out of the way.'''
    mapping = {actual: canon for canon, actual in roles.items() if actual and actual != canon}
    if not mapping:
        return fn
    taken = set(stored_names(fn)) | params_of(fn)
    pre: tp.Dict[str, str] = {}
    for actual, canon in mapping.items():
        if canon in taken and canon not in mapping:
            pre[canon] = canon + '__shadowed'
    out = copy.deepcopy(fn)
    if pre:
        _Rename(pre).visit(out)
    _Rename(mapping).visit(out)
    return out


def targets_of(s: ast.stmt) -> tp.List[str]:
    out: tp.List[str] = []
    if isinstance(s, ast.Assign):
        for t in s.targets:
            for x in ast.walk(t):
                if isinstance(x, ast.Name) and isinstance(x.ctx, ast.Store):
                    out.append(x.id)
    elif isinstance(s, (ast.AnnAssign, ast.AugAssign)) and isinstance(s.target, ast.Name):
        out.append(s.target.id)
    return out


def assigned_from(fn: ast.AST, pred: tp.Callable[[ast.expr], bool], simple: bool = True) -> tp.Optional[str]:
    '''The first local `x` with a statement `x = <value>` (or `x: T = <value>`) whose value satisfies pred.'''
    for s in ast.walk(fn):
        if isinstance(s, ast.Assign) and len(s.targets) == 1 and isinstance(s.targets[0], ast.Name) and pred(s.value):
            return s.targets[0].id
        if isinstance(s, ast.AnnAssign) and isinstance(s.target, ast.Name) and s.value is not None and pred(s.value):
            return s.target.id
    return None


def assigned_from_all(fn: ast.AST, pred: tp.Callable[[ast.expr], bool]) -> tp.List[str]:
    out: tp.List[str] = []
    for s in ast.walk(fn):
        if isinstance(s, ast.Assign) and len(s.targets) == 1 and isinstance(s.targets[0], ast.Name) and pred(s.value):
            if s.targets[0].id not in out:
                out.append(s.targets[0].id)
        if isinstance(s, ast.AnnAssign) and isinstance(s.target, ast.Name) and s.value is not None and pred(s.value):
            if s.target.id not in out:
                out.append(s.target.id)
    return out


def compared_with(fn: ast.AST, other: tp.Callable[[ast.expr], bool], ops: tp.Tuple[type, ...] = (ast.cmpop,)) -> tp.Optional[str]:
    '''The local Name that appears on the other side of a comparison with an expression satisfying `other`.'''
    for c in ast.walk(fn):
        if isinstance(c, ast.Compare) and len(c.ops) == 1 and isinstance(c.ops[0], ops):
            l, r = c.left, c.comparators[0]
            if isinstance(l, ast.Name) and other(r):
                return l.id
            if isinstance(r, ast.Name) and other(l):
                return r.id
    return None


def call_named(*names: str) -> tp.Callable[[ast.expr], bool]:
    '''Predicate: the expression is a call whose callee's last attribute / name is one of names.'''
    def pred(e: ast.expr) -> bool:
        if not isinstance(e, ast.Call):
            return False
        f = e.func
        last = f.attr if isinstance(f, ast.Attribute) else f.id if isinstance(f, ast.Name) else None
        return last in names
    return pred


def contains_text(*frags: str) -> tp.Callable[[ast.expr], bool]:
    def pred(e: ast.expr) -> bool:
        t = norm(e)
        return any(f in t for f in frags)
    return pred


def loop_counter(loop: ast.For, before: tp.Sequence[ast.stmt]) -> tp.List[str]:
    '''Locals set to the literal 0 in `before` and advanced inside `loop`.'''
    zeros: tp.List[str] = []
    for s in before:
        if isinstance(s, ast.Assign) and isinstance(s.value, ast.Constant) and s.value.value == 0 and not isinstance(s.value.value, bool):
            zeros += [t.id for t in s.targets if isinstance(t, ast.Name)]
    out = []
    for z in zeros:
        advanced = any((isinstance(a, ast.Assign) and any(isinstance(t, ast.Name) and t.id == z for t in a.targets)) or
                       (isinstance(a, ast.AugAssign) and isinstance(a.target, ast.Name) and a.target.id == z) for a in ast.walk(loop))
        # an offset is *used* inside the loop (in a slice, a coordinate, an end computation); a tally that is only accumulated is not one
        read = any(isinstance(x, ast.Name) and x.id == z and isinstance(x.ctx, ast.Load) for x in ast.walk(loop))
        if advanced and read:
            out.append(z)
    return out


def single_return_value(fn: ast.FunctionDef) -> tp.Optional[ast.expr]:
    '''The value of the function's only `return`, ignoring docstring, `pass` and assert statements around it.'''
    rets = [n for n in ast.walk(fn) if isinstance(n, ast.Return)]
    if len(rets) != 1:
        return None
    return rets[0].value


class Inliner:
    '''Substitute single-definition locals by their defining expression (bounded depth), so that structural
    comparisons see *what a value is* instead of *what it is called*.  A local qualifies when the scope chain
    (the function and its enclosing functions) contains exactly one binding of the name, a plain `x = e` /
    `x: T = e`; loop targets, with-targets, augmented and multiply-assigned names are left as they are.'''

    def __init__(self, *scopes: ast.AST, depth: int = 6):
        self.depth = depth
        self.defs: tp.Dict[str, tp.Optional[ast.expr]] = {}
        counts: tp.Dict[str, int] = {}
        for sc in scopes:
            ps = params_of(sc)
            for n in ast.walk(sc):
                if isinstance(n, ast.Name) and isinstance(n.ctx, ast.Store):
                    counts[n.id] = counts.get(n.id, 0) + 1
            for p in ps:
                counts[p] = counts.get(p, 0) + 2
        seen: tp.Set[int] = set()
        for sc in scopes:
            for s in ast.walk(sc):
                if id(s) in seen:
                    continue
                seen.add(id(s))
                if isinstance(s, ast.Assign) and len(s.targets) == 1 and isinstance(s.targets[0], ast.Name):
                    nm, val = s.targets[0].id, s.value
                elif isinstance(s, ast.AnnAssign) and isinstance(s.target, ast.Name) and s.value is not None:
                    nm, val = s.target.id, s.value
                else:
                    continue
                if counts.get(nm) == 1:
                    self.defs[nm] = val

    def expr(self, e: ast.expr, depth: tp.Optional[int] = None) -> ast.expr:
        d = self.depth if depth is None else depth
        inl = self

        class T(ast.NodeTransformer):
            def visit_Name(self, node: ast.Name) -> ast.AST:
                if isinstance(node.ctx, ast.Load) and node.id in inl.defs and d > 0:
                    return inl.expr(copy.deepcopy(inl.defs[node.id]), d - 1)
                return node
        return T().visit(copy.deepcopy(e))

    def text(self, e: tp.Optional[ast.expr]) -> str:
        return '' if e is None else norm(self.expr(e))


def with_targets(fn: ast.AST, pred: tp.Callable[[ast.expr], bool]) -> tp.List[tp.Tuple[str, ast.expr]]:
    '''(name, context expression) of every `with <ctx> as name` whose context expression satisfies pred.'''
    out = []
    for w in ast.walk(fn):
        if isinstance(w, (ast.With, ast.AsyncWith)):
            for it in w.items:
                if isinstance(it.optional_vars, ast.Name) and pred(it.context_expr):
                    out.append((it.optional_vars.id, it.context_expr))
    return out


def first_target_name(t: ast.expr) -> tp.Optional[str]:
    for x in ast.walk(t):
        if isinstance(x, ast.Name):
            return x.id
    return None


class Expander:
    '''Flow-insensitive symbolic expansion of locals: every local Name is replaced by each of its defining expressions
    (plain assignments; element i of a tuple-unpacked value is written `<value>[i]`; a for-loop target is written
    `elem(<iterable>)`), recursively, giving the *set* of expressions over parameters, `self` and globals that the
    expression may denote.  Augmented / comprehension / with-bound names stay opaque.  Used to state what a value is
    made from without depending on what the intermediate locals are called.'''

    def __init__(self, fn: ast.AST, depth: int = 6, limit: int = 24):
        self.depth, self.limit = depth, limit
        self.params = params_of(fn)
        self.defs: tp.Dict[str, tp.List[ast.expr]] = {}
        opaque: tp.Set[str] = set()
        for s in ast.walk(fn):
            if isinstance(s, ast.Assign):
                for t in s.targets:
                    self._bind(t, s.value)
                    if isinstance(t, ast.Subscript) and isinstance(t.value, ast.Name):
                        opaque.add(t.value.id)      # a container written by subscript is an accumulator, not its initial value
            elif isinstance(s, ast.AnnAssign) and s.value is not None:
                self._bind(s.target, s.value)
            elif isinstance(s, ast.AugAssign) and isinstance(s.target, ast.Name):
                opaque.add(s.target.id)
            elif isinstance(s, (ast.For, ast.AsyncFor)):
                self._bind(s.target, ast.Call(func=ast.Name(id='elem', ctx=ast.Load()), args=[s.iter], keywords=[]))
            elif isinstance(s, ast.comprehension):
                for x in ast.walk(s.target):
                    if isinstance(x, ast.Name):
                        opaque.add(x.id)
            elif isinstance(s, (ast.With, ast.AsyncWith)):
                for it in s.items:
                    if it.optional_vars is not None:
                        for x in ast.walk(it.optional_vars):
                            if isinstance(x, ast.Name):
                                opaque.add(x.id)
            elif isinstance(s, ast.NamedExpr) and isinstance(s.target, ast.Name):
                self._bind(s.target, s.value)
            elif isinstance(s, ast.Call) and isinstance(s.func, ast.Attribute) and s.func.attr in ('append', 'extend', 'add', 'update', 'insert') \
                    and isinstance(s.func.value, ast.Name):
                opaque.add(s.func.value.id)      # an accumulator is not its initial value
        # a list that starts empty and is only ever grown by `nm.append(E)` inside for loops is the comprehension(s) [E for T in IT]: one expansion per append
        # site (the spelling `nm = []; for T in IT: nm.append(E)` of `nm = [E for T in IT]`, also when the loops sit in the branches of an if)
        grown: tp.Dict[str, tp.List[ast.expr]] = {}
        parents: tp.Dict[int, ast.AST] = {}
        for p_ in ast.walk(fn):
            for ch in ast.iter_child_nodes(p_):
                parents[id(ch)] = p_
        mutators: tp.Dict[str, tp.List[ast.Call]] = {}
        for c in ast.walk(fn):
            if isinstance(c, ast.Call) and isinstance(c.func, ast.Attribute) and c.func.attr in ('append', 'extend', 'add', 'update', 'insert') and isinstance(c.func.value, ast.Name):
                mutators.setdefault(c.func.value.id, []).append(c)
        for nm, calls in mutators.items():
            dv = self.defs.get(nm, [])
            empty = len(dv) == 1 and ((isinstance(dv[0], ast.List) and not dv[0].elts) or (isinstance(dv[0], ast.Call) and norm(dv[0]) == 'list()'))
            if not empty or nm in self.params or any(c.func.attr != 'append' or len(c.args) != 1 for c in calls):
                continue
            comps: tp.List[ast.expr] = []
            for c in calls:
                stmt = parents.get(id(c))
                lp = parents.get(id(stmt)) if isinstance(stmt, ast.Expr) else None
                conds: tp.List[ast.expr] = []
                if isinstance(lp, ast.If) and not lp.orelse and len(lp.body) == 1:
                    conds, lp = [lp.test], parents.get(id(lp))
                if not (isinstance(lp, ast.For) and len(lp.body) == 1 and not lp.orelse) or any(isinstance(x, ast.Name) and x.id == nm for x in ast.walk(c.args[0])):
                    comps = []
                    break
                comps.append(ast.ListComp(elt=c.args[0], generators=[ast.comprehension(target=lp.target, iter=lp.iter, ifs=conds, is_async=0)]))
            if comps:
                grown[nm] = comps
        for nm in opaque | self.params:
            if nm in grown and nm not in self.params:
                self.defs[nm] = grown[nm]
                continue
            self.defs.pop(nm, None)
        # a definition that mentions its own name is loop-carried: opaque
        for nm in list(self.defs):
            keep = [dv for dv in self.defs[nm] if not any(isinstance(x, ast.Name) and x.id == nm for x in ast.walk(dv))]
            if keep and len(keep) < len(self.defs[nm]) and all(isinstance(dv, ast.Call) for dv in self.defs[nm] if dv not in keep):
                self.defs[nm] = keep        # x = f(x) re-wraps the same value: the other definitions say where it comes from
            elif len(keep) < len(self.defs[nm]):
                self.defs.pop(nm)

    def _bind(self, t: ast.expr, v: ast.expr) -> None:
        if isinstance(t, ast.Name):
            self.defs.setdefault(t.id, []).append(v)
        elif isinstance(t, (ast.Tuple, ast.List)):
            for i, e in enumerate(t.elts):
                if isinstance(e, ast.Starred):
                    continue
                if isinstance(v, (ast.Tuple, ast.List)) and len(v.elts) == len(t.elts):
                    self._bind(e, v.elts[i])
                else:
                    self._bind(e, ast.Subscript(value=v, slice=ast.Constant(value=i), ctx=ast.Load()))

    def expand(self, e: tp.Optional[ast.expr], depth: tp.Optional[int] = None) -> tp.Set[str]:
        '''All expansions (normalised text).  Exceeding `limit` alternatives collapses to the unexpanded text.'''
        if e is None:
            return {''}
        d = self.depth if depth is None else depth
        names = []
        for n in ast.walk(e):
            if isinstance(n, ast.Name) and isinstance(n.ctx, ast.Load) and n.id in self.defs and n.id not in names:
                names.append(n.id)
        if not names or d <= 0:
            return {norm(e)}
        results: tp.Set[str] = set()
        combos: tp.List[tp.Dict[str, ast.expr]] = [{}]
        for nm in names:
            combos = [dict(c, **{nm: dv}) for c in combos for dv in self.defs[nm]]
            if len(combos) > self.limit:
                return {norm(e)}
        for combo in combos:
            class T(ast.NodeTransformer):
                def visit_Name(self, node: ast.Name) -> ast.AST:
                    if isinstance(node.ctx, ast.Load) and node.id in combo:
                        return copy.deepcopy(combo[node.id])
                    return node
            e2 = T().visit(copy.deepcopy(e))
            ast.fix_missing_locations(e2)
            results |= self.expand(e2, d - 1)
            if len(results) > self.limit:
                return {norm(e)}
        return results
