'''Family E — PAIR: labels and values are selected / permuted by the same key, and passed through
untouched where nothing is selected.

For a call that constructs a container inside a method of a container class, the symbolic provenance
(relative to `self`) of the values argument and of each label argument is computed:
    whole(base)                 self.values | self._blocks | self._index | self._columns
    sel(base, axis, key)        base[key], base.iloc[key], base._extract_iloc(key), blocks._extract(row_key=.., column_key=..)
    drop(base, axis, key)       base._drop_iloc(key), blocks._drop_blocks(row_key=.., column_key=..), np.delete(base, key)
    fresh / unknown             anything else
Locals are resolved through their definitions (copy propagation; a local with several definitions that
classify differently is `multi`).  Obligation per axis: a selection (or drop) of the values by key k must be
paired with the same selection (or drop) of that axis' labels by the same k; untouched values with untouched labels.
'''
from __future__ import annotations

import ast
import typing as tp

from sfa.model import FuncInfo
from sfa.model import call_name
from sfa.model import kwarg
from sfa.model import norm
from sfa.model import walk_local
from sfa.report import Ctx

NULLS = ('None', 'NULL_SLICE')


class P:
    '''provenance'''
    __slots__ = ('kind', 'base', 'rows', 'cols', 'text', 'alts', 'node')

    def __init__(self, kind: str, base: str = '', rows: tp.Optional[str] = None, cols: tp.Optional[str] = None, text: str = ''):
        self.kind = kind      # whole | sel | drop | fresh | unk | multi
        self.base = base      # values | blocks | index | columns | name
        self.rows = rows      # key text selecting rows (axis 0) or None
        self.cols = cols      # key text selecting columns (axis 1) or None
        self.text = text
        self.alts: tp.List['P'] = []      # for kind == 'multi'
        self.node: tp.Optional[ast.AST] = None

    def __repr__(self) -> str:
        if self.kind in ('sel', 'drop'):
            return f'{self.kind}({self.base}, rows={self.rows}, cols={self.cols})'
        if self.kind == 'whole':
            return f'whole({self.base})'
        return f'{self.kind}({self.text[:40]})'


BASES = {'self.values': 'values', 'self._blocks': 'blocks', 'self._index': 'index', 'self._columns': 'columns',
         'self.index': 'index', 'self.columns': 'columns', 'self._labels': 'labels', 'self._name': 'name', 'self.name': 'name',
         'self._series': 'series', 'self._levels': 'levels'}


class Resolver1:
    '''Definitions of locals inside one function (top-level function incl. nested closures share names).'''

    def __init__(self, f: FuncInfo):
        self.f = f
        self.defs: tp.Dict[str, tp.List[ast.expr]] = {}
        self.paths: tp.Dict[int, tp.Dict[int, str]] = {}
        self.lines: tp.Dict[int, int] = {}
        self.at: tp.Optional[ast.AST] = None
        top = f
        self._index_paths(top.node, {})
        for n in ast.walk(top.node):
            if isinstance(n, ast.Assign):
                for t in n.targets:
                    if isinstance(t, ast.Name):
                        # skip self-referential refinements (order = order[::-1]; key = list(key))
                        if any(isinstance(x, ast.Name) and x.id == t.id for x in ast.walk(n.value)):
                            continue
                        self.defs.setdefault(t.id, []).append(n.value)
                        self.paths.setdefault(id(n.value), self.paths.get(id(n), {}))
                        self.lines[id(n.value)] = n.lineno
                    elif isinstance(t, (ast.Tuple, ast.List)):
                        for el in t.elts:
                            if isinstance(el, ast.Name):
                                self.defs.setdefault(el.id, []).append(ast.Name(id='<unpacked>', ctx=ast.Load()))
            elif isinstance(n, (ast.For, ast.comprehension)):
                tg = n.target
                for x in ast.walk(tg):
                    if isinstance(x, ast.Name):
                        self.defs.setdefault(x.id, []).append(ast.Name(id='<loopvar>', ctx=ast.Load()))
        self.params = {p.lstrip('*') for p in f.params}
        g = f.parent
        while g is not None:
            self.params |= {p.lstrip('*') for p in g.params}
            g = g.parent

    def _index_paths(self, node: ast.AST, path: tp.Dict[int, str]) -> None:
        self.paths[id(node)] = path
        if isinstance(node, ast.If):
            self._index_paths(node.test, path)
            for ch in node.body:
                self._index_paths(ch, {**path, id(node): 'body'})
            for ch in node.orelse:
                self._index_paths(ch, {**path, id(node): 'orelse'})
            return
        for ch in ast.iter_child_nodes(node):
            self._index_paths(ch, path)

    def reaching(self, name: str) -> tp.List[ast.expr]:
        ds = self.defs.get(name, [])
        if self.at is None or len(ds) <= 1:
            return ds
        use_path = self.paths.get(id(self.at), {})
        use_line = getattr(self.at, 'lineno', 10**9)
        compat = []
        for d in ds:
            dp = self.paths.get(id(d), {})
            line = self.lines.get(id(d), 0)
            if line >= use_line:
                continue
            if all(use_path.get(k, v) == v for k, v in dp.items()):
                compat.append((line, d, all(k in use_path for k in dp)))
        if not compat:
            return ds
        compat.sort(key=lambda t: t[0])
        last_kill = max((i for i, c in enumerate(compat) if c[2]), default=None)
        if last_kill is not None:
            compat = compat[last_kill:]
        return [c[1] for c in compat]

    def key_text(self, k: tp.Optional[ast.expr]) -> tp.Optional[str]:
        '''Normalised key: aliases and tuple-unpackings are traced to their origin so that
        `iloc_row_key, iloc_column_key = key` makes iloc_row_key the same key as `key#0`.'''
        if k is None:
            return None
        # Boolean-key normalisation: index.positions[key] selects the same rows as key
        if isinstance(k, ast.Subscript) and isinstance(k.value, ast.Attribute) and k.value.attr in ('positions', '_positions'):
            return self.key_text(k.slice)
        t = norm(k)
        if t in NULLS:
            return None
        if isinstance(k, ast.Name):
            origins = set()
            for n in ast.walk(self.f.node):
                if isinstance(n, ast.Assign):
                    for tg in n.targets:
                        if isinstance(tg, ast.Name) and tg.id == k.id and isinstance(n.value, ast.Name):
                            origins.add(n.value.id)
                        elif isinstance(tg, (ast.Tuple, ast.List)) and isinstance(n.value, ast.Name):
                            for i, el in enumerate(tg.elts):
                                if isinstance(el, ast.Name) and el.id == k.id:
                                    origins.add(f'{n.value.id}#{i}')
            if origins:
                return '|'.join(sorted(origins))
        return t

    def compound_key(self, k: tp.Optional[ast.expr]) -> tp.Tuple[tp.Optional[str], tp.Optional[str]]:
        '''A (row, column) compound key passed as one value: rows are key#0 (or the key itself when it is not a tuple).'''
        if k is None:
            return None, None
        if isinstance(k, ast.Tuple) and len(k.elts) == 2:
            return self.key_text(k.elts[0]), self.key_text(k.elts[1])
        t = norm(k)
        return f'{t}|{t}#0', f'{t}#1'

    def classify(self, e: tp.Optional[ast.expr], depth: int = 0) -> P:
        if e is None:
            return P('unk', text='<absent>')
        txt = norm(e)
        if txt in BASES:
            return P('whole', BASES[txt], text=txt)
        if depth > 6:
            return P('unk', text=txt)
        if isinstance(e, ast.Name):
            ds = self.reaching(e.id)
            if not ds:
                return P('unk', text=txt)
            ps = []
            for d in ds:
                pd = self.classify(d, depth + 1)
                if pd.node is None:
                    pd.node = d
                ps.append(pd)
            reprs = {repr(p) for p in ps}
            if len(reprs) == 1:
                return ps[0]
            m = P('multi', text=txt)
            m.rows = '|'.join(sorted(reprs))
            for pd in ps:
                m.alts.extend(pd.alts if pd.kind == 'multi' else [pd])
            return m
        if isinstance(e, ast.Subscript):
            b = self.classify(e.value, depth + 1)
            # x.iloc[k] / x.loc[k]
            if isinstance(e.value, ast.Attribute) and e.value.attr in ('iloc', 'loc'):
                b = self.classify(e.value.value, depth + 1)
                if b.kind == 'whole':
                    sl = e.slice
                    if isinstance(sl, ast.Tuple) and len(sl.elts) == 2:
                        return P('sel', b.base, self.key_text(sl.elts[0]), self.key_text(sl.elts[1]), txt)
                    return P('sel', b.base, self.key_text(sl), None, txt)
            if b.kind == 'whole' and b.base == 'values' and isinstance(e.slice, ast.Tuple) and len(e.slice.elts) == 2:
                def _k(x: ast.expr) -> tp.Optional[str]:
                    if isinstance(x, ast.Slice) and x.lower is None and x.upper is None and x.step is None:
                        return None
                    return self.key_text(x)
                return P('sel', 'values', _k(e.slice.elts[0]), _k(e.slice.elts[1]), txt)
            if b.kind == 'whole':
                if b.base == 'blocks':
                    # TypeBlocks.__getitem__ selects columns
                    return P('sel', 'blocks', None, self.key_text(e.slice), txt)
                return P('sel', b.base, self.key_text(e.slice), None, txt)
            if b.kind == 'sel' and b.base in ('values',) and isinstance(e.slice, ast.Constant):
                return b
            return P('fresh', text=txt)
        if isinstance(e, ast.Call):
            cn = call_name(e)
            fn = e.func
            if isinstance(fn, ast.Attribute):
                recv = self.classify(fn.value, depth + 1)
                m = fn.attr
                if recv.kind == 'whole':
                    if m in ('_extract_iloc', '__getitem__') and e.args:
                        if recv.base == 'blocks' and m == '__getitem__':
                            return P('sel', 'blocks', None, self.key_text(e.args[0]), txt)
                        return P('sel', recv.base, self.key_text(e.args[0]), None, txt)
                    if m == '_extract' and recv.base == 'blocks':
                        rk = kwarg(e, 'row_key') or (e.args[0] if e.args else None)
                        ck = kwarg(e, 'column_key') or (e.args[1] if len(e.args) > 1 else None)
                        return P('sel', 'blocks', self.key_text(rk), self.key_text(ck), txt)
                    if m == '_extract_array' and recv.base == 'blocks':
                        rk = kwarg(e, 'row_key') or (e.args[0] if e.args else None)
                        ck = kwarg(e, 'column_key') or (e.args[1] if len(e.args) > 1 else None)
                        return P('sel', 'blocks', self.key_text(rk), self.key_text(ck), txt)
                    if m == '_drop_iloc' and e.args:
                        return P('drop', recv.base, self.key_text(e.args[0]), None, txt)
                    if m == 'drop' and recv.base == 'blocks' and e.args:
                        rk, ck = self.compound_key(e.args[0])
                        return P('drop', 'blocks', rk, ck, txt)
                    if m in ('_drop_blocks',) and recv.base == 'blocks':
                        rk = kwarg(e, 'row_key') or (e.args[0] if e.args else None)
                        ck = kwarg(e, 'column_key') or (e.args[1] if len(e.args) > 1 else None)
                        return P('drop', 'blocks', self.key_text(rk), self.key_text(ck), txt)
                    if m in ('copy', '__copy__') and recv.base in ('blocks', 'index', 'columns'):
                        return recv
                if recv.kind in ('sel', 'drop') and m in ('copy',):
                    return recv
            if cn in ('TypeBlocks.from_blocks', 'self._blocks.from_blocks') and e.args:
                return self.classify(e.args[0], depth + 1)
            if cn == 'np.delete' and len(e.args) >= 2:
                b = self.classify(e.args[0], depth + 1)
                if b.kind == 'whole':
                    return P('drop', b.base, self.key_text(e.args[1]), None, txt)
            if cn in ('immutable_index_filter', 'tp.cast') and e.args:
                return self.classify(e.args[-1], depth + 1)
            return P('fresh', text=txt)
        if isinstance(e, ast.Attribute):
            if e.attr == 'values':
                b = self.classify(e.value, depth + 1)
                if b.kind in ('sel', 'drop', 'whole'):
                    return b
            return P('unk', text=txt)
        return P('unk', text=txt)


CTOR_NAMES = ('self.__class__', 'cls', 'Series', 'Frame', 'FrameGO', 'FrameHE', 'SeriesHE', 'self._derive')


def constructor_calls(f: FuncInfo) -> tp.List[ast.Call]:
    out = []
    for n in walk_local(f.node):
        if isinstance(n, ast.Call) and norm(n.func) in CTOR_NAMES:
            out.append(n)
    return out


def site_provenance(f: FuncInfo, call: ast.Call) -> tp.Dict[str, P]:
    r = Resolver1(f)
    r.at = call
    data = call.args[0] if call.args else (kwarg(call, 'values') or kwarg(call, 'data') or kwarg(call, 'labels'))
    out = {'data': r.classify(data)}
    for k in ('index', 'columns', 'name'):
        v = kwarg(call, k)
        out[k] = r.classify(v) if v is not None else P('unk', text='<absent>')
    return out


def check_site(ctx: Ctx, R: str, f: FuncInfo, call: ast.Call, container: str, expect_name: bool = False) -> None:
    '''container: 'Series' (1 axis: index) or 'Frame' (index + columns).'''
    pv = site_provenance(f, call)
    d = pv['data']
    key = f'{f.name}:{norm(call.func)}({norm(call.args[0])[:40] if call.args else ""})'
    axes = [('index', 'rows')] + ([('columns', 'cols')] if container == 'Frame' else [])
    if d.kind in ('unk', 'fresh', 'multi'):
        ctx.unk(R, f, call, f'values argument not recognised as a selection of self ({d})', key=key)
        return
    problems = []
    undecided = []
    facts = []
    for label_kw, axis_attr in axes:
        lab = pv[label_kw]
        dkey = getattr(d, axis_attr) if d.kind in ('sel', 'drop') else None
        want_base = label_kw
        if lab.kind == 'multi' and lab.alts and all(a.kind in ('whole', 'sel', 'drop') and a.base == want_base for a in lab.alts):
            # alternatives per branch: untouched labels (null key) or the same selection as the values
            bad_alt = [a for a in lab.alts if a.kind != 'whole' and (a.kind != d.kind or not _same_key(a.rows, dkey))]
            wholes = [a for a in lab.alts if a.kind == 'whole']
            unguarded = []
            for a in wholes:
                if dkey is None:
                    continue
                tests = _tests_around(f, a.node)
                keyname = __import__('re').split(r'[#.\[|]', dkey)[0]
                if not any(keyname in t for t in tests):
                    unguarded.append(a)
            if bad_alt:
                problems.append(f'values use key `{dkey}` but on some branch {label_kw} labels are {bad_alt[0]}')
            elif unguarded:
                undecided.append(f'{label_kw}: untouched labels on a branch not visibly guarded by a null test of `{dkey}`')
            else:
                facts.append(f'{label_kw}: same key `{dkey}` (untouched on the null-key branch)')
            continue
        if lab.kind in ('unk', 'fresh', 'multi'):
            if lab.text == '<absent>' and dkey is None:
                problems.append(f'{label_kw} is not passed at all while the values keep this axis: the labels are replaced by an auto index')
            else:
                undecided.append(f'{label_kw}: {lab}')
            continue
        if lab.base != want_base:
            problems.append(f'{label_kw}= is built from self.{lab.base} instead of self.{want_base}')
            continue
        if dkey is None:
            if lab.kind == 'whole':
                facts.append(f'{label_kw}: untouched')
            else:
                problems.append(f'values keep axis {label_kw} whole but the labels are {lab}')
        else:
            if lab.kind == 'whole':
                problems.append(f'values are {d.kind} by `{dkey}` on axis {label_kw} but the labels are passed whole')
            elif lab.kind != d.kind:
                problems.append(f'values are {d.kind} but labels are {lab.kind} on axis {label_kw}')
            elif not _same_key(lab.rows, dkey):
                problems.append(f'values use key `{dkey}` but {label_kw} labels use key `{lab.rows}`')
            else:
                facts.append(f'{label_kw}: same key `{dkey}`')
    if expect_name:
        nm = pv['name']
        if nm.kind == 'whole' and nm.base == 'name':
            facts.append('name passed through')
        elif nm.text == '<absent>':
            problems.append('name is not passed through')
        else:
            undecided.append(f'name: {nm}')
    if problems:
        ctx.bad(R, f, call, '; '.join(problems) + f' (values: {d})', key=key)
    elif undecided:
        ctx.unk(R, f, call, '; '.join(undecided) + f' (values: {d})', key=key)
    else:
        ctx.ok(R, f, call, f'values {d}; ' + '; '.join(facts), key=key)


def _tests_around(f: FuncInfo, node: tp.Optional[ast.AST]) -> tp.List[str]:
    """Texts of the if-tests (and ternary tests) enclosing `node` in f."""
    if node is None:
        return []
    out: tp.List[str] = []

    def rec(n: ast.AST, acc: tp.List[str]) -> bool:
        if n is node:
            out.extend(acc)
            return True
        if isinstance(n, ast.If):
            for ch in n.body + n.orelse:
                if rec(ch, acc + [norm(n.test)]):
                    return True
            return rec(n.test, acc)
        if isinstance(n, ast.IfExp):
            for ch in (n.body, n.orelse):
                if rec(ch, acc + [norm(n.test)]):
                    return True
            return False
        for ch in ast.iter_child_nodes(n):
            if rec(ch, acc):
                return True
        return False
    rec(f.node, [])
    return out


def _same_key(a: tp.Optional[str], b: tp.Optional[str]) -> bool:
    if a is None or b is None:
        return a is b
    return bool(set(a.split('|')) & set(b.split('|')))
