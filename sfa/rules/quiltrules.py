'''C19 rules for Quilt extraction: per path (symbolic store), the per-Frame selection mask is applied on the Quilt's own axis and the
caller's other key on the opposite axis; the mask is set from the key of the Quilt axis; parts are joined along the Quilt axis with
the dtype resolver; retained Bus labels are added on the Quilt axis.'''
from __future__ import annotations

import ast
import typing as tp

from sfa.model import AnalysisError
from sfa.model import call_name
from sfa.model import kwarg
from sfa.model import norm
from sfa.model import walk_local
from sfa.report import Ctx
from sfa.symenv import SymEnv


def _is_component_site(x: ast.AST) -> bool:
    # self._bus.loc[key].iloc[a, b]   /   self._bus.loc[key]._extract_array(a, b)
    if isinstance(x, ast.Subscript) and isinstance(x.value, ast.Attribute) and x.value.attr == 'iloc' and 'self._bus.loc[' in norm(x.value.value) \
            and isinstance(x.slice, ast.Tuple) and len(x.slice.elts) == 2:
        return True
    return isinstance(x, ast.Call) and isinstance(x.func, ast.Attribute) and x.func.attr == '_extract_array' and 'self._bus.loc[' in norm(x.func.value) and len(x.args) == 2


def axis_routing(ctx: Ctx) -> None:
    R = 'I.quilt-axis-routing'
    ctx.rule(R, 'in Quilt._extract and Quilt._extract_array, on every path: the Boolean mask over the axis map is set from the key of the Quilt\'s own axis '
             '(row key for axis 0, column key for axis 1); each Bus Frame is cut with its slice of that mask on the Quilt axis and with the caller\'s other key on '
             'the opposite axis; the parts are joined along self._axis (Frame.from_concat / concat_resolved); retained Bus labels are added as a level on the Quilt axis', floor=12)
    prog = ctx.prog
    n = 0
    for m in ('_extract', '_extract_array'):
        f = prog.method('Quilt', m, inherited=False)
        mask_stores = [a for a in walk_local(f.node) if isinstance(a, ast.Assign) and isinstance(a.targets[0], ast.Subscript) and isinstance(a.value, ast.Constant) and a.value.value is True]
        joins = [c for c in walk_local(f.node) if isinstance(c, ast.Call) and call_name(c) in ('Frame.from_concat', 'concat_resolved', 'np.concatenate', 'Series.from_concat')]
        levels = [c for c in walk_local(f.node) if isinstance(c, ast.Call) and isinstance(c.func, ast.Attribute) and c.func.attr == 'relabel_level_add']
        ids = {id(x) for x in mask_stores + joins + levels}
        se = SymEnv(f.node, watch=lambda x: _is_component_site(x) or id(x) in ids, max_worlds=8192,
                    keep_fact=lambda t: t in ('self._axis == 0', 'self._axis == 1', 'row_key is None', 'column_key is None', 'row_key is not None', 'column_key is not None') or t.startswith('self._retain_labels') or 'isinstance(' in t).run()
        row_k, col_k = 'NULL_SLICE if row_key is None else row_key', 'NULL_SLICE if column_key is None else column_key'

        def is_key(txt: str, name: str, facts: tp.Mapping[str, bool]) -> bool:
            '''the caller's key, defaulted to the null slice when None — as one conditional expression, or as the value it has on this path when the default was
            applied by an if statement'''
            if txt == f'NULL_SLICE if {name} is None else {name}':
                return True
            isn = facts.get(f'{name} is None')
            if isn is None and facts.get(f'{name} is not None') is not None:
                isn = not facts[f'{name} is not None']
            return (isn is True and txt == 'NULL_SLICE') or (isn is False and txt == name)
        for node, worlds in se.all_sites():
            for w in sorted(worlds):
                facts = se.facts(w)
                ax0 = facts.get('self._axis == 0')
                if ax0 is None and facts.get('self._axis == 1') is not None:
                    ax0 = not facts['self._axis == 1']
                if _is_component_site(node):
                    if ax0 is None:
                        continue
                    a0, a1 = (node.slice.elts if isinstance(node, ast.Subscript) else node.args)
                    t0, t1 = se.text(a0, w), se.text(a1, w)
                    n += 1
                    comp_first = '_loc_to_iloc(HLoc[' in t0
                    comp_second = '_loc_to_iloc(HLoc[' in t1
                    if ax0:
                        good = comp_first and not comp_second and is_key(t1, 'column_key', facts)
                    else:
                        good = comp_second and not comp_first and is_key(t0, 'row_key', facts)
                    key = f'Quilt.{m}:component@axis{0 if ax0 else 1}'
                    (ctx.ok if good else ctx.bad)(R, f, node, 'mask slice on the Quilt axis, the caller\'s other key on the opposite axis' if good else
                                                  f'for axis {0 if ax0 else 1} a Frame is cut with `({t0[:50]}, {t1[:50]})`: the selection mask / opposite key are on the wrong axes', key=key)
                elif any(node is x for x in mask_stores):
                    if ax0 is None:
                        continue
                    n += 1
                    k = se.text(node.targets[0].slice, w)
                    good = is_key(k, 'row_key' if ax0 else 'column_key', facts)
                    (ctx.ok if good else ctx.bad)(R, f, node, f'mask set from the {"row" if ax0 else "column"} key' if good else
                                                  f'for axis {0 if ax0 else 1} the axis-map mask is set from `{k[:50]}`', key=f'Quilt.{m}:mask@axis{0 if ax0 else 1}')
                elif any(node is x for x in joins):
                    cn = call_name(node)
                    if cn == 'Series.from_concat':
                        continue
                    n += 1
                    ax = kwarg(node, 'axis')
                    if cn == 'np.concatenate':
                        good = False
                    elif cn == 'concat_resolved' and ax is None:
                        good = True     # 1-D parts: a single axis
                    else:
                        good = norm(ax) == 'self._axis'
                    (ctx.ok if good else ctx.bad)(R, f, node, f'{cn} along self._axis' if good else f'parts are joined by `{norm(node)[:60]}`: not along the Quilt axis / without the dtype resolver',
                                                  key=f'Quilt.{m}:join:{cn}:{norm(ax)}')
                else:
                    if ax0 is None:
                        continue
                    n += 1
                    kw = [k.arg for k in node.keywords]
                    if ax0:
                        good = kw in ([], ['index'])
                    else:
                        # positional form only for a Series component (its one axis): under a flag assigned from isinstance(component, Series)
                        from sfa import roles
                        from sfa.rules.frozen import _enclosing_tests
                        flags = set(roles.assigned_from_all(f.node, lambda v: isinstance(v, ast.Call) and call_name(v) == 'isinstance' and len(v.args) == 2 and norm(v.args[1]) == 'Series'))
                        under_series = any(pol and isinstance(t, ast.Name) and t.id in flags for t, pol in _enclosing_tests(f.node, node))
                        good = kw == ['columns'] or (kw == [] and under_series)
                    (ctx.ok if good else ctx.bad)(R, f, node, 'Bus label added as a level on the Quilt axis' if good else
                                                  f'for axis {0 if ax0 else 1} the Bus label is added with `{norm(node)[:60]}`', key=f'Quilt.{m}:level@axis{0 if ax0 else 1}:{",".join(k or "" for k in kw)}')
    ctx.require(n >= 12, 'Quilt extraction sites')


def option_consulted(ctx: Ctx) -> None:
    R = 'I.quilt-retain-labels-consulted'
    ctx.rule(R, 'a Quilt built with retain_labels=True presents the Bus label as an outer level on its own axis in every Frame / Series it hands out: in each method of '
             'Quilt that branches on self._retain_labels, every path to a value-returning exit (or, for the axis-label builder, to the normal end) has passed a test of '
             'that option; an exit reached without consulting it returns the same labels whether or not the option is set', floor=2)
    from sfa import flow
    prog = ctx.prog
    k = prog.cls('Quilt')
    n = 0
    for defs in k.method_defs.values():
        for f in defs:
            sn = f.self_name()
            if sn is None or f.name == '__init__':
                continue

            def mentions(e: ast.AST) -> bool:
                return any(isinstance(x, ast.Attribute) and x.attr == '_retain_labels' and isinstance(x.value, ast.Name) and x.value.id == sn for x in ast.walk(e))
            if not any(isinstance(i, (ast.If, ast.IfExp, ast.While)) and mentions(i.test) for i in walk_local(f.node)):
                continue

            class C(flow.Client):
                for_at_least_once = True

                def __init__(self):
                    self.bad: tp.List[ast.AST] = []

                def join(self, a, b):
                    return a and b

                def refine(self, atom, st, truth):
                    return True if mentions(atom) else st

                def on_return(self, s, st):
                    if not st and getattr(s, 'value', None) is not None:
                        self.bad.append(s)
            c = C()
            ex = flow.Engine(c).run(f.node.body, False)
            n += 1
            key = f'Quilt.{f.name}'
            returns_value = any(isinstance(r, ast.Return) and r.value is not None for r in walk_local(f.node))
            if not returns_value and ex.fall is False:
                ctx.bad(R, f, f.node, f'{f.name} can reach its normal end without having tested self._retain_labels: the axis labels are built the same way whether or not '
                        'Bus labels are retained', key=key)
            elif c.bad:
                ctx.bad(R, f, c.bad[0], f'`{norm(c.bad[0])[:60]}` is reached on a path that never tested self._retain_labels: with retain_labels=True this exit hands out '
                        'labels without the Bus-label level (the export disagrees with Quilt.index / Quilt.columns)', key=key)
            else:
                ctx.ok(R, f, f.node, 'every value-returning path consults the option', key=key)
    ctx.require(n >= 2, 'Quilt methods branching on _retain_labels')


def key_order(ctx: Ctx) -> None:
    R = 'I.quilt-key-order'
    ctx.rule(R, 'a positional / label key that is a list, an integer array or a descending slice carries an order (and possibly repeats) which the Frame the Quilt stands for '
             'honours: `frame.iloc[[1, 0]]` returns row 1 before row 0. Quilt._extract / _extract_array turn the key of the Quilt axis into a Boolean mask over the axis '
             'map (`mask[key] = True`), a set of positions; unless ordered key kinds are told apart first (a test on list / ndarray / the slice step) and the result is '
             'reordered, the selection comes back in axis order inside each component', floor=2)
    prog = ctx.prog
    n = 0
    for m in ('_extract', '_extract_array'):
        f = prog.method('Quilt', m, inherited=False)
        masks = {a.targets[0].id for a in walk_local(f.node) if isinstance(a, ast.Assign) and isinstance(a.targets[0], ast.Name) and isinstance(a.value, ast.Call)
                 and call_name(a.value) in ('np.full', 'np.zeros') and any(isinstance(x, ast.Constant) and x.value is False for x in ast.walk(a.value))}
        stores = [a for a in walk_local(f.node) if isinstance(a, ast.Assign) and isinstance(a.targets[0], ast.Subscript) and isinstance(a.targets[0].value, ast.Name)
                  and a.targets[0].value.id in masks and isinstance(a.value, ast.Constant) and a.value.value is True]
        ctx.require(bool(stores), f'Quilt.{m} marks the selected positions in a Boolean mask')
        from sfa import roles
        ex = roles.Expander(f.node)
        params = set(f.params)
        for st in stores:
            n += 1
            key = f'Quilt.{m}:mask[key]'
            kexp = ex.expand(st.targets[0].slice)
            from_param = any(p in e for e in kexp for p in params if p.endswith('key'))
            if not from_param:
                ctx.ok(R, f, st, 'the mask is not addressed by the caller\'s key', key=key)
                continue
            kname = {x.id for x in ast.walk(st.targets[0].slice) if isinstance(x, ast.Name)}
            ordered_handled = any(isinstance(i, ast.If) and i.lineno < st.lineno and any(isinstance(x, ast.Name) and (x.id in kname or x.id in params) for x in ast.walk(i.test))
                                  and any(w in norm(i.test) for w in ('list', 'ndarray', 'KEY_MULTIPLE', 'KEY_ITERABLE', '.step')) for i in walk_local(f.node))
            if ordered_handled:
                ctx.ok(R, f, st, 'ordered key kinds are told apart before the key becomes a mask', key=key)
            else:
                ctx.bad(R, f, st, f'`{norm(st)}` turns the caller\'s key (`{sorted(kexp)[0][:50]}`) into a set of positions: the order (and repeats) of a list / array / '
                        'descending-slice key is lost inside each component, unlike the Frame the Quilt stands for', key=key)
    ctx.require(n >= 2, 'mask stores of Quilt._extract / _extract_array')
