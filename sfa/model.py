'''Program model: parse static_frame/core, index modules / classes / functions, resolve MRO
and calls.  Nothing from the analysed repository is imported or executed.
'''
from __future__ import annotations

import ast
import copy
import hashlib
import os
import sys
import typing as tp


class AnalysisError(Exception):
    '''The analysis itself cannot stand (anchor vanished, parse failure, floor missed).'''


CORE_PKG = 'static_frame.core'


def unparse(node: tp.Optional[ast.AST]) -> str:
    if node is None:
        return ''
    try:
        return ast.unparse(node)
    except Exception:  # pragma: no cover
        return '<unparse-failed>'


def norm(node: tp.Optional[ast.AST]) -> str:
    '''Normalised statement text: the key for findings (never a line number).'''
    if node is None:
        return ' '.join(unparse(node).split())
    # keyword arguments are unordered for our purposes (their values are side-effect free in the analysed code): sort them by name
    if any(isinstance(c, ast.Call) and len(c.keywords) > 1 for c in ast.walk(node)):
        import copy
        node = copy.deepcopy(node)
        for c in ast.walk(node):
            if isinstance(c, ast.Call) and len(c.keywords) > 1:
                named = sorted((k for k in c.keywords if k.arg is not None), key=lambda k: k.arg)
                c.keywords = named + [k for k in c.keywords if k.arg is None]
    return ' '.join(unparse(node).split())


FUNC_TYPES = (ast.FunctionDef, ast.AsyncFunctionDef, ast.Lambda)
SCOPE_TYPES = FUNC_TYPES + (ast.ClassDef,)


def walk_local(node: ast.AST, include_root: bool = True) -> tp.Iterator[ast.AST]:
    '''Walk a function body without descending into nested function / class / lambda scopes
    (comprehensions are descended: their bodies execute inline for our purposes).'''
    stack = [node]
    first = True
    while stack:
        n = stack.pop()
        if not first and isinstance(n, SCOPE_TYPES):
            yield n          # the nested scope itself is visible (a def statement / lambda expression), its body is not
            continue
        if include_root or not first:
            yield n
        first = False
        stack.extend(reversed(list(ast.iter_child_nodes(n))))


def doc_order(root: ast.AST) -> tp.Dict[int, int]:
    """id(node) -> position in a depth-first, source-order walk of root.  Line numbers do not order statements the model spliced in from a helper
    (they keep the helper's own lines, for reporting); this does."""
    out: tp.Dict[int, int] = {}
    stack = [root]
    while stack:
        n = stack.pop()
        out[id(n)] = len(out)
        stack.extend(reversed(list(ast.iter_child_nodes(n))))
    return out


def walk_stmts(body: tp.Sequence[ast.stmt]) -> tp.Iterator[ast.stmt]:
    '''All statements, in source order, nested compound statements included, nested scopes excluded.'''
    for s in body:
        yield s
        if isinstance(s, SCOPE_TYPES):
            continue
        for field in ('body', 'orelse', 'finalbody'):
            sub = getattr(s, field, None)
            if sub and isinstance(sub, list) and sub and isinstance(sub[0], ast.stmt):
                yield from walk_stmts(sub)
        if isinstance(s, ast.Try):
            for h in s.handlers:
                yield from walk_stmts(h.body)
        if hasattr(ast, 'Match') and isinstance(s, getattr(ast, 'Match')):
            for c in s.cases:
                yield from walk_stmts(c.body)


def attr_chain(node: ast.AST) -> tp.Optional[tp.Tuple[str, ...]]:
    '''a.b.c -> ('a','b','c'); None when the root is not a Name.'''
    parts: tp.List[str] = []
    while isinstance(node, ast.Attribute):
        parts.append(node.attr)
        node = node.value
    if isinstance(node, ast.Name):
        parts.append(node.id)
        return tuple(reversed(parts))
    return None


def call_name(call: ast.Call) -> str:
    '''Dotted text of the callee, '' when not a plain dotted name.'''
    ch = attr_chain(call.func)
    return '.'.join(ch) if ch else ''


def kwarg(call: ast.Call, name: str) -> tp.Optional[ast.expr]:
    for k in call.keywords:
        if k.arg == name:
            return k.value
    return None


def is_const(node: tp.Optional[ast.AST], value: tp.Any) -> bool:
    return isinstance(node, ast.Constant) and node.value is value


class FuncInfo:
    __slots__ = ('name', 'qualname', 'module', 'cls', 'node', 'parent', 'decorators',
                 'kind', 'nested', 'params')

    def __init__(self, name, qualname, module, cls, node, parent):
        self.name: str = name
        self.qualname: str = qualname
        self.module: 'Module' = module
        self.cls: tp.Optional['ClassInfo'] = cls
        self.node = node
        self.parent: tp.Optional['FuncInfo'] = parent
        self.nested: tp.List['FuncInfo'] = []
        decos = []
        for d in getattr(node, 'decorator_list', ()):
            target = d.func if isinstance(d, ast.Call) else d
            ch = attr_chain(target)
            decos.append('.'.join(ch) if ch else unparse(target))
        self.decorators: tp.List[str] = decos
        kind = 'function'
        if cls is not None and parent is None:
            kind = 'method'
            if 'staticmethod' in decos:
                kind = 'staticmethod'
            elif 'classmethod' in decos:
                kind = 'classmethod'
            elif 'property' in decos or any(d.endswith('.setter') or d.endswith('.getter') for d in decos):
                kind = 'property'
        self.kind: str = kind
        a = node.args
        self.params: tp.List[str] = [x.arg for x in (list(getattr(a, 'posonlyargs', [])) + a.args)]
        if a.vararg:
            self.params.append('*' + a.vararg.arg)
        self.params.extend(x.arg for x in a.kwonlyargs)
        if a.kwarg:
            self.params.append('**' + a.kwarg.arg)

    @property
    def body(self) -> tp.List[ast.stmt]:
        if isinstance(self.node, ast.Lambda):
            return [ast.Return(value=self.node.body, lineno=self.node.lineno, col_offset=0)]
        return self.node.body

    @property
    def lineno(self) -> int:
        return self.node.lineno

    @property
    def file(self) -> str:
        return self.module.relpath

    def is_generator(self) -> bool:
        for n in walk_local(self.node):
            if isinstance(n, (ast.Yield, ast.YieldFrom)):
                return True
        return False

    def param_default(self, name: str) -> tp.Optional[ast.expr]:
        a = self.node.args
        pos = list(getattr(a, 'posonlyargs', [])) + a.args
        defaults = [None] * (len(pos) - len(a.defaults)) + list(a.defaults)
        for p, d in zip(pos, defaults):
            if p.arg == name:
                return d
        for p, d in zip(a.kwonlyargs, a.kw_defaults):
            if p.arg == name:
                return d
        return None

    def param_annotation(self, name: str) -> tp.Optional[ast.expr]:
        a = self.node.args
        for p in list(getattr(a, 'posonlyargs', [])) + a.args + a.kwonlyargs:
            if p.arg == name:
                return p.annotation
        return None

    def self_name(self) -> tp.Optional[str]:
        if self.kind in ('method', 'property', 'classmethod') and self.params:
            return self.params[0]
        return None

    def __repr__(self) -> str:
        return f'<Func {self.qualname}>'


class ClassInfo:
    def __init__(self, name: str, module: 'Module', node: ast.ClassDef):
        self.name = name
        self.module = module
        self.node = node
        self.base_names: tp.List[str] = []
        for b in node.bases:
            ch = attr_chain(b)
            if ch:
                self.base_names.append(ch[-1])
        self.bases: tp.List['ClassInfo'] = []
        self.mro: tp.List['ClassInfo'] = [self]
        self.subclasses: tp.List['ClassInfo'] = []  # direct
        self.methods: tp.Dict[str, FuncInfo] = {}
        self.method_defs: tp.Dict[str, tp.List[FuncInfo]] = {}  # property + setter share a name
        self.attrs: tp.Dict[str, ast.expr] = {}      # class-level NAME = expr (incl. post-class)
        self.annotations: tp.Dict[str, str] = {}     # class-level NAME: ann
        self.slots: tp.Optional[tp.List[str]] = None

    @property
    def qualname(self) -> str:
        return f'{self.module.short}.{self.name}'

    def lookup(self, name: str) -> tp.Optional[FuncInfo]:
        for k in self.mro:
            f = k.methods.get(name)
            if f is not None:
                return f
        return None

    def lookup_attr(self, name: str) -> tp.Optional[ast.expr]:
        for k in self.mro:
            if name in k.attrs:
                return k.attrs[name]
        return None

    def lookup_annotation(self, name: str) -> tp.Optional[str]:
        for k in self.mro:
            if name in k.annotations:
                return k.annotations[name]
        return None

    def all_subclasses(self) -> tp.List['ClassInfo']:
        out: tp.List['ClassInfo'] = []
        seen = set()
        stack = list(self.subclasses)
        while stack:
            k = stack.pop()
            if id(k) in seen:
                continue
            seen.add(id(k))
            out.append(k)
            stack.extend(k.subclasses)
        return out

    def is_subclass_of(self, name: str) -> bool:
        return any(k.name == name for k in self.mro)

    def __repr__(self) -> str:
        return f'<Class {self.qualname}>'


_BUILTIN_TYPES = ('str', 'int', 'float', 'bool', 'bytes', 'tuple', 'list', 'dict', 'set', 'frozenset', 'object', 'type', 'slice', 'complex')


def canon_text(src: str) -> str:
    '''Normalised text of an expression / statement given as source, in the canonical form of the analysed program.'''
    tree = canonicalise(ast.parse(src))
    node = tree.body[0]
    return norm(node.value if isinstance(node, ast.Expr) else node)


def _is_constlike(e: ast.expr) -> bool:
    if isinstance(e, ast.Constant):
        return True
    if isinstance(e, ast.UnaryOp) and isinstance(e.op, ast.USub) and isinstance(e.operand, ast.Constant):
        return True
    if isinstance(e, ast.Name) and (e.id.isupper() or e.id[:1].isupper() or e.id in _BUILTIN_TYPES):
        return True             # UPPER_CASE constant, ClassName or builtin type
    if isinstance(e, ast.Attribute):
        if e.attr.isupper():
            return True
        root = e
        while isinstance(root, ast.Attribute):
            root = root.value
        if isinstance(root, ast.Name) and (root.id in ('np', 'numpy', 'tp', 'datetime', 'operator', 'os') or root.id.isupper()):
            return True         # np.ndarray, np.nan, ... : names of the library, not values of the program
    return False


def canonicalise(tree: ast.AST) -> ast.AST:
    """Behaviour-preserving normal form of the analysed program, so that no rule depends on incidental spelling:
      * symmetric comparisons (==, !=, is, is not) have the constant-like operand (literal, UPPER_CASE name) on the right, otherwise the
        textually smaller operand on the left;
      * `if not a: Y else: X` (with a real else, not an elif) is `if a: X else: Y`;
      * an annotated local assignment `x: T = v` inside a function is `x = v`;
      * a call-free temporary read only by the next statement is folded into it (see _inline_adjacent_temporaries).
    Positions (lineno / col_offset) are kept."""
    for c in ast.walk(tree):
        if isinstance(c, ast.Compare) and len(c.ops) == 1 and isinstance(c.ops[0], (ast.Eq, ast.NotEq, ast.Is, ast.IsNot)):
            l, r = c.left, c.comparators[0]
            lc, rc = _is_constlike(l), _is_constlike(r)
            swap = (lc and not rc) or (lc == rc and ast.unparse(l) > ast.unparse(r))
            if swap:
                c.left, c.comparators[0] = r, l
    for i in ast.walk(tree):
        if isinstance(i, ast.If) and isinstance(i.test, ast.UnaryOp) and isinstance(i.test.op, ast.Not) and i.orelse \
                and not (len(i.orelse) == 1 and isinstance(i.orelse[0], ast.If)):
            i.test = i.test.operand
            i.body, i.orelse = i.orelse, i.body

    class T(ast.NodeTransformer):
        def __init__(self):
            self.depth = 0

        def visit_FunctionDef(self, node):
            self.depth += 1
            self.generic_visit(node)
            self.depth -= 1
            return node
        visit_AsyncFunctionDef = visit_FunctionDef

        def visit_ClassDef(self, node):
            d, self.depth = self.depth, 0
            self.generic_visit(node)
            self.depth = d
            return node

        def visit_AnnAssign(self, node):
            if self.depth and node.value is not None and isinstance(node.target, ast.Name):
                return ast.copy_location(ast.Assign(targets=[node.target], value=node.value), node)
            return node
    T().visit(tree)
    _hoist_test_walrus(tree)
    _fold_simple_generators(tree)
    _fold_while_counters(tree)
    _split_tuple_assigns(tree)
    _fold_append_loops(tree)
    _inline_adjacent_temporaries(tree)
    _unroll_literal_loops(tree)
    _fold_const_attr(tree)
    ast.fix_missing_locations(tree)
    return tree


_PURE_NODES = (ast.Name, ast.Attribute, ast.Subscript, ast.Constant, ast.BinOp, ast.Compare, ast.Tuple, ast.UnaryOp, ast.Slice, ast.expr_context, ast.operator, ast.cmpop,
               ast.unaryop)


def _fold_if_assign(tree: ast.AST) -> None:
    '''`if c: x = a` / `else: x = b` (one plain assignment to the same name in each branch, nothing else) is `x = a if c else b`.'''
    for fn in ast.walk(tree):
        if not isinstance(fn, (ast.FunctionDef, ast.AsyncFunctionDef)):
            continue
        for holder in ast.walk(fn):
            for field in ('body', 'orelse', 'finalbody'):
                st = getattr(holder, field, None)
                if not isinstance(st, list):
                    continue
                for i, s_ in enumerate(st):
                    if isinstance(s_, ast.If) and len(s_.body) == 1 and len(s_.orelse) == 1:
                        a, b = s_.body[0], s_.orelse[0]
                        if isinstance(a, ast.Assign) and isinstance(b, ast.Assign) and len(a.targets) == 1 and len(b.targets) == 1 \
                                and isinstance(a.targets[0], ast.Name) and isinstance(b.targets[0], ast.Name) and a.targets[0].id == b.targets[0].id \
                                and not any(isinstance(x, (ast.Yield, ast.YieldFrom, ast.Await, ast.NamedExpr)) for v in (a.value, b.value, s_.test) for x in ast.walk(v)):
                            st[i] = ast.copy_location(ast.Assign(targets=[a.targets[0]], value=ast.copy_location(ast.IfExp(test=s_.test, body=a.value, orelse=b.value), s_)), s_)


def _fold_simple_generators(tree: ast.AST) -> None:
    """A nested generator function without parameters whose body is one loop around one `yield` (optionally under one `if`), and that is named once — by a call —
    is the generator expression `(E for T in I [if c])` written where the call stands."""
    for fn in ast.walk(tree):
        if not isinstance(fn, (ast.FunctionDef, ast.AsyncFunctionDef)):
            continue
        for holder in ast.walk(fn):
            for field in ('body', 'orelse', 'finalbody'):
                st = getattr(holder, field, None)
                if not isinstance(st, list):
                    continue
                for g in list(st):
                    if not isinstance(g, ast.FunctionDef) or g is fn or g.decorator_list:
                        continue
                    a = g.args
                    if a.args or a.kwonlyargs or a.vararg or a.kwarg or a.posonlyargs:
                        continue
                    gb = [b for b in g.body if not (isinstance(b, ast.Expr) and isinstance(b.value, ast.Constant) and isinstance(b.value.value, str))]
                    if len(gb) != 1 or not isinstance(gb[0], ast.For) or gb[0].orelse or len(gb[0].body) != 1:
                        continue
                    inner = gb[0].body[0]
                    cond = None
                    if isinstance(inner, ast.If) and not inner.orelse and len(inner.body) == 1:
                        cond, inner = inner.test, inner.body[0]
                    if not (isinstance(inner, ast.Expr) and isinstance(inner.value, ast.Yield) and inner.value.value is not None):
                        continue
                    if any(isinstance(x, (ast.Yield, ast.YieldFrom, ast.Await, ast.NamedExpr)) for x in ast.walk(inner.value.value)) or \
                            any(isinstance(x, (ast.Yield, ast.YieldFrom, ast.Await, ast.NamedExpr)) for x in ast.walk(gb[0].iter)):
                        continue
                    uses = [x for x in ast.walk(fn) if isinstance(x, ast.Name) and x.id == g.name]
                    calls = [x for x in ast.walk(fn) if isinstance(x, ast.Call) and isinstance(x.func, ast.Name) and x.func.id == g.name and not x.args and not x.keywords]
                    if len(uses) != 1 or len(calls) != 1 or any(isinstance(x, ast.FunctionDef) and x.name == g.name and x is not g for x in ast.walk(fn)):
                        continue
                    # the call must come after the definition in the same statement list (not inside another nested def, whose late binding we keep)
                    idx = st.index(g)
                    later = [x for s_ in st[idx + 1:] for x in ast.walk(s_)]
                    if not any(x is calls[0] for x in later):
                        continue
                    inner_scopes = {id(y) for s_ in st[idx + 1:] for x in ast.walk(s_) if isinstance(x, (ast.FunctionDef, ast.Lambda)) for y in ast.walk(x)}
                    if id(calls[0]) in inner_scopes:
                        continue
                    ge = ast.GeneratorExp(elt=inner.value.value, generators=[ast.comprehension(target=gb[0].target, iter=gb[0].iter, ifs=[cond] if cond is not None else [], is_async=0)])
                    target_call = calls[0]

                    class Sub(ast.NodeTransformer):
                        def visit_Call(self, node):
                            if node is target_call:
                                return ast.copy_location(ge, node)
                            return self.generic_visit(node)
                    for s_ in st[idx + 1:]:
                        Sub().visit(s_)
                    st.remove(g)
                    if not st:
                        st.append(ast.copy_location(ast.Pass(), g))
        ast.fix_missing_locations(fn)


def _fold_while_counters(tree: ast.AST) -> None:
    """`i = 0` / [`n = len(X)`] / `while i < n: [g = X[i];] BODY; i += 1` — a counter that is only read in BODY, no `continue`, nothing else writes i, n or X —
    is `for i, g in enumerate(X): BODY` (or `for i in range(n): BODY` when the element is not taken first)."""
    for fn in ast.walk(tree):
        if not isinstance(fn, (ast.FunctionDef, ast.AsyncFunctionDef)):
            continue
        for holder in ast.walk(fn):
            for field in ('body', 'orelse', 'finalbody'):
                st = getattr(holder, field, None)
                if not isinstance(st, list):
                    continue
                k = 0
                while k < len(st):
                    w = st[k]
                    k += 1
                    if not isinstance(w, ast.While) or w.orelse or len(w.body) < 2:
                        continue
                    t = w.test
                    if not (isinstance(t, ast.Compare) and len(t.ops) == 1 and isinstance(t.left, ast.Name)):
                        continue
                    # canonical comparison order may have put the counter on either side
                    if isinstance(t.ops[0], ast.Lt):
                        i_nm, bound = t.left.id, t.comparators[0]
                    elif isinstance(t.ops[0], ast.Gt) and isinstance(t.comparators[0], ast.Name):
                        i_nm, bound = t.comparators[0].id, t.left
                    else:
                        continue
                    last = w.body[-1]
                    if not (isinstance(last, ast.AugAssign) and isinstance(last.op, ast.Add) and isinstance(last.target, ast.Name) and last.target.id == i_nm
                            and isinstance(last.value, ast.Constant) and last.value.value == 1):
                        continue
                    inner = w.body[:-1]
                    if any(isinstance(x, ast.Continue) for b in inner for x in ast.walk(b)):
                        continue
                    if any(isinstance(x, ast.Name) and x.id == i_nm and isinstance(x.ctx, (ast.Store, ast.Del)) for b in inner for x in ast.walk(b)):
                        continue
                    # the counter starts at 0 just before (optionally with the bound's own definition in between)
                    pre = st[:k - 1]
                    j = len(pre) - 1
                    n_def = None
                    if j >= 0 and isinstance(bound, ast.Name) and isinstance(pre[j], ast.Assign) and len(pre[j].targets) == 1 and isinstance(pre[j].targets[0], ast.Name) \
                            and pre[j].targets[0].id == bound.id:
                        n_def = pre[j]
                        j -= 1
                    if not (j >= 0 and isinstance(pre[j], ast.Assign) and len(pre[j].targets) == 1 and isinstance(pre[j].targets[0], ast.Name) and pre[j].targets[0].id == i_nm
                            and isinstance(pre[j].value, ast.Constant) and pre[j].value.value == 0 and pre[j].value.value is not False):
                        # `n = len(X)` then `i = 0`
                        if n_def is None and j >= 1 and isinstance(bound, ast.Name) and isinstance(pre[j], ast.Assign) and False:
                            pass
                        continue
                    i_def = pre[j]
                    # the counter is not read after the loop in this statement list
                    if any(isinstance(x, ast.Name) and x.id == i_nm for b in st[k:] for x in ast.walk(b)):
                        continue
                    bound_e = n_def.value if n_def is not None else bound
                    seq = None
                    if isinstance(bound_e, ast.Call) and isinstance(bound_e.func, ast.Name) and bound_e.func.id == 'len' and len(bound_e.args) == 1 and isinstance(bound_e.args[0], ast.Name):
                        seq = bound_e.args[0].id
                    written = {x.id for b in inner for x in ast.walk(b) if isinstance(x, ast.Name) and isinstance(x.ctx, (ast.Store, ast.Del))}
                    if (seq is not None and seq in written) or (isinstance(bound, ast.Name) and bound.id in written):
                        continue
                    if n_def is not None and any(isinstance(x, ast.Name) and x.id == bound.id for b in inner + st[k:] for x in ast.walk(b)):
                        n_keep = True
                    else:
                        n_keep = False
                    first = inner[0]
                    if seq is not None and isinstance(first, ast.Assign) and len(first.targets) == 1 and isinstance(first.targets[0], ast.Name) \
                            and isinstance(first.value, ast.Subscript) and isinstance(first.value.value, ast.Name) and first.value.value.id == seq \
                            and isinstance(first.value.slice, ast.Name) and first.value.slice.id == i_nm and len(inner) >= 2:
                        target = ast.Tuple(elts=[ast.Name(id=i_nm, ctx=ast.Store()), ast.Name(id=first.targets[0].id, ctx=ast.Store())], ctx=ast.Store())
                        it = ast.Call(func=ast.Name(id='enumerate', ctx=ast.Load()), args=[ast.Name(id=seq, ctx=ast.Load())], keywords=[])
                        body = inner[1:]
                    else:
                        target = ast.Name(id=i_nm, ctx=ast.Store())
                        it = ast.Call(func=ast.Name(id='range', ctx=ast.Load()), args=[copy.deepcopy(bound_e)], keywords=[])
                        body = inner
                    loop = ast.copy_location(ast.For(target=target, iter=it, body=body, orelse=[], type_comment=None), w)
                    st[k - 1] = loop
                    drop = [i_def] + ([n_def] if n_def is not None and not n_keep else [])
                    for d in drop:
                        st.remove(d)
                        k -= 1
        ast.fix_missing_locations(fn)


def _unroll_literal_loops(tree: ast.AST) -> None:
    """`for T in (e1, e2, ...)` over a literal of at most four call-free elements, the body free of break / continue / else and not assigning T, is the body written out
    once per element with T replaced by it: the inverse of merging repeated statements into a loop over their operands."""
    for fn in ast.walk(tree):
        if not isinstance(fn, (ast.FunctionDef, ast.AsyncFunctionDef)):
            continue
        changed = False
        for holder in ast.walk(fn):
            for field in ('body', 'orelse', 'finalbody'):
                st = getattr(holder, field, None)
                if not isinstance(st, list):
                    continue
                k = 0
                while k < len(st):
                    lp = st[k]
                    k += 1
                    if not isinstance(lp, ast.For) or lp.orelse or not isinstance(lp.iter, (ast.Tuple, ast.List)) or not 1 <= len(lp.iter.elts) <= 4:
                        continue
                    if any(isinstance(x, (ast.Break, ast.Continue, ast.FunctionDef, ast.Lambda, ast.Yield, ast.YieldFrom)) for b in lp.body for x in ast.walk(b)):
                        continue
                    tnames = [lp.target.id] if isinstance(lp.target, ast.Name) else \
                        ([e.id for e in lp.target.elts] if isinstance(lp.target, ast.Tuple) and all(isinstance(e, ast.Name) for e in lp.target.elts) else None)
                    if tnames is None:
                        continue
                    if any(isinstance(x, ast.Name) and x.id in tnames and isinstance(x.ctx, (ast.Store, ast.Del)) for b in lp.body for x in ast.walk(b)):
                        continue
                    # the names are not read after the loop
                    rows = []
                    ok = True
                    for e in lp.iter.elts:
                        vals = [e] if isinstance(lp.target, ast.Name) else (list(e.elts) if isinstance(e, (ast.Tuple, ast.List)) and len(e.elts) == len(tnames) else None)
                        if vals is None or any(isinstance(v, ast.Starred) for v in vals):
                            ok = False
                            break
                        # an element that calls something is evaluated once per iteration: it may stand where its name is read, if that is at most once
                        for tn, v in zip(tnames, vals):
                            if not all(isinstance(x, _PURE_NODES) for x in ast.walk(v)):
                                nreads = sum(1 for b in lp.body for x in ast.walk(b) if isinstance(x, ast.Name) and x.id == tn)
                                in_loop = any(isinstance(o, (ast.For, ast.While, ast.ListComp, ast.GeneratorExp, ast.SetComp, ast.DictComp, ast.Lambda)) and
                                              any(isinstance(x, ast.Name) and x.id == tn for x in ast.walk(o)) for b in lp.body for o in ast.walk(b))
                                if nreads > 1 or in_loop or any(isinstance(x, (ast.Yield, ast.YieldFrom, ast.Await, ast.NamedExpr)) for x in ast.walk(v)):
                                    ok = False
                        if not ok:
                            break
                        rows.append(dict(zip(tnames, vals)))
                    if not ok:
                        continue
                    if any(isinstance(x, ast.Name) and x.id in tnames for b in st[k:] for x in ast.walk(b)):
                        continue
                    out: tp.List[ast.stmt] = []
                    for row in rows:
                        class S(ast.NodeTransformer):
                            def visit_Name(self, node):
                                if node.id in row and isinstance(node.ctx, ast.Load):
                                    return ast.copy_location(copy.deepcopy(row[node.id]), node)
                                return node
                        out.extend(S().visit(copy.deepcopy(b)) for b in lp.body)
                    st[k - 1:k] = out
                    k += len(out) - 1
                    changed = True
        if changed:
            ast.fix_missing_locations(fn)


def _fold_const_attr(tree: ast.AST) -> None:
    """`setattr(o, 'name', v)` as a statement is `o.name = v`; `getattr(o, 'name')` is `o.name`."""
    class A(ast.NodeTransformer):
        def visit_Expr(self, node):
            self.generic_visit(node)
            c = node.value
            if isinstance(c, ast.Call) and isinstance(c.func, ast.Name) and c.func.id == 'setattr' and len(c.args) == 3 and not c.keywords \
                    and isinstance(c.args[1], ast.Constant) and isinstance(c.args[1].value, str) and c.args[1].value.isidentifier():
                return ast.copy_location(ast.Assign(targets=[ast.Attribute(value=c.args[0], attr=c.args[1].value, ctx=ast.Store())], value=c.args[2]), node)
            return node

        def visit_Call(self, node):
            self.generic_visit(node)
            if isinstance(node.func, ast.Name) and node.func.id == 'getattr' and len(node.args) == 2 and not node.keywords \
                    and isinstance(node.args[1], ast.Constant) and isinstance(node.args[1].value, str) and node.args[1].value.isidentifier():
                return ast.copy_location(ast.Attribute(value=node.args[0], attr=node.args[1].value, ctx=ast.Load()), node)
            return node
    A().visit(tree)


def _hoist_test_walrus(tree: ast.AST) -> None:
    """`if (x := E) ...:` where the assignment expression is the first thing the test evaluates is `x = E` followed by `if x ...:`."""
    def leftmost(e: ast.AST, parent=None, field=None):
        while True:
            if isinstance(e, ast.NamedExpr):
                return e, parent, field
            if isinstance(e, ast.Compare):
                parent, field, e = e, 'left', e.left
            elif isinstance(e, ast.BoolOp):
                parent, field, e = e, ('values', 0), e.values[0]
            elif isinstance(e, ast.UnaryOp):
                parent, field, e = e, 'operand', e.operand
            elif isinstance(e, (ast.Attribute, ast.Subscript)):
                parent, field, e = e, 'value', e.value
            elif isinstance(e, ast.Call):
                parent, field, e = e, 'func', e.func
            elif isinstance(e, ast.BinOp):
                parent, field, e = e, 'left', e.left
            else:
                return None, None, None
    for fn in ast.walk(tree):
        if not isinstance(fn, (ast.FunctionDef, ast.AsyncFunctionDef)):
            continue
        for holder in ast.walk(fn):
            for fld in ('body', 'orelse', 'finalbody'):
                st = getattr(holder, fld, None)
                if not isinstance(st, list):
                    continue
                k = 0
                while k < len(st):
                    s_ = st[k]
                    k += 1
                    if not isinstance(s_, ast.If):
                        continue
                    w, parent, field = leftmost(s_.test)
                    if w is None:
                        continue
                    nm = ast.copy_location(ast.Name(id=w.target.id, ctx=ast.Load()), w)
                    if parent is None:
                        s_.test = nm
                    elif isinstance(field, tuple):
                        getattr(parent, field[0])[field[1]] = nm
                    else:
                        setattr(parent, field, nm)
                    st.insert(k - 1, ast.copy_location(ast.Assign(targets=[ast.Name(id=w.target.id, ctx=ast.Store())], value=w.value), s_))
                    k += 1


def _split_tuple_assigns(tree: ast.AST) -> None:
    '''`a, b = x, y` (both sides tuples of one length, no target name read on the right) is `a = x; b = y`.'''
    for fn in ast.walk(tree):
        if not isinstance(fn, (ast.FunctionDef, ast.AsyncFunctionDef)):
            continue
        for holder in ast.walk(fn):
            for field in ('body', 'orelse', 'finalbody'):
                st = getattr(holder, field, None)
                if not isinstance(st, list):
                    continue
                i = 0
                while i < len(st):
                    a = st[i]
                    if isinstance(a, ast.Assign) and len(a.targets) == 1 and isinstance(a.targets[0], ast.Tuple) and isinstance(a.value, ast.Tuple) \
                            and len(a.targets[0].elts) == len(a.value.elts) and all(isinstance(t, ast.Name) for t in a.targets[0].elts) \
                            and not any(isinstance(e, ast.Starred) for e in a.value.elts):
                        tl = [t.id for t in a.targets[0].elts]
                        # sequential assignment equals the parallel one when no element reads a target that an earlier position has already changed
                        safe = len(set(tl)) == len(tl)
                        for j, e in enumerate(a.value.elts):
                            for x in ast.walk(e):
                                if isinstance(x, ast.Name) and x.id in tl[:j]:
                                    k_ = tl.index(x.id)
                                    if not (isinstance(a.value.elts[k_], ast.Name) and a.value.elts[k_].id == x.id):
                                        safe = False
                        if safe:
                            st[i:i + 1] = [ast.copy_location(ast.Assign(targets=[t], value=e), a) for t, e in zip(a.targets[0].elts, a.value.elts)]
                            i += len(a.value.elts)
                            continue
                    i += 1


def _fold_append_loops(tree: ast.AST) -> None:
    '''`L = []` immediately followed by `for T in IT: L.append(E)` (optionally under one `if C:` without else; no other statement in the loop, L not read by E, C or
    IT) is the list comprehension `L = [E for T in IT if C]`: the two spellings of one thing are analysed as one.'''
    for fn in ast.walk(tree):
        if not isinstance(fn, (ast.FunctionDef, ast.AsyncFunctionDef)):
            continue
        for holder in ast.walk(fn):
            for field in ('body', 'orelse', 'finalbody'):
                st = getattr(holder, field, None)
                if not isinstance(st, list):
                    continue
                i = 0
                while i < len(st) - 1:
                    a, lp = st[i], st[i + 1]
                    ok = isinstance(a, ast.Assign) and len(a.targets) == 1 and isinstance(a.targets[0], ast.Name) and \
                        ((isinstance(a.value, ast.List) and not a.value.elts) or (isinstance(a.value, ast.Call) and isinstance(a.value.func, ast.Name) and a.value.func.id == 'list'
                                                                              and not a.value.args and not a.value.keywords)) \
                        and isinstance(lp, ast.For) and not lp.orelse and len(lp.body) == 1
                    if ok:
                        nm = a.targets[0].id
                        b = lp.body[0]
                        cond = None
                        if isinstance(b, ast.If) and not b.orelse and len(b.body) == 1:
                            cond, b = b.test, b.body[0]
                        ok = isinstance(b, ast.Expr) and isinstance(b.value, ast.Call) and isinstance(b.value.func, ast.Attribute) and b.value.func.attr == 'append' \
                            and isinstance(b.value.func.value, ast.Name) and b.value.func.value.id == nm and len(b.value.args) == 1 and not b.value.keywords
                        if ok:
                            elt = b.value.args[0]
                            others = [x for part in (elt, lp.iter, cond) if part is not None for x in ast.walk(part)]
                            if not any(isinstance(x, ast.Name) and x.id == nm for x in others) and not any(isinstance(x, (ast.Yield, ast.YieldFrom, ast.Await)) for x in others):
                                comp = ast.ListComp(elt=elt, generators=[ast.comprehension(target=lp.target, iter=lp.iter, ifs=[cond] if cond is not None else [], is_async=0)])
                                new = ast.Assign(targets=[a.targets[0]], value=ast.copy_location(comp, lp))
                                st[i:i + 2] = [ast.copy_location(new, a)]
                                continue
                    i += 1


def _inline_adjacent_temporaries(tree: ast.AST) -> None:
    '''`t = <call-free expression>` immediately followed by the only statement that reads `t` (a plain assignment, expression, return or augmented assignment of
    the same block; `t` bound once in the function) is folded into that statement: the inverse of hoisting an argument into a local.  What a rule sees is then
    the same whether or not a sub-expression was given a name on the line before.'''
    for fn in ast.walk(tree):
        if not isinstance(fn, (ast.FunctionDef, ast.AsyncFunctionDef)):
            continue
        stores: tp.Dict[str, int] = {}
        loads: tp.Dict[str, int] = {}
        for x in ast.walk(fn):
            if isinstance(x, ast.Name):
                d = stores if isinstance(x.ctx, (ast.Store, ast.Del)) else loads
                d[x.id] = d.get(x.id, 0) + 1
        params = {a.arg for a in fn.args.posonlyargs + fn.args.args + fn.args.kwonlyargs} | ({fn.args.vararg.arg} if fn.args.vararg else set()) | \
            ({fn.args.kwarg.arg} if fn.args.kwarg else set())
        for holder in ast.walk(fn):
            for field in ('body', 'orelse', 'finalbody'):
                st = getattr(holder, field, None)
                if not isinstance(st, list):
                    continue
                i = 0
                while i < len(st) - 1:
                    a, nxt = st[i], st[i + 1]
                    if isinstance(a, ast.Assign) and len(a.targets) == 1 and isinstance(a.targets[0], ast.Name) and not isinstance(a.value, ast.Constant) \
                            and not any(isinstance(x, (ast.Yield, ast.YieldFrom, ast.Await, ast.NamedExpr)) for x in ast.walk(a.value)) \
                            and isinstance(nxt, (ast.Assign, ast.Expr, ast.Return, ast.AugAssign, ast.If, ast.For)):
                        t = a.targets[0].id
                        if t not in params and stores.get(t) == 1 and loads.get(t) == 1:
                            reads = [x for x in ast.walk(nxt.test if isinstance(nxt, ast.If) else nxt.iter if isinstance(nxt, ast.For) else nxt) if isinstance(x, ast.Name) and x.id == t and isinstance(x.ctx, ast.Load)]
                            scoped = any(isinstance(x, (ast.Lambda, ast.ListComp, ast.SetComp, ast.DictComp, ast.GeneratorExp)) and any(y is reads[0] for y in ast.walk(x))
                                         for x in ast.walk(nxt)) if reads else True
                            pure = all(isinstance(x, _PURE_NODES) for x in ast.walk(a.value))
                            if len(reads) == 1 and not scoped and not pure:
                                # a value that calls something is folded only where hoisting would have taken it from: a direct argument of the call
                                # (or the returned / assigned value itself) of the next statement
                                nv = getattr(nxt, 'value', None)
                                if isinstance(nv, (ast.Yield, ast.YieldFrom, ast.Await)) and nv.value is not None:
                                    nv = nv.value          # `yield from zip(labels, results)`
                                if isinstance(nxt, ast.For):
                                    nv = nxt.iter
                                if isinstance(nxt, ast.If):
                                    # `flag = <test>` / `if [not] flag [and ...]:` — the first operand evaluated
                                    nv = nxt.test
                                    if isinstance(nv, ast.BoolOp):
                                        nv = nv.values[0]
                                    if isinstance(nv, ast.UnaryOp) and isinstance(nv.op, ast.Not):
                                        nv = nv.operand
                                direct = nv is reads[0] or (isinstance(nv, ast.Call) and (any(x is reads[0] for x in nv.args) or any(k.value is reads[0] for k in nv.keywords)))
                                if not direct:
                                    scoped = True
                            if len(reads) == 1 and not scoped:
                                val = a.value

                                class S(ast.NodeTransformer):
                                    def visit_Name(self, node):
                                        if node is reads[0]:
                                            return ast.copy_location(val, node)
                                        return node
                                if isinstance(nxt, ast.If):
                                    nxt.test = S().visit(nxt.test)
                                elif isinstance(nxt, ast.For):
                                    nxt.iter = S().visit(nxt.iter)
                                else:
                                    S().visit(nxt)
                                del st[i]
                                continue
                    i += 1


def _tail_form(stmts: tp.List[ast.stmt], result: ast.expr, ok: tp.List[bool]) -> tp.List[ast.stmt]:
    """The statement list with every `return e` (all of them in tail position of if / else nests) replaced by `result = e`; statements after an `if` one of whose
    branches returns are moved into the branches that fall through.  ok[0] is cleared when a return sits where this cannot be done (in a loop, try, with)."""
    out: tp.List[ast.stmt] = []
    for i, st in enumerate(stmts):
        if isinstance(st, ast.Return):
            out.append(ast.copy_location(ast.Assign(targets=[copy.deepcopy(result)], value=st.value if st.value is not None else ast.Constant(value=None)), st))
            return out
        has_ret = any(isinstance(x, ast.Return) for x in ast.walk(st))
        if not has_ret:
            out.append(st)
            continue
        if isinstance(st, ast.If):
            rest = stmts[i + 1:]
            new = ast.copy_location(ast.If(test=st.test, body=_tail_form(st.body + copy.deepcopy(rest), result, ok) or [ast.Pass()],
                                           orelse=_tail_form(st.orelse + copy.deepcopy(rest), result, ok)), st)
            out.append(new)
            return out
        ok[0] = False
        return out
    return out


def _own_yields(fn: ast.AST) -> bool:
    stack = list(fn.body)
    while stack:
        n = stack.pop()
        if isinstance(n, (ast.FunctionDef, ast.AsyncFunctionDef, ast.Lambda, ast.ClassDef)):
            continue
        if isinstance(n, (ast.Yield, ast.YieldFrom)):
            return True
        stack.extend(ast.iter_child_nodes(n))
    return False


def _renest_generator_helpers(trees: tp.Sequence[ast.AST]) -> None:
    """Extract-generator, undone.  A private generator helper (`_name`, one definition, at most three references, every one a call, all from inside one
    top-level function) is put back where a closure would stand: if a function's whole body is `return helper(...)` / `yield from helper(...)`, that function
    gets the helper's body; otherwise the helper becomes a nested function of its caller, defined just before the statement that first uses it, and a parameter
    that every call binds to the same plain name of the caller becomes a captured variable again.  The definition itself stays where it is."""
    defs: tp.Dict[str, tp.List[tp.Tuple[ast.FunctionDef, tp.Optional[ast.ClassDef]]]] = {}
    refs: tp.Dict[str, int] = {}
    ncalls: tp.Dict[str, int] = {}
    for tree in trees:
        for cls in [None] + [c for c in ast.walk(tree) if isinstance(c, ast.ClassDef)]:
            body = tree.body if cls is None else cls.body
            for n in body:
                if isinstance(n, ast.FunctionDef) and n.name.startswith('_') and not n.name.startswith('__') and _own_yields(n):
                    defs.setdefault(n.name, []).append((n, cls))
        for n in ast.walk(tree):
            if isinstance(n, ast.Attribute):
                refs[n.attr] = refs.get(n.attr, 0) + 1
            elif isinstance(n, ast.Name):
                refs[n.id] = refs.get(n.id, 0) + 1
            elif isinstance(n, ast.Constant) and isinstance(n.value, str) and n.value.startswith('_') and n.value.isidentifier():
                refs[n.value] = refs.get(n.value, 0) + 1
            if isinstance(n, ast.Call):
                nm_ = n.func.attr if isinstance(n.func, ast.Attribute) else (n.func.id if isinstance(n.func, ast.Name) else None)
                if nm_ is not None:
                    ncalls[nm_] = ncalls.get(nm_, 0) + 1
    cands = {nm: dl[0] for nm, dl in defs.items() if len(dl) == 1 and 1 <= refs.get(nm, 0) <= 3 and refs.get(nm, 0) == ncalls.get(nm, 0)}
    if not cands:
        return
    # call sites per candidate, with the outermost function they sit in
    sites: tp.Dict[str, tp.List[tp.Tuple[ast.Call, ast.AST, ast.AST]]] = {}
    for tree in trees:
        for cls in [None] + [c for c in ast.walk(tree) if isinstance(c, ast.ClassDef)]:
            body = tree.body if cls is None else cls.body
            for top in body:
                if not isinstance(top, (ast.FunctionDef, ast.AsyncFunctionDef)):
                    continue
                for x in ast.walk(top):
                    if isinstance(x, ast.Call):
                        nm_ = x.func.attr if isinstance(x.func, ast.Attribute) else (x.func.id if isinstance(x.func, ast.Name) else None)
                        if nm_ in cands:
                            sites.setdefault(nm_, []).append((x, top, tree))
    site_no = 0
    for nm, (h, hcls) in cands.items():
        ss = sites.get(nm, [])
        if len(ss) != ncalls.get(nm, 0) or not ss or len({id(t) for _c, t, _tr in ss}) != 1:
            continue
        top = ss[0][1]
        if top is h:
            continue
        decos = {ast.unparse(d) for d in h.decorator_list}
        a = h.args
        if decos - {'staticmethod', 'classmethod'} or a.vararg or a.kwarg or a.posonlyargs \
                or any(isinstance(x, (ast.Global, ast.Nonlocal)) for b in h.body for x in ast.walk(b)):
            continue
        params = [x.arg for x in a.args]
        kwonly = [x.arg for x in a.kwonlyargs]
        defaults: tp.Dict[str, ast.expr] = {}
        for prm, d in zip(params[len(params) - len(a.defaults):], a.defaults):
            defaults[prm] = d
        for prm, d in zip(kwonly, a.kw_defaults):
            if d is not None:
                defaults[prm] = d
        bindings: tp.List[tp.Dict[str, ast.expr]] = []
        bad = False
        for call, _t, _tr in ss:
            f = call.func
            if any(isinstance(x, ast.Starred) for x in call.args) or any(k.arg is None for k in call.keywords):
                bad = True
                break
            binding: tp.Dict[str, ast.expr] = {}
            pos = list(params)
            if hcls is not None and 'staticmethod' not in decos:
                if not isinstance(f, ast.Attribute) or not pos or not isinstance(f.value, ast.Name):
                    bad = True
                    break
                recv = f.value
                if 'classmethod' in decos and recv.id != 'cls':
                    recv = ast.Attribute(value=recv, attr='__class__', ctx=ast.Load())
                binding[pos.pop(0)] = recv
            if len(call.args) > len(pos):
                bad = True
                break
            for prm, arg in zip(pos, call.args):
                binding[prm] = arg
            for kw in call.keywords:
                if kw.arg in binding or kw.arg not in params + kwonly:
                    bad = True
                binding[kw.arg] = kw.value
            for prm in params + kwonly:
                if prm not in binding:
                    if prm in defaults:
                        binding[prm] = defaults[prm]
                    else:
                        bad = True
            bindings.append(binding)
        if bad:
            continue
        # the mark of an extracted closure: its parameters are exactly the variables it used to capture — every argument at every site is a plain name
        recv_prm = params[0] if (hcls is not None and 'staticmethod' not in decos and params) else None
        if not all(isinstance(v, ast.Name) for b in bindings for prm, v in b.items() if prm != recv_prm):
            continue
        stored = {x.id for b in h.body for x in ast.walk(b) if isinstance(x, ast.Name) and isinstance(x.ctx, (ast.Store, ast.Del))}
        hbody = [b for b in h.body if not (isinstance(b, ast.Expr) and isinstance(b.value, ast.Constant) and isinstance(b.value.value, str))]
        site_no += 1
        suffix = f'__{nm.strip("_")}{site_no}'
        # (a) the caller is nothing but the call
        done = False
        if len(ss) == 1:
            call = ss[0][0]
            for fn in ast.walk(top):
                if not isinstance(fn, (ast.FunctionDef, ast.AsyncFunctionDef)):
                    continue
                fb = [b for b in fn.body if not (isinstance(b, ast.Expr) and isinstance(b.value, ast.Constant) and isinstance(b.value.value, str))]
                if len(fb) == 1 and ((isinstance(fb[0], ast.Return) and fb[0].value is call)
                                     or (isinstance(fb[0], ast.Expr) and isinstance(fb[0].value, ast.YieldFrom) and fb[0].value.value is call)):
                    binding = bindings[0]
                    direct = {prm: arg for prm, arg in binding.items() if prm not in stored and (isinstance(arg, ast.Name) or isinstance(arg, ast.Attribute) and prm == params[0])}
                    hlocals = stored | set(binding)

                    class Rn(ast.NodeTransformer):
                        def visit_Name(self, node):
                            if node.id in direct:
                                return ast.copy_location(copy.deepcopy(direct[node.id]), node) if isinstance(node.ctx, ast.Load) else node
                            if node.id in hlocals:
                                return ast.copy_location(ast.Name(id=node.id + suffix, ctx=node.ctx), node)
                            return node
                    body = [Rn().visit(copy.deepcopy(b)) for b in hbody]
                    pre = [ast.copy_location(ast.Assign(targets=[ast.Name(id=prm + suffix, ctx=ast.Store())], value=copy.deepcopy(arg)), fb[0])
                           for prm, arg in binding.items() if prm not in direct]
                    fn.body[fn.body.index(fb[0]):] = pre + body
                    ast.fix_missing_locations(fn)
                    done = True
                    break
        if done:
            continue
        # (b) a nested function of the caller
        holder_idx = None
        for i, st in enumerate(top.body):
            if any(x is c for c, _t, _tr in ss for x in ast.walk(st)):
                holder_idx = i
                break
        if holder_idx is None or not all(v.id == prm for b in bindings for prm, v in b.items() if prm != recv_prm):
            continue
        top_stored = {x.id for x in ast.walk(top) if isinstance(x, ast.Name) and isinstance(x.ctx, ast.Store)}
        top_params = {x.arg for x in top.args.args + top.args.kwonlyargs}
        direct2: tp.Dict[str, ast.expr] = {}
        for prm in params + kwonly:
            vals = [b[prm] for b in bindings]
            v0 = vals[0]
            same = all(ast.dump(v) == ast.dump(v0) for v in vals)
            if not same or prm in stored:
                continue
            if isinstance(v0, ast.Name) and (v0.id in top_params or v0.id in top_stored or v0.id in ('self', 'cls')):
                direct2[prm] = v0
            elif isinstance(v0, ast.Attribute) and params and prm == params[0] and hcls is not None and 'classmethod' in decos:
                direct2[prm] = v0

        class Rn2(ast.NodeTransformer):
            def visit_Name(self, node):
                if node.id in direct2 and isinstance(node.ctx, ast.Load):
                    return ast.copy_location(copy.deepcopy(direct2[node.id]), node)
                return node
        new_name = 'gen_' + nm.strip('_') + suffix
        nd = copy.deepcopy(h)
        nd.name = new_name
        nd._sfa_origin = (hcls.name + '.' if hcls is not None else '') + h.name        # exception tables are keyed by the helper's own name
        nd.decorator_list = []
        nd.args.args = [x for x in nd.args.args if x.arg not in direct2]
        # defaults belong to the trailing positional parameters: keep only those whose parameter remains
        keep_def = []
        for prm, d in zip(params[len(params) - len(a.defaults):], nd.args.defaults):
            if prm not in direct2:
                keep_def.append(d)
        nd.args.defaults = keep_def
        kk = [(x, d) for x, d in zip(nd.args.kwonlyargs, nd.args.kw_defaults) if x.arg not in direct2]
        nd.args.kwonlyargs = [x for x, _d in kk]
        nd.args.kw_defaults = [d for _x, d in kk]
        nd.body = [Rn2().visit(b) for b in nd.body if not (isinstance(b, ast.Expr) and isinstance(b.value, ast.Constant) and isinstance(b.value.value, str))]
        remaining = [x.arg for x in nd.args.args]
        ok_sites = True
        for (call, _t, _tr), binding in zip(ss, bindings):
            new_args = []
            new_kw = []
            for prm in remaining:
                new_args.append(binding[prm])
            for x in nd.args.kwonlyargs:
                new_kw.append(ast.keyword(arg=x.arg, value=binding[x.arg]))
            call.func = ast.copy_location(ast.Name(id=new_name, ctx=ast.Load()), call.func)
            call.args = new_args
            call.keywords = new_kw
        if not ok_sites:
            continue
        top.body.insert(holder_idx, ast.copy_location(nd, top.body[holder_idx]))
        ast.fix_missing_locations(top)


def _inline_single_call_helpers(trees: tp.Sequence[ast.AST]) -> None:
    """Extract-function, undone: a private helper (`_name`, one definition in core, referenced exactly once, by a call that is the whole value of an assignment,
    a return or an expression statement) is spliced into its caller — parameters bound to the arguments, locals renamed, `return e` turned into the assignment /
    return the call stood in.  The definition stays where it is.  Rules that follow one function's paths then see the same program whether or not a block of it
    was given a name of its own.  Helpers that yield, take *args / **kwargs, or return from inside a loop / try / with are left alone."""
    defs: tp.Dict[str, tp.List[tp.Tuple[ast.FunctionDef, tp.Optional[ast.ClassDef]]]] = {}
    refs: tp.Dict[str, int] = {}
    for tree in trees:
        for cls in [None] + [c for c in ast.walk(tree) if isinstance(c, ast.ClassDef)]:
            body = tree.body if cls is None else cls.body
            for n in body:
                if isinstance(n, ast.FunctionDef) and n.name.startswith('_') and not n.name.startswith('__'):
                    defs.setdefault(n.name, []).append((n, cls))
        for n in ast.walk(tree):
            if isinstance(n, ast.Attribute):
                refs[n.attr] = refs.get(n.attr, 0) + 1
            elif isinstance(n, ast.Name):
                refs[n.id] = refs.get(n.id, 0) + 1
            elif isinstance(n, ast.Constant) and isinstance(n.value, str) and n.value.startswith('_') and n.value.isidentifier():
                refs[n.value] = refs.get(n.value, 0) + 1        # getattr(obj, '_name')
    ncalls: tp.Dict[str, int] = {}
    for tree in trees:
        for n in ast.walk(tree):
            if isinstance(n, ast.Call):
                nm_ = n.func.attr if isinstance(n.func, ast.Attribute) else (n.func.id if isinstance(n.func, ast.Name) else None)
                if nm_ is not None:
                    ncalls[nm_] = ncalls.get(nm_, 0) + 1
    # one definition, every reference is a call, at most three call sites (an extracted duplicate block is called from each place it stood)
    cands = {nm: dl[0] for nm, dl in defs.items() if len(dl) == 1 and 1 <= refs.get(nm, 0) <= 3 and refs.get(nm, 0) == ncalls.get(nm, 0)}
    if not cands:
        return
    site_no = [0]
    spliced: tp.Dict[str, int] = {}
    touched: tp.Set[int] = set()
    for tree in trees:
        nested = {id(g) for f in ast.walk(tree) if isinstance(f, (ast.FunctionDef, ast.AsyncFunctionDef)) for b in f.body for g in ast.walk(b)
                  if isinstance(g, (ast.FunctionDef, ast.AsyncFunctionDef))}
        for fn in [f for f in ast.walk(tree) if isinstance(f, (ast.FunctionDef, ast.AsyncFunctionDef)) and id(f) not in nested]:
            own = [x for x in ast.walk(fn)]
            inner_ids = {id(y) for g in own if isinstance(g, (ast.FunctionDef, ast.AsyncFunctionDef, ast.Lambda)) and g is not fn for y in ast.walk(g)}
            for holder in own:
                if id(holder) in inner_ids:
                    continue        # a wrapper / closure keeps its calls
                for field in ('body', 'orelse', 'finalbody'):
                    st = getattr(holder, field, None)
                    if not isinstance(st, list):
                        continue
                    i = 0
                    while i < len(st):
                        s = st[i]
                        i += 1
                        # a helper call buried in a simple statement (an argument, a subscripted call, a subscript of the target) is first given a name on the line
                        # before — unless it sits where it is evaluated conditionally or repeatedly — and is then inlined at that assignment
                        if isinstance(s, (ast.Assign, ast.AugAssign, ast.Return, ast.Expr)):
                            top_call = getattr(s, 'value', None)
                            blocked = {id(y) for x in ast.walk(s) if isinstance(x, (ast.Lambda, ast.ListComp, ast.SetComp, ast.DictComp, ast.GeneratorExp, ast.IfExp, ast.BoolOp))
                                       for y in ast.walk(x) if y is not x}
                            found = None
                            for x in ast.walk(s):
                                if isinstance(x, ast.Call) and x is not top_call and id(x) not in blocked:
                                    nm_x = x.func.attr if isinstance(x.func, ast.Attribute) else (x.func.id if isinstance(x.func, ast.Name) else None)
                                    if nm_x in cands and not _own_yields(cands[nm_x][0]):
                                        found = x
                                        break
                            if found is not None:
                                site_no[0] += 1
                                tmp = f'_val{site_no[0]}__{nm_x.strip("_")}'

                                class Sub(ast.NodeTransformer):
                                    def visit_Call(self, node):
                                        if node is found:
                                            return ast.copy_location(ast.Name(id=tmp, ctx=ast.Load()), node)
                                        return self.generic_visit(node)
                                Sub().visit(s)
                                st.insert(i - 1, ast.copy_location(ast.Assign(targets=[ast.Name(id=tmp, ctx=ast.Store())], value=found), s))
                                touched.add(id(tree))
                                i -= 1          # revisit: the inserted assignment is now at this position
                                continue
                        call = getattr(s, 'value', None) if isinstance(s, (ast.Assign, ast.Return, ast.Expr)) else None
                        # a generator helper drained on the spot: `yield from helper(...)` / `sink.extend(helper(...))`
                        mode, sink = 'value', None
                        if isinstance(s, ast.Expr) and isinstance(call, ast.YieldFrom) and isinstance(call.value, ast.Call):
                            call, mode = call.value, 'yieldfrom'
                        elif isinstance(s, ast.Expr) and isinstance(call, ast.Call) and isinstance(call.func, ast.Attribute) and call.func.attr == 'extend' \
                                and isinstance(call.func.value, ast.Name) and len(call.args) == 1 and not call.keywords and isinstance(call.args[0], ast.Call):
                            c0 = call.args[0]
                            nm0 = c0.func.attr if isinstance(c0.func, ast.Attribute) else (c0.func.id if isinstance(c0.func, ast.Name) else None)
                            if nm0 in cands and _own_yields(cands[nm0][0]):
                                sink, call, mode = call.func.value.id, c0, 'extend'
                        if not isinstance(call, ast.Call):
                            continue
                        f = call.func
                        nm = f.attr if isinstance(f, ast.Attribute) else (f.id if isinstance(f, ast.Name) else None)
                        if nm not in cands:
                            continue
                        h, hcls = cands[nm]
                        if h is fn:
                            continue
                        if isinstance(s, ast.Assign) and not (len(s.targets) == 1 and isinstance(s.targets[0], (ast.Name, ast.Tuple))):
                            continue
                        decos = {ast.unparse(d) for d in h.decorator_list}
                        if decos - {'staticmethod', 'classmethod'}:
                            continue
                        a = h.args
                        if a.vararg or a.kwarg or a.posonlyargs or any(isinstance(x, (ast.Await, ast.Global, ast.Nonlocal, ast.FunctionDef, ast.Lambda))
                                                                          for b in h.body for x in ast.walk(b)):
                            continue
                        is_gen = _own_yields(h)
                        if is_gen != (mode != 'value'):
                            continue
                        if is_gen:
                            stmt_yields = {id(x.value) for b in h.body for x in ast.walk(b) if isinstance(x, ast.Expr) and isinstance(x.value, (ast.Yield, ast.YieldFrom))}
                            if any(isinstance(x, ast.Return) or (isinstance(x, (ast.Yield, ast.YieldFrom)) and id(x) not in stmt_yields) or
                                   (isinstance(x, ast.Yield) and x.value is None) for b in h.body for x in ast.walk(b)):
                                continue
                        if any(isinstance(x, ast.Starred) for x in call.args) or any(k.arg is None for k in call.keywords):
                            continue
                        params = [x.arg for x in a.args]
                        defaults: tp.Dict[str, ast.expr] = {}
                        for prm, d in zip(params[len(params) - len(a.defaults):], a.defaults):
                            defaults[prm] = d
                        for prm, d in zip([x.arg for x in a.kwonlyargs], a.kw_defaults):
                            if d is not None:
                                defaults[prm] = d
                        binding: tp.Dict[str, ast.expr] = {}
                        pos = list(params)
                        if hcls is not None and 'staticmethod' not in decos:
                            if not isinstance(f, ast.Attribute) or not pos:
                                continue
                            binding[pos.pop(0)] = f.value if 'classmethod' not in decos else ast.Attribute(value=f.value, attr='__class__', ctx=ast.Load()) \
                                if not (isinstance(f.value, ast.Name) and f.value.id == 'cls') else f.value
                        if len(call.args) > len(pos):
                            continue
                        for prm, arg in zip(pos, call.args):
                            binding[prm] = arg
                        bad = False
                        for kw in call.keywords:
                            if kw.arg in binding or kw.arg not in params + [x.arg for x in a.kwonlyargs]:
                                bad = True
                            binding[kw.arg] = kw.value
                        for prm in params + [x.arg for x in a.kwonlyargs]:
                            if prm not in binding:
                                if prm in defaults:
                                    binding[prm] = defaults[prm]
                                else:
                                    bad = True
                        if bad:
                            continue
                        site_no[0] += 1
                        suffix = f'__{nm.strip("_")}{site_no[0]}'
                        hlocals = {x.id for b in h.body for x in ast.walk(b) if isinstance(x, ast.Name) and isinstance(x.ctx, (ast.Store, ast.Del))} | set(binding)
                        # a parameter bound to a plain name / self keeps that name; everything else local to the helper is renamed
                        direct = {prm: arg.id for prm, arg in binding.items() if isinstance(arg, ast.Name)
                                  and not any(isinstance(x, ast.Name) and isinstance(x.ctx, ast.Store) and x.id == prm for b in h.body for x in ast.walk(b))}

                        class Rn(ast.NodeTransformer):
                            def visit_Name(self, node):
                                if node.id in direct:
                                    return ast.copy_location(ast.Name(id=direct[node.id], ctx=node.ctx), node)
                                if node.id in hlocals:
                                    return ast.copy_location(ast.Name(id=node.id + suffix, ctx=node.ctx), node)
                                return node
                        body = [Rn().visit(copy.deepcopy(b)) for b in h.body
                                if not (isinstance(b, ast.Expr) and isinstance(b.value, ast.Constant) and isinstance(b.value.value, str))]
                        pre = [ast.copy_location(ast.Assign(targets=[ast.Name(id=prm + suffix, ctx=ast.Store())], value=copy.deepcopy(arg)), s)
                               for prm, arg in binding.items() if prm not in direct]
                        if mode == 'extend':
                            class Y(ast.NodeTransformer):
                                def visit_Expr(self, node):
                                    v = node.value
                                    if isinstance(v, (ast.Yield, ast.YieldFrom)):
                                        meth = 'append' if isinstance(v, ast.Yield) else 'extend'
                                        return ast.copy_location(ast.Expr(value=ast.Call(func=ast.Attribute(value=ast.Name(id=sink, ctx=ast.Load()), attr=meth, ctx=ast.Load()),
                                                                                           args=[v.value], keywords=[])), node)
                                    return node
                            new = pre + [Y().visit(b) for b in body]
                        elif mode == 'yieldfrom':
                            new = pre + body
                        elif isinstance(s, ast.Return):
                            new = pre + body
                            if not any(isinstance(x, ast.Return) for x in ast.walk(body[-1])) if body else True:
                                new.append(ast.copy_location(ast.Return(value=None), s))
                        else:
                            result = s.targets[0] if isinstance(s, ast.Assign) else ast.Name(id='_unused' + suffix, ctx=ast.Store())
                            ok = [True]
                            tail = _tail_form(body, result, ok)
                            if not ok[0]:
                                continue
                            new = pre + tail
                        origin = (hcls.name + '.' if hcls is not None else '') + h.name
                        spliced[nm] = spliced.get(nm, 0) + 1
                        for b_ in new:
                            for x in ast.walk(b_):
                                if isinstance(x, ast.stmt) and not hasattr(x, '_sfa_origin'):
                                    x._sfa_origin = origin          # exception tables are keyed by the function a statement was written in
                        st[i - 1:i] = new
                        touched.add(id(tree))
                        i += len(new) - 1
            ast.fix_missing_locations(fn)
    for nm, k in spliced.items():
        if k == ncalls.get(nm, 0):
            cands[nm][0]._sfa_fully_spliced = True      # every execution of this body is analysed where it was spliced in
    for tree in trees:
        _fold_simple_generators(tree)
        _split_tuple_assigns(tree)
        _fold_append_loops(tree)
        _inline_adjacent_temporaries(tree)
        ast.fix_missing_locations(tree)


_SELF_DIGEST: tp.List[str] = []


def _canonical_tree(src: str, path: str) -> ast.AST:
    '''canonicalise(parse(src)), memoised on disk by the digest of (this file, src): a scratch copy with one module edited re-does one module.  The cache is an
    optimisation only: any failure to read or write it falls back to computing the tree.'''
    import pickle
    import tempfile
    if os.environ.get('SFA_NO_CACHE'):
        return canonicalise(ast.parse(src, filename=path))
    if not _SELF_DIGEST:
        with open(__file__, 'rb') as f:
            _SELF_DIGEST.append(hashlib.sha256(f.read() + sys.version.encode()).hexdigest()[:16])
    key = hashlib.sha256((_SELF_DIGEST[0] + '\0' + src).encode()).hexdigest()[:32]
    cdir = os.path.join(os.environ.get('SFA_CACHE_DIR') or tempfile.gettempdir(), f'sfa-ast-cache-{os.getuid()}-{_SELF_DIGEST[0]}')
    fp = os.path.join(cdir, key + '.pkl')
    try:
        with open(fp, 'rb') as f:
            return pickle.load(f)
    except Exception:
        pass
    tree = canonicalise(ast.parse(src, filename=path))
    try:
        os.makedirs(cdir, exist_ok=True)
        tmpf = f'{fp}.{os.getpid()}.tmp'
        with open(tmpf, 'wb') as f:
            pickle.dump(tree, f, protocol=pickle.HIGHEST_PROTOCOL)
        os.replace(tmpf, fp)
    except Exception:
        pass
    return tree


class Module:
    def __init__(self, name: str, path: str, relpath: str, src: str):
        self.name = name
        self.short = name.rsplit('.', 1)[-1]
        self.path = path
        self.relpath = relpath
        self.src = src
        self.lines = src.splitlines()
        self.tree = _canonical_tree(src, path)
        self.imports: tp.Dict[str, tp.Tuple[str, tp.Optional[str]]] = {}
        self.constants: tp.Dict[str, ast.expr] = {}
        self.functions: tp.Dict[str, FuncInfo] = {}
        self.classes: tp.Dict[str, ClassInfo] = {}
        self.all_funcs: tp.List[FuncInfo] = []

    def line(self, lineno: int) -> str:
        if 1 <= lineno <= len(self.lines):
            return self.lines[lineno - 1].strip()
        return ''


class Program:
    def __init__(self, repo: str):
        self.repo = os.path.abspath(repo)
        self.modules: tp.Dict[str, Module] = {}      # short name -> Module
        self.classes: tp.Dict[str, ClassInfo] = {}   # class name -> ClassInfo (names are unique in core)
        self.funcs: tp.Dict[str, FuncInfo] = {}      # qualname -> FuncInfo
        self.methods_by_name: tp.Dict[str, tp.List[FuncInfo]] = {}
        self.exports: tp.List[str] = []
        self.digest = ''
        self._load()

    # ------------------------------------------------------------------ loading
    def _load(self) -> None:
        core = os.path.join(self.repo, 'static_frame', 'core')
        if not os.path.isdir(core):
            raise AnalysisError(f'no static_frame/core under {self.repo}')
        h = hashlib.sha256()
        names = sorted(f for f in os.listdir(core) if f.endswith('.py'))
        if len(names) < 30:
            raise AnalysisError(f'only {len(names)} units under static_frame/core (expected >= 30)')
        for fn in names:
            path = os.path.join(core, fn)
            with open(path, encoding='utf-8') as f:
                src = f.read()
            h.update(fn.encode() + b'\0' + src.encode())
            try:
                m = Module(f'{CORE_PKG}.{fn[:-3]}', path, f'static_frame/core/{fn}', src)
            except SyntaxError as e:
                raise AnalysisError(f'parse failure in {path}: {e}')
            self.modules[m.short] = m
        self.digest = h.hexdigest()[:16]
        if not os.environ.get('SFA_NO_INLINE'):
            _renest_generator_helpers([m.tree for m in self.modules.values()])
            _inline_single_call_helpers([m.tree for m in self.modules.values()])
        init = os.path.join(self.repo, 'static_frame', '__init__.py')
        with open(init, encoding='utf-8') as f:
            tree = ast.parse(f.read())
        for n in tree.body:
            if isinstance(n, ast.ImportFrom):
                for a in n.names:
                    self.exports.append(a.asname or a.name)
        for m in self.modules.values():
            self._index_module(m)
        # duplicate class names across modules
        for m in self.modules.values():
            for c in m.classes.values():
                if c.name in self.classes and self.classes[c.name] is not c:
                    # keep first, but record under qualified key as well
                    self.classes[c.qualname] = c
                else:
                    self.classes[c.name] = c
        self._link_classes()
        for m in self.modules.values():
            for f in m.all_funcs:
                self.funcs[f.qualname] = f
                if f.cls is not None and f.parent is None:
                    self.methods_by_name.setdefault(f.name, []).append(f)

    def _index_module(self, m: Module) -> None:
        def add_func(node, qual_prefix, cls, parent) -> FuncInfo:
            name = getattr(node, 'name', '<lambda>')
            qual = f'{qual_prefix}.{name}'
            if isinstance(node, ast.Lambda):
                qual = f'{qual_prefix}.<lambda@{node.lineno}:{node.col_offset}>'
            fi = FuncInfo(name, qual, m, cls, node, parent)
            m.all_funcs.append(fi)
            if parent is not None:
                parent.nested.append(fi)
            # nested scopes
            body_nodes = [node.body] if isinstance(node, ast.Lambda) else node.body
            for sub in body_nodes:
                if isinstance(sub, FUNC_TYPES):
                    add_func(sub, qual + '.<locals>', cls, fi)      # a def statement of this body: its own nested scopes belong to it
                    continue
                for n in walk_local(sub):
                    if n is node:
                        continue
                    if isinstance(n, FUNC_TYPES):
                        add_func(n, qual + '.<locals>', cls, fi)
            # defaults / decorators may contain lambdas: ignore
            return fi

        def index_class(node: ast.ClassDef, prefix: str) -> None:
            ci = ClassInfo(node.name, m, node)
            m.classes[node.name] = ci
            for s in node.body:
                if isinstance(s, (ast.FunctionDef, ast.AsyncFunctionDef)):
                    fi = add_func(s, f'{prefix}.{node.name}', ci, None)
                    ci.method_defs.setdefault(s.name, []).append(fi)
                    # a property getter wins over its setter for lookup
                    if s.name not in ci.methods or not any(
                            d.endswith('.setter') for d in fi.decorators):
                        ci.methods[s.name] = fi
                elif isinstance(s, ast.Assign):
                    for t in s.targets:
                        if isinstance(t, ast.Name):
                            ci.attrs[t.id] = s.value
                            if t.id == '__slots__':
                                ci.slots = _literal_strs(s.value)
                        elif isinstance(t, ast.Tuple):
                            for e in t.elts:
                                if isinstance(e, ast.Name):
                                    ci.attrs[e.id] = s.value
                elif isinstance(s, ast.AnnAssign) and isinstance(s.target, ast.Name):
                    ci.annotations[s.target.id] = unparse(s.annotation)
                    if s.value is not None:
                        ci.attrs[s.target.id] = s.value
                elif isinstance(s, ast.ClassDef):
                    index_class(s, f'{prefix}.{node.name}')
                # lambdas in class-level assignments
                if isinstance(s, (ast.Assign, ast.AnnAssign)):
                    for n in walk_local(s):
                        if isinstance(n, ast.Lambda):
                            add_func(n, f'{prefix}.{node.name}.<classbody>', ci, None)

        for s in m.tree.body:
            if isinstance(s, ast.ImportFrom):
                for a in s.names:
                    m.imports[a.asname or a.name] = (s.module or '', a.name)
            elif isinstance(s, ast.Import):
                for a in s.names:
                    m.imports[a.asname or a.name.split('.')[0]] = (a.name, None)
            elif isinstance(s, (ast.FunctionDef, ast.AsyncFunctionDef)):
                fi = add_func(s, m.short, None, None)
                m.functions[s.name] = fi
            elif isinstance(s, ast.ClassDef):
                index_class(s, m.short)
            elif isinstance(s, ast.Assign):
                for t in s.targets:
                    if isinstance(t, ast.Name):
                        m.constants[t.id] = s.value
                for n in walk_local(s):
                    if isinstance(n, ast.Lambda):
                        add_func(n, f'{m.short}.<module>', None, None)
            elif isinstance(s, ast.AnnAssign) and isinstance(s.target, ast.Name) and s.value is not None:
                m.constants[s.target.id] = s.value
            elif isinstance(s, (ast.If, ast.Try)):
                # conditional imports / definitions at module level
                for sub in walk_stmts([s]):
                    if isinstance(sub, ast.ImportFrom):
                        for a in sub.names:
                            m.imports.setdefault(a.asname or a.name, (sub.module or '', a.name))
                    elif isinstance(sub, ast.Import):
                        for a in sub.names:
                            m.imports.setdefault(a.asname or a.name.split('.')[0], (a.name, None))
                    elif isinstance(sub, ast.Assign):
                        for t in sub.targets:
                            if isinstance(t, ast.Name):
                                m.constants.setdefault(t.id, sub.value)
                    elif isinstance(sub, (ast.FunctionDef,)) and sub.name not in m.functions:
                        m.functions[sub.name] = add_func(sub, m.short, None, None)

    def _link_classes(self) -> None:
        # post-class attribute assignments: `Index._MUTABLE_CONSTRUCTOR = IndexGO`
        for m in self.modules.values():
            for s in m.tree.body:
                if isinstance(s, ast.Assign) and len(s.targets) == 1:
                    t = s.targets[0]
                    if isinstance(t, ast.Attribute) and isinstance(t.value, ast.Name):
                        ci = m.classes.get(t.value.id) or self.classes.get(t.value.id)
                        if ci is not None:
                            ci.attrs[t.attr] = s.value
        for ci in list(self.classes.values()):
            ci.bases = []
            for b in ci.base_names:
                bi = ci.module.classes.get(b) or self.classes.get(b)
                if bi is not None and bi is not ci:
                    ci.bases.append(bi)
        for ci in set(self.classes.values()):
            for b in ci.bases:
                if ci not in b.subclasses:
                    b.subclasses.append(ci)
        for ci in set(self.classes.values()):
            ci.mro = _c3(ci)
        # slot types from constructor parameters: `self.x = param` with an annotated param
        for ci in set(self.classes.values()):
            init = ci.methods.get('__init__')
            if init is None or isinstance(init.node, ast.Lambda):
                continue
            for s in ast.walk(init.node):
                if isinstance(s, ast.Assign) and len(s.targets) == 1 and isinstance(s.targets[0], ast.Attribute) \
                        and isinstance(s.targets[0].value, ast.Name) and s.targets[0].value.id == 'self' \
                        and isinstance(s.value, ast.Name) and s.targets[0].attr not in ci.annotations:
                    ann = init.param_annotation(s.value.id)
                    if ann is not None:
                        ci.annotations[s.targets[0].attr] = unparse(ann)

    # ------------------------------------------------------------------ queries
    def module(self, short: str) -> Module:
        try:
            return self.modules[short]
        except KeyError:
            raise AnalysisError(f'anchor vanished: module static_frame/core/{short}.py')

    def cls(self, name: str) -> ClassInfo:
        ci = self.classes.get(name)
        if ci is None:
            raise AnalysisError(f'anchor vanished: class {name}')
        return ci

    def func(self, qualname: str) -> FuncInfo:
        '''module.func | module.Class.method; AnalysisError when absent.'''
        f = self.funcs.get(qualname)
        if f is None:
            raise AnalysisError(f'anchor vanished: function {qualname}')
        return f

    def method(self, cls: str, name: str, inherited: bool = True) -> FuncInfo:
        ci = self.cls(cls)
        f = ci.lookup(name) if inherited else ci.methods.get(name)
        if f is None:
            raise AnalysisError(f'anchor vanished: method {cls}.{name}')
        return f

    def has_method(self, cls: str, name: str) -> bool:
        ci = self.classes.get(cls)
        return ci is not None and name in ci.methods

    def all_funcs(self) -> tp.Iterator[FuncInfo]:
        for m in self.modules.values():
            yield from m.all_funcs

    def top_funcs(self) -> tp.Iterator[FuncInfo]:
        '''Module functions and methods (not nested).'''
        for f in self.all_funcs():
            if f.parent is None and not isinstance(f.node, ast.Lambda):
                yield f

    def resolve_name(self, m: Module, name: str) -> tp.Optional[tp.Union[FuncInfo, ClassInfo, ast.expr]]:
        '''A bare name in module m -> function / class / constant expression.'''
        if name in m.functions:
            return m.functions[name]
        if name in m.classes:
            return m.classes[name]
        if name in m.constants:
            return m.constants[name]
        imp = m.imports.get(name)
        if imp and imp[0].startswith(CORE_PKG) and imp[1]:
            tm = self.modules.get(imp[0].rsplit('.', 1)[-1])
            if tm is not None:
                if imp[1] in tm.functions:
                    return tm.functions[imp[1]]
                if imp[1] in tm.classes:
                    return tm.classes[imp[1]]
                if imp[1] in tm.constants:
                    return tm.constants[imp[1]]
                # re-export
                return self.resolve_name(tm, imp[1]) if imp[1] in tm.imports else None
        if name in self.classes:
            # function-local imports (the repo imports lazily inside functions to break cycles)
            return self.classes[name]
        return None

    def resolve_constant(self, m: Module, name: str, depth: int = 0) -> tp.Optional[ast.expr]:
        r = self.resolve_name(m, name)
        if isinstance(r, ast.Name) and depth < 5:
            return self.resolve_constant(m, r.id, depth + 1) or r
        if isinstance(r, ast.AST):
            return r
        return None

    def stats(self) -> tp.Dict[str, tp.Any]:
        return {
            'units': len(self.modules),
            'classes': len(set(self.classes.values())),
            'functions': sum(len(m.all_funcs) for m in self.modules.values()),
            'digest': self.digest,
        }


def _literal_strs(node: ast.expr) -> tp.Optional[tp.List[str]]:
    if isinstance(node, (ast.Tuple, ast.List, ast.Set)):
        out = []
        for e in node.elts:
            if isinstance(e, ast.Constant) and isinstance(e.value, str):
                out.append(e.value)
            else:
                return None
        return out
    if isinstance(node, ast.Constant) and isinstance(node.value, str):
        return [node.value]
    return None


def _c3(ci: ClassInfo, _depth: int = 0) -> tp.List[ClassInfo]:
    if _depth > 30:
        return [ci]
    seqs = [_c3(b, _depth + 1) for b in ci.bases] + [list(ci.bases)]
    seqs = [list(s) for s in seqs if s]
    out = [ci]
    while seqs:
        for s in seqs:
            head = s[0]
            if not any(head in t[1:] for t in seqs):
                break
        else:
            # inconsistent hierarchy: fall back to depth-first
            flat = [ci]
            for b in ci.bases:
                for k in _c3(b, _depth + 1):
                    if k not in flat:
                        flat.append(k)
            return flat
        out.append(head)
        seqs = [[k for k in s if k is not head] for s in seqs]
        seqs = [s for s in seqs if s]
    return out


# ---------------------------------------------------------------------- call resolution

class Resolver:
    '''Resolve call targets with the light type facts the repository offers.'''

    def __init__(self, prog: Program):
        self.prog = prog

    def receiver_classes(self, f: FuncInfo, expr: ast.expr) -> tp.Optional[tp.List[ClassInfo]]:
        '''Classes an expression may denote an instance (or, for cls, the class) of; None = unknown.'''
        prog = self.prog
        top = f
        while top.parent is not None:
            top = top.parent
        if isinstance(expr, ast.Name):
            sn = top.self_name()
            if sn and expr.id == sn and top.cls is not None:
                return [top.cls]
            # annotated parameter
            g: tp.Optional[FuncInfo] = f
            while g is not None:
                ann = g.param_annotation(expr.id) if not isinstance(g.node, ast.Lambda) else None
                if ann is not None:
                    ks = self._classes_in_annotation(ann)
                    if ks:
                        return ks
                g = g.parent
            r = prog.resolve_name(f.module, expr.id)
            if isinstance(r, ClassInfo):
                return [r]
            return None
        if isinstance(expr, ast.Attribute):
            base = self.receiver_classes(f, expr.value)
            if base:
                out: tp.List[ClassInfo] = []
                for k in base:
                    ann = k.lookup_annotation(expr.attr)
                    if ann:
                        try:
                            ks = self._classes_in_annotation(ast.parse(ann, mode='eval').body)
                        except SyntaxError:
                            ks = []
                        out.extend(ks)
                    else:
                        prop = k.lookup(expr.attr)
                        if prop is not None and prop.kind == 'property':
                            ret = getattr(prop.node, 'returns', None)
                            if ret is not None:
                                out.extend(self._classes_in_annotation(ret))
                if out:
                    return out
            if expr.attr == '__class__':
                return base
            return None
        if isinstance(expr, ast.Call):
            if isinstance(expr.func, ast.Name) and expr.func.id == 'super':
                if top.cls is not None and len(top.cls.mro) > 1:
                    return [top.cls.mro[1]]
            return None
        return None

    def _classes_in_annotation(self, ann: ast.expr) -> tp.List[ClassInfo]:
        out = []
        for n in ast.walk(ann):
            name = None
            if isinstance(n, ast.Name):
                name = n.id
            elif isinstance(n, ast.Constant) and isinstance(n.value, str):
                name = n.value.strip("'\" ")
            elif isinstance(n, ast.Attribute):
                name = n.attr
            if name and name in self.prog.classes:
                k = self.prog.classes[name]
                if k not in out:
                    out.append(k)
        return out

    def resolve_call(self, f: FuncInfo, call: ast.Call) -> tp.Tuple[str, tp.List[FuncInfo]]:
        '''-> (quality, targets) with quality in exact | cha | byname | unknown.'''
        prog = self.prog
        fn = call.func
        if isinstance(fn, ast.Name):
            # nested function of an enclosing scope
            g: tp.Optional[FuncInfo] = f
            while g is not None:
                for n in g.nested:
                    if n.name == fn.id:
                        return 'exact', [n]
                g = g.parent
            r = prog.resolve_name(f.module, fn.id)
            if isinstance(r, FuncInfo):
                return 'exact', [r]
            if isinstance(r, ClassInfo):
                init = r.lookup('__init__')
                return 'exact', [init] if init else []
            return 'unknown', []
        if isinstance(fn, ast.Attribute):
            name = fn.attr
            if isinstance(fn.value, ast.Call) and isinstance(fn.value.func, ast.Name) \
                    and fn.value.func.id == 'super':
                top = f
                while top.parent is not None:
                    top = top.parent
                if top.cls is not None:
                    for k in top.cls.mro[1:]:
                        if name in k.methods:
                            return 'exact', [k.methods[name]]
                return 'unknown', []
            ks = self.receiver_classes(f, fn.value)
            if ks:
                targets: tp.List[FuncInfo] = []
                for k in ks:
                    t = k.lookup(name)
                    if t is not None and t not in targets:
                        targets.append(t)
                    for sk in k.all_subclasses():
                        st = sk.methods.get(name)
                        if st is not None and st not in targets:
                            targets.append(st)
                if targets:
                    return ('exact' if len(targets) == 1 else 'cha'), targets
            # module attribute?  np.foo etc. are unknown (external)
            ch = attr_chain(fn)
            if ch and ch[0] in f.module.imports and not f.module.imports[ch[0]][0].startswith(CORE_PKG):
                return 'external', []
            cands = prog.methods_by_name.get(name, [])
            if cands:
                return 'byname', list(cands)
            return 'unknown', []
        return 'unknown', []
