'''C12 Sorting permutes whole rows, orders the keys, and is stable.'''
from sfa.report import Ctx
from sfa.rules import table

LEVEL_TEXT = (
    'Static decision of structural clauses of C12: (a) the default sort-kind constants are stable NumPy kinds. Not decided: NumPy sort itself, key-function results, NaN ordering.')

CLAIM = dict(
    text=LEVEL_TEXT,
    technique='constant-table check',
    design_ref='DESIGN.md section 2.G and section 3 C12',
)


def run(ctx: Ctx) -> None:
    table.t4_sortkind(ctx)
