'''C16 Single-table export/import round trips reproduce the Frame.'''
from sfa.report import Ctx
from sfa.rules import table

LEVEL_TEXT = (
    'Static decision of structural clauses of C16: (b) every default token StoreFilter writes for NaN/None/inf is a member of the default set that reads it back, and the four lookup tables pair each predicate/value with the like-named token. Not decided: type re-inference by np.genfromtxt; multi-level header parsing.')

CLAIM = dict(
    text=LEVEL_TEXT,
    technique='writer/reader token-table agreement',
    design_ref='DESIGN.md section 2.G and section 3 C16',
)


def run(ctx: Ctx) -> None:
    table.t5_storefilter(ctx)
