#!/usr/bin/env python3
'''Run every quick check on a scratch copy of /repo with one behaviour-preserving patch applied; print the alarms (violations or analysis errors)
that the patch provokes.  Usage: check_refactor.py <patch.diff> [...].  Scratch copies live under a temporary directory and are removed.'''
import os
import shutil
import subprocess
import sys
import tempfile


def main() -> int:
    rc = 0
    for patch in sys.argv[1:]:
        tmp = tempfile.mkdtemp(prefix='sfa-refactor-')
        try:
            dst = os.path.join(tmp, 'static_frame')
            shutil.copytree('/repo/static_frame', dst, ignore=shutil.ignore_patterns('test', '__pycache__'))
            r = subprocess.run(['patch', '-p1', '-s', '-i', os.path.abspath(patch)], cwd=tmp, stdout=subprocess.PIPE, stderr=subprocess.STDOUT, text=True)
            if r.returncode:
                print(f'{patch}: DOES NOT APPLY: {r.stdout.strip()[:200]}')
                rc = 1
                continue
            r = subprocess.run(['/verif/check', 'all', '--repo', tmp, '--tier', 'quick', '--no-evidence', '--evidence-dir', os.path.join(tmp, 'ev')], cwd='/verif',
                               stdout=subprocess.PIPE, stderr=subprocess.STDOUT, text=True)
            alarms = [l.strip()[:260] for l in r.stdout.splitlines() if l.strip().startswith(('violated:', 'ANALYSIS-ERROR'))]
            alarms = sorted(set(alarms))
            print(f'{patch}: {"silent" if not alarms else str(len(alarms)) + " ALARM(S)"}')
            for a in alarms:
                print('    ' + a)
                rc = 1
        finally:
            shutil.rmtree(tmp, ignore_errors=True)
    return rc


if __name__ == '__main__':
    sys.exit(main())
