'''C13 Grouping partitions the container; windows cover it as specified.'''
from sfa.report import Ctx
from sfa.rules import forwardrules
from sfa.rules import grouprules
from sfa.rules import sortrules
from sfa.rules import windowrules

LEVEL_TEXT = (
    'Static decision of the grouping clauses of C13 and of the structural clauses of window iteration (the arithmetic of which windows exist for given size / step / '
    'shift is not decided): (a) partition by construction — in each of the 4 mask-based group iterators the members of group '
    'idx are `locations == idx`, with (groups, locations) from one array_to_groups_and_locations call, idx from enumerate(groups), no '
    'reordering in between, and the yielded key being that group\'s own element; (b) each group container slices labels and data with '
    'the same selection on the grouped axis and keeps the other axis whole (TypeBlocks.group yields the selection it extracted with); '
    '(c) the sort-and-slice fast path sorts with the default stable kind, slices blocks and labels with the same slice, labels each run '
    'by its first value and emits the final run; the default sort kind is stable (C12); (d) in axis_window_items both bounds of the window slice are floored (no wrap-around), the anchor label is labels.iloc[right bound + label_shift] read from the iterated axis with negative positions rejected, each window is extracted with that slice on that same axis (per path, on the symbolic store), and the left bound advances by step on every path. Option forwarding: in every group / window iterator each call to a resolved callee that accepts a parameter named like one of the function\'s own parameters passes it on (confirmed exceptions listed in sfa/rules/forwardrules.py). Sibling defaults: a parameter taken by the same-named method of several container classes has the same default in each (confirmed exceptions listed in sfa/rules/forwardrules.py). Group-key fallback: the string fallback of array_to_groups_and_locations uniques an elementwise image of the same array along the same axis (no row is reduced to one joined string). Not decided: which windows exist (count / validity arithmetic); agreement of '
    'the two group implementations on values; NaN keys.')

CLAIM = dict(
    text=LEVEL_TEXT,
    technique='def-use shape of the partition idiom over all group iterators + label/data co-slicing (PAIR) + run-loop structure of the sort fast path + clamp-form and per-path provenance of window slices',
    design_ref='DESIGN.md section 3 C13',
)


def run(ctx: Ctx) -> None:
    grouprules.partition_by_construction(ctx)
    grouprules.group_pairs(ctx)
    grouprules.sort_fast_path(ctx)
    sortrules.kind_forwarding(ctx)
    windowrules.window_rules(ctx)
    forwardrules.forwarding(ctx, modules=None, prefixes=('iter_', '_axis_group', '_axis_window', 'axis_window', '_iter'), suffix='iter', floor=70, what='group / window iterator')
    forwardrules.sibling_defaults(ctx, prefixes=('iter_', '_axis_group', '_axis_window', 'axis_window', '_iter'), suffix='iter', floor=17)
    grouprules.group_key_fallback(ctx)
