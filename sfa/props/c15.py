'''C15 Axis reductions equal the independent per-column / per-row computation.'''
from sfa.report import Ctx
from sfa.rules import table

LEVEL_TEXT = (
    'Static decision of structural clauses of C15: the reduction table of ContainerOperand (12 methods): each passes the X / nanX ufunc pair of its own name, forwards axis and skipna, sets composable only for decomposable functions and size_one_unity only where f([x]) == x; the logical helpers bind np.all / np.any with the skipna flag their name states. Not decided: every numeric result, dtype pre-casting, NaN propagation.')

CLAIM = dict(
    text=LEVEL_TEXT,
    technique='declarative reduction-table extraction and comparison',
    design_ref='DESIGN.md section 2.G and section 3 C15',
)


def run(ctx: Ctx) -> None:
    table.t2_reductions(ctx)
