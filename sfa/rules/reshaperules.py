'''C20 rules: positional relabelling in pivot is preceded by an order reconciliation; set_index / unset_index / relabel_shift move
columns into labels and back pairing each label with the row it came from.'''
from __future__ import annotations

import ast
import typing as tp

from sfa import roles
from sfa.model import AnalysisError
from sfa.model import call_name
from sfa.model import kwarg
from sfa.model import norm
from sfa.model import walk_local
from sfa.report import Ctx
from sfa.symenv import SymEnv


def pivot_positional_relabel(ctx: Ctx) -> None:
    R = 'I.pivot-positional-relabel'
    ctx.rule(R, 'Frame.pivot relabels its result positionally with the index built from the unique index-field values; on every path on which that '
             'index is applied (index depth > 1) the rows are known to be in that index\'s order: the intermediate Frame was reindexed to its flat form, '
             'or was concatenated with index= its flat form, or its index was tested equal to it (decided per path on the symbolic store; '
             'lemma used: not (d > 1) and d >= 1 give d == 1, d = len(index_fields) with index_fields[0] evaluated on that path)', floor=3)
    f = ctx.prog.method('Frame', 'pivot', inherited=False)
    calls = [c for c in walk_local(f.node) if isinstance(c, ast.Call) and isinstance(c.func, ast.Attribute) and c.func.attr == 'relabel' and kwarg(c, 'index') is not None]
    ctx.require(len(calls) == 1, 'Frame.pivot relabels its result once')
    call = calls[0]
    # follow only what the receiver and the index argument are made of
    tracked = {x.id for x in ast.walk(call) if isinstance(x, ast.Name)}
    for depth in range(3):
        for a in list(ast.walk(f.node)):
            if isinstance(a, (ast.Assign, ast.AnnAssign)) and a.value is not None:
                tg = a.targets if isinstance(a, ast.Assign) else [a.target]
                if any(isinstance(x, ast.Name) and x.id in tracked for t in tg for x in ast.walk(t)):
                    # index= / reindex arguments of the calls that build the receiver name the order evidence: follow them too
                    for x in ast.walk(a.value):
                        if isinstance(x, ast.Name) and (depth == 0 or not isinstance(a.value, ast.Call) or
                                                        any(isinstance(k, ast.keyword) and k.arg == 'index' and any(y is x for y in ast.walk(k.value)) for k in ast.walk(a.value)) or
                                                        any(isinstance(c, ast.Call) and isinstance(c.func, ast.Attribute) and c.func.attr == 'reindex' and c.args and any(y is x for y in ast.walk(c.args[0]))
                                                            for c in ast.walk(a.value))):
                            tracked.add(x.id)
    recv = call.func.value
    rname = recv.id if isinstance(recv, ast.Name) else None
    ctx.require(rname is not None, 'the relabelled Frame is a local')
    # the receiver is tracked as "how it was last bound" only one level deep: its constructor call text
    se = SymEnv(f.node, watch=lambda x: x is call, max_worlds=2048, max_len=6000, track={rname} | {n for n in tracked if n != rname},
                keep_fact=lambda t: (('> 1' in t or '== 1' in t) and 'index_fields' in t and 'columns' not in t) or '.index.equals(' in t).run()
    n = 0
    for w in sorted(se.at(call)):
        facts = se.facts(w)
        if any(k.endswith(' > 1') and v is False and facts.get(k[:-len(' > 1')] + ' == 1') is False for k, v in facts.items()):
            continue                # d <= 0: excluded by the lemma d >= 1
        idx = se.resolved(kwarg(call, 'index'), w)
        if isinstance(idx, ast.IfExp) and isinstance(idx.body, ast.Constant) and idx.body.value is None and isinstance(idx.test, ast.Compare) \
                and isinstance(idx.test.ops[0], ast.Eq) and norm(idx.test.comparators[0]) == '1':
            d = norm(idx.test.left)
            gt = facts.get(f'{d} > 1')
            if gt is False and facts.get(f'{d} == 1') is False:
                continue            # d <= 0: excluded by the lemma d >= 1
            if gt is False:
                idx = idx.body
            elif gt is True:
                idx = idx.orelse
        n += 1
        it = norm(idx)
        key = f'pivot:relabel@{"+".join(sorted(k for k, v in facts.items() if v and len(k) < 40)) or "-"}'
        if isinstance(idx, ast.Constant) and idx.value is None:
            ctx.ok(R, f, call, 'single index field: the index is not applied positionally', key=key)
            continue
        rt = se.text(recv, w)
        flat = {it, f'{it}.flat()'}
        # names that denote the index or its flat form in this world
        names = {k for k, v in dict(w[0]).items() if v in flat} | flat
        ev = []
        for c in ast.walk(se.subst(recv, dict(w[0]))):
            if isinstance(c, ast.Call) and isinstance(c.func, ast.Attribute) and c.func.attr == 'reindex' and c.args and norm(c.args[0]) in names:
                ev.append('reindexed to the index')
            if isinstance(c, ast.Call) and isinstance(c.func, ast.Attribute) and c.func.attr == 'from_concat' and kwarg(c, 'index') is not None and norm(kwarg(c, 'index')) in names:
                ev.append('concatenated on the index')
        for k, v in facts.items():
            if v and '.index.equals(' in k and any(k.rstrip(')').endswith(nm) or k.lstrip('~').rstrip(')').endswith(nm) for nm in names | {x for x in dict(w[0])}):
                ev.append('index tested equal')
        (ctx.ok if ev else ctx.bad)(R, f, call, f'rows are in the order of the applied index ({ev[0]})' if ev else
                                    f'the index `{it[:50]}` is applied positionally to `{rt[:70]}`, whose rows are in group-iteration order: nothing on this path establishes that the two orders '
                                    'agree, so cells are attached to the labels of other groups', key=key)
    ctx.require(n >= 3, 'paths reaching the relabel of pivot')
