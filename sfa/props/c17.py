'''C17 Bus and multi-table stores.'''
from sfa.report import Ctx
from sfa.rules import busrules
from sfa.rules import parallel
from sfa.rules import table

LEVEL_TEXT = (
    'Static decision of structural clauses of C17: every override of read/read_many/labels/write in every Store subclass carries the matching coherence decorator; the decorators check before / refresh after the wrapped call; _mtime_coherent raises StoreFileMutation on both the changed and the vanished branch; _last_modified is written only by __init__ and _mtime_update; Bus._derive propagates store, config and max_persist; every Bus method that hands out elements of the backing Series loads them first on every path (or filters placeholders); the load and eviction steps of _update_series_cache_iloc update array cell / loaded flag / LRU entry / count together, evict oldest-first exactly when the count exceeds max_persist, after the LRU touch; no loop uses its iterable as a lookup key; the lazy label generator given to the chunked store reader iterates the very snapshot the consuming loop iterates, with the same placeholder test that guards next(), and reads no self attribute the loop writes; the zip stores\' payload generator pairs each payload with the label of its own iteration and that label\'s config, and the parallel and sequential paths iterate the same generator. Member names: the zip store lists labels by removing exactly the suffix its writer appended (never by cutting the extension text out of the middle of a name). Exporter config: every multi-table exporter writes with the caller\'s config or else the container\'s own (the pickle exporter is the listed exception). Not decided: contents written by each format; mtime granularity; optional formats absent here.')

CLAIM = dict(
    text=LEVEL_TEXT,
    technique='decorator-table exhaustiveness + who-may-write + load-before-expose must-dataflow + LRU lock-step structure check',
    design_ref='DESIGN.md section 2.G and section 3 C17',
)


def run(ctx: Ctx) -> None:
    table.t6_store(ctx)
    table.t9_derive(ctx, which=('Bus',))
    busrules.bus_load_before_expose(ctx)
    busrules.bus_lru(ctx)
    busrules.loop_iterable_as_key(ctx)
    busrules.reader_consumer(ctx)
    busrules.member_name_inverse(ctx)
    busrules.exporter_config_fallback(ctx)
    parallel.config_alignment(ctx)
