'''sfa — static analysis of static-frame (stdlib ast only; never imports static_frame).'''
