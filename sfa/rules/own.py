'''Family C — OWN: ownership hand-offs and sharing across the static / grow-only boundary.

A grow-only IndexGO / TypeBlocks / IndexLevelGO that is owned by two containers makes the growth of
one visible through the other.  Everything that can create such sharing is spelled in the code as
an `own_*=True` hand-off, an "return the argument unchanged" shortcut, or a slot copy in a constructor.
'''
from __future__ import annotations

import ast
import typing as tp

from sfa import flow
from sfa.model import AnalysisError
from sfa.model import FuncInfo
from sfa.model import call_name
from sfa.model import kwarg
from sfa.model import norm
from sfa.model import walk_local
from sfa.report import Ctx

# flag keyword -> (value keyword, positional index of the value or None)
PAIRS = {
    'own_data': ('data', 0),
    'own_columns': ('columns', None),
    'own_blocks': ('blocks', 0),
}
# what makes a value "shared mutable" for each flag
SHARED_ATTRS = {
    'own_data': ('_blocks',),                 # a TypeBlocks held by another Frame (FrameGO grows it in place)
    'own_columns': ('_columns', 'columns'),   # an index that may be an IndexGO held by a FrameGO
    'own_blocks': ('_blocks',),               # the cached TypeBlocks of another IndexHierarchy
}

T, Fz, GUARD, PARAM, COND, UNK = 'T', 'F', 'GUARD', 'PARAM', 'COND', 'UNK'
SHARED, STATIC, FRESH = 'SHARED', 'STATIC', 'FRESH'


MAX_WORLDS = 512


class _Client(flow.Client):
    '''Relational ("worlds") tracking of (value provenance, flag) pairs: the state is a set of worlds, each
    mapping every tracked variable to exactly one tag, so that `columns = self._columns; own_columns = False`
    on one branch and `columns = <fresh>; own_columns = True` on the other never mix.'''

    def __init__(self, f: FuncInfo):
        self.f = f
        self.params = {p.lstrip('*') for p in f.params}
        g = f.parent
        while g is not None:
            self.params |= {p.lstrip('*') for p in g.params}
            g = g.parent
        self.sites: tp.List[tp.Tuple[ast.Call, str, tp.FrozenSet[tp.Tuple[str, str]], ast.expr, ast.expr]] = []
        self.grow_sites: tp.List[tp.Tuple[ast.Call, tp.FrozenSet[str], str]] = []
        self.tracked = self._tracked_names()
        self.collapsed = False

    def _tracked_names(self) -> tp.Set[str]:
        names: tp.Set[str] = set()
        top = self.f
        for n in ast.walk(top.node):
            if isinstance(n, ast.Call):
                for flag, (argname, pos) in PAIRS.items():
                    fv = kwarg(n, flag)
                    if fv is None:
                        continue
                    av = kwarg(n, argname)
                    if av is None and pos is not None and len(n.args) > pos:
                        av = n.args[pos]
                    for e in (fv, av):
                        if e is not None:
                            names |= {x.id for x in ast.walk(e) if isinstance(x, ast.Name)}
                if isinstance(n.func, ast.Attribute) and n.func.attr in ('append', 'extend') and isinstance(n.func.value, ast.Name):
                    names.add(n.func.value.id)
        # transitive: names they are assigned from
        for _ in range(3):
            for n in ast.walk(top.node):
                if isinstance(n, ast.Assign):
                    tn = {x.id for t in n.targets for x in ast.walk(t) if isinstance(x, ast.Name)}
                    if tn & names and isinstance(n.value, (ast.Name, ast.IfExp)):
                        names |= {x.id for x in ast.walk(n.value) if isinstance(x, ast.Name)}
        return names

    def join(self, a, b):
        u = a | b
        if len(u) > MAX_WORLDS:
            self.collapsed = True
            # collapse: keep one world per distinct projection on nothing (non-relational fallback is 'UNK')
            return frozenset([frozenset()])
        return u

    # single-world evaluation ------------------------------------------------------
    def vtag(self, e: tp.Optional[ast.expr], w: tp.Dict[str, str]) -> tp.List[str]:
        if e is None:
            return [UNK]
        if isinstance(e, ast.Name):
            if ('v:' + e.id) in w:
                return [w['v:' + e.id]]
            if e.id in self.params:
                return [PARAM]
            return [UNK]
        if isinstance(e, ast.Attribute):
            if e.attr in ('_index', 'index'):
                return [STATIC]
            if e.attr == '_blocks':
                return [SHARED + ':_blocks']
            if e.attr in ('_columns', 'columns'):
                return [SHARED + ':columns']
            if e.attr == '_levels':
                return [SHARED + ':_levels']
            return [UNK]
        if isinstance(e, ast.IfExp):
            return self.vtag(e.body, w) + self.vtag(e.orelse, w)
        if isinstance(e, (ast.Call, ast.Subscript, ast.BinOp, ast.ListComp, ast.GeneratorExp, ast.List, ast.Tuple)):
            if isinstance(e, ast.Call) and call_name(e) in ('tp.cast', 'cast') and len(e.args) == 2:
                return self.vtag(e.args[1], w)
            return [FRESH]
        if isinstance(e, ast.Constant):
            return [FRESH]
        return [UNK]

    def ftag(self, e: tp.Optional[ast.expr], w: tp.Dict[str, str]) -> tp.List[str]:
        if e is None:
            return [Fz]
        if isinstance(e, ast.Constant):
            return [T if e.value is True else Fz if e.value is False else UNK]
        if isinstance(e, ast.Name):
            if ('f:' + e.id) in w:
                return [w['f:' + e.id]]
            if e.id in self.params:
                return [PARAM]
            return [UNK]
        txt = norm(e)
        if txt.endswith('.STATIC') or ' is Frame' in txt or ' is FrameHE' in txt or '.STATIC ==' in txt:
            return [GUARD]
        if isinstance(e, ast.IfExp):
            return self.ftag(e.body, w) + self.ftag(e.orelse, w)
        if isinstance(e, (ast.Compare, ast.BoolOp, ast.UnaryOp)):
            return [COND]
        return [UNK]

    def _assign(self, st, name: str, value: ast.expr):
        if name not in self.tracked:
            return st
        out = set()
        for world in st:
            w = dict(world)
            for vt in self.vtag(value, w):
                for ft in self.ftag(value, w):
                    w2 = dict(w)
                    w2['v:' + name] = vt
                    w2['f:' + name] = ft
                    out.add(frozenset(w2.items()))
        return self.join(frozenset(out), frozenset())

    def _havoc(self, st, name: str, vt: str = UNK):
        if name not in self.tracked:
            return st
        out = set()
        for world in st:
            w = dict(world)
            w['v:' + name] = vt
            w['f:' + name] = UNK
            out.add(frozenset(w.items()))
        return frozenset(out)

    def on_stmt(self, s, st):
        if isinstance(s, (ast.Assign, ast.AnnAssign)):
            targets = s.targets if isinstance(s, ast.Assign) else [s.target]
            value = s.value
            if value is None:
                return st
            for t in targets:
                if isinstance(t, ast.Name):
                    st = self._assign(st, t.id, value)
                elif isinstance(t, (ast.Tuple, ast.List)):
                    vals = value.elts if isinstance(value, (ast.Tuple, ast.List)) and len(value.elts) == len(t.elts) else None
                    for i, el in enumerate(t.elts):
                        if isinstance(el, ast.Name):
                            if vals is not None:
                                st = self._assign(st, el.id, vals[i])
                            else:
                                st = self._havoc(st, el.id, FRESH if isinstance(value, ast.Call) else UNK)
        return st

    def on_bind(self, target, source, st, kind):
        for n in ast.walk(target):
            if isinstance(n, ast.Name):
                st = self._havoc(st, n.id)
        return st

    def on_expr(self, node, st):
        if isinstance(node, ast.Call):
            for flag, (argname, pos) in PAIRS.items():
                fv = kwarg(node, flag)
                if fv is None:
                    continue
                av = kwarg(node, argname)
                if av is None and pos is not None and len(node.args) > pos:
                    av = node.args[pos]
                if av is None:
                    continue
                pairs = set()
                for world in st:
                    w = dict(world)
                    for ft in self.ftag(fv, w):
                        for vt in self.vtag(av, w):
                            pairs.add((ft, vt))
                self.sites.append((node, flag, frozenset(pairs), fv, av))
            fn = node.func
            if isinstance(fn, ast.Attribute) and fn.attr in ('append', 'extend'):
                tags = set()
                for world in st:
                    tags |= set(self.vtag(fn.value, dict(world)))
                self.grow_sites.append((node, frozenset(tags), norm(fn.value)))
        return st


def _run(f: FuncInfo) -> _Client:
    c = _Client(f)
    flow.Engine(c).run(f.body, frozenset([frozenset()]))
    return c


def c_handoffs(ctx: Ctx) -> None:
    R = 'C.own-handoff'
    ctx.rule(R, 'no call hands over with own_data / own_columns / own_blocks possibly True a value that may be the '
             'mutable member of another container (x._blocks, x._columns / x.columns) — static guards '
             '(self.STATIC, constructor is Frame, ...) are the accepted conditional form', floor=120)
    prog = ctx.prog
    for f in prog.all_funcs():
        if isinstance(f.node, ast.Lambda):
            continue
        src = ''.join(f.module.lines[f.node.lineno - 1: (f.node.end_lineno or f.node.lineno)])
        if 'own_' not in src:
            continue
        c = _run(f)
        for call, flag, pairs, fv, av in c.sites:
            # calls that belong to a nested function are reported there
            if not any(n is call for n in walk_local(f.node)):
                continue
            want = SHARED_ATTRS[flag]

            def relevant(vt: str) -> bool:
                return vt.startswith(SHARED) and (vt.split(':')[1] in want or ('_' + vt.split(':')[1]) in want)
            key = f'{flag}={norm(fv)}:{norm(av)[:60]}@{norm(call.func)[:40]}'
            shared_pairs = {(ft, vt) for ft, vt in pairs if relevant(vt)}
            if c.collapsed:
                ctx.unk(R, f, call, 'too many path combinations to track relationally', key=key)
            elif not shared_pairs:
                ctx.ok(R, f, call, f'{flag}={norm(fv)} with value `{norm(av)[:50]}`: on no path a member of another container '
                       f'({sorted(set(vt for _, vt in pairs))})', key=key)
            elif any(ft == T for ft, _ in shared_pairs):
                bad = sorted(vt for ft, vt in shared_pairs if ft == T)
                ctx.bad(R, f, call, f'on some path {flag} is True while the value `{norm(av)[:50]}` is {bad}: the new container '
                        'shares a grow-only member with the one it was derived from, so growth of one shows through the other', key=key)
            elif all(ft in (Fz, GUARD) for ft, _ in shared_pairs):
                ctx.ok(R, f, call, f'shared value `{norm(av)[:50]}` is handed over only with {flag} False or a static guard '
                       f'({sorted(set(ft for ft, _ in shared_pairs))})', key=key)
            else:
                ctx.unk(R, f, call, f'shared value `{norm(av)[:50]}` with a flag of undetermined value ({sorted(set(ft for ft, _ in shared_pairs))})', key=key)


def c_who_may_grow(ctx: Ctx) -> None:
    R = 'C.who-may-grow'
    ctx.rule(R, 'TypeBlocks.append/extend and IndexGO.append/extend are applied to a member slot only by the owner\'s '
             'own mutators (FrameGO.__setitem__/extend, IndexHierarchyGO/IndexLevelGO append/extend); anywhere else '
             'the receiver must be a fresh local (a .copy() or factory result), never x._blocks / x._columns of a live container', floor=8)
    prog = ctx.prog
    OWNERS = {
        'self._columns': ('FrameGO',), 'self._blocks': ('FrameGO', 'TypeBlocks'),
        'self._levels': ('IndexHierarchyGO',),
    }
    for f in prog.all_funcs():
        if isinstance(f.node, ast.Lambda):
            continue
        src = ''.join(f.module.lines[f.node.lineno - 1: (f.node.end_lineno or f.node.lineno)])
        if '.append(' not in src and '.extend(' not in src:
            continue
        c = _run(f)
        top = f
        while top.parent is not None:
            top = top.parent
        for call, vt, recv in c.grow_sites:
            if not any(n is call for n in walk_local(f.node)):
                continue
            shared = {t for t in vt if t.startswith(SHARED)}
            last = recv.split('.')[-1] if '.' in recv else ''
            if last not in ('_blocks', '_columns', 'columns', '_levels') and not shared:
                continue
            key = f'grow:{recv}.{call.func.attr}'
            owners = OWNERS.get(recv)
            if owners and top.cls is not None and top.cls.name in owners:
                ctx.ok(R, f, call, f'{recv}.{call.func.attr} inside the owner {top.cls.name}.{top.name}', key=key)
            elif shared or last in ('_blocks', '_columns', 'columns', '_levels'):
                ctx.bad(R, f, call, f'{recv}.{call.func.attr}(...) grows a member of a live container outside its owner\'s mutators '
                        f'({sorted(shared) or [last]}): every container sharing it changes', key=key)
    # fresh-local growers are the complement: count them as discharged obligations for evidence
    for f in prog.all_funcs():
        if isinstance(f.node, ast.Lambda):
            continue
        c = None
        for n in walk_local(f.node):
            if isinstance(n, ast.Call) and isinstance(n.func, ast.Attribute) and n.func.attr in ('append', 'extend') \
                    and isinstance(n.func.value, ast.Name) and ('blocks' in n.func.value.id or n.func.value.id in ('columns', 'index_go')):
                if c is None:
                    c = _run(f)
                for call, vt, recv in c.grow_sites:
                    if call is n and FRESH in vt and not any(t.startswith(SHARED) for t in vt):
                        # only TypeBlocks-like locals are interesting: those assigned from .copy()/from_blocks
                        defs = [norm(a.value) for a in walk_local(f.node) if isinstance(a, ast.Assign)
                                and any(isinstance(t, ast.Name) and t.id == recv for t in a.targets)]
                        if any('.copy()' in d or 'from_blocks' in d or 'TypeBlocks' in d for d in defs):
                            ctx.ok(R, f, call, f'{recv} is a fresh local ({defs[:1]})', key=f'grow-local:{recv}.{call.func.attr}')


def c_sharing_guards(ctx: Ctx, only: tp.Optional[tp.Sequence[str]] = None) -> None:
    R = 'C.sharing-guards'
    ctx.rule(R, 'the places that keep a donor\'s member without copying do so only when both sides are static: '
             'Index.__init__ (labels._map), IndexHierarchy.__init__ (index_level), immutable_index_filter / '
             'mutable_immutable_index_filter / index_from_optional_constructor (return the argument itself), '
             'FrameGO._to_frame (never owns columns)', floor=6 if only is None else 2)
    prog = ctx.prog

    def conj_atoms(tests: tp.List[tp.Tuple[ast.expr, bool]]) -> tp.Set[str]:
        '''Atoms known true at a point from the enclosing if-tests.'''
        out: tp.Set[str] = set()
        for t, pol in tests:
            def add(e: ast.expr, p: bool) -> None:
                if isinstance(e, ast.BoolOp) and isinstance(e.op, ast.And) and p:
                    for v in e.values:
                        add(v, True)
                elif isinstance(e, ast.BoolOp) and isinstance(e.op, ast.Or) and not p:
                    for v in e.values:
                        add(v, False)
                elif isinstance(e, ast.UnaryOp) and isinstance(e.op, ast.Not):
                    add(e.operand, not p)
                else:
                    out.add(('' if p else 'not ') + norm(e))
            add(t, pol)
        return out

    from sfa.rules.frozen import _enclosing_tests

    # Index.__init__: self._map = labels._map
    f = prog.method('Index', '__init__', inherited=False)
    stores = [s for s in walk_local(f.node) if isinstance(s, ast.Assign) and norm(s.targets[0]) == 'self._map'
              and isinstance(s.value, ast.Attribute) and s.value.attr == '_map']
    ctx.require(len(stores) >= 1, 'Index.__init__ takes the donor map')
    for s in stores:
        donor = norm(s.value.value)
        atoms = conj_atoms(_enclosing_tests(f.node, s))
        good = f'{donor}.STATIC' in atoms and 'self.STATIC' in atoms
        (ctx.ok if good else ctx.bad)(R, f, s, f'hash map of `{donor}` is shared under {sorted(a for a in atoms if "STATIC" in a)}' if good else
                                      f'the donor\'s hash map is shared without requiring both {donor}.STATIC and self.STATIC: '
                                      'an AutoMap that grows with one index would answer lookups for the other', key='Index.__init__:_map')

    # IndexHierarchy.__init__: self._levels = index_level
    f = prog.method('IndexHierarchy', '__init__', inherited=False)
    stores = [s for s in walk_local(f.node) if isinstance(s, ast.Assign) and norm(s.targets[0]) == 'self._levels']
    ctx.require(len(stores) >= 2, 'IndexHierarchy.__init__ assigns _levels on two branches')
    for s in stores:
        if isinstance(s.value, ast.Name):
            atoms = conj_atoms(_enclosing_tests(f.node, s))
            good = 'self.STATIC' in atoms and f'{s.value.id}.STATIC' in atoms
            (ctx.ok if good else ctx.bad)(R, f, s, 'level tree kept only when both sides are static' if good else
                                          'the donor\'s IndexLevel tree is kept without requiring both sides static: '
                                          'IndexLevelGO growth would show through both hierarchies', key='IndexHierarchy.__init__:_levels:keep')
        else:
            good = 'to_index_level' in norm(s.value) or 'deepcopy' in norm(s.value)
            (ctx.ok if good else ctx.bad)(R, f, s, f'level tree copied: {norm(s.value)[:50]}', key='IndexHierarchy.__init__:_levels:copy')

    # functions that may return their index argument unchanged
    for qual, param, need in (('index.immutable_index_filter', 'index', ['index.STATIC']),
                              ('container_util.index_from_optional_constructor', 'value', ['value.STATIC', 'is_static(default_constructor)'])):
        f = prog.func(qual)
        rets = [s for s in walk_local(f.node) if isinstance(s, ast.Return) and isinstance(s.value, ast.Name) and s.value.id == param]
        ctx.require(len(rets) >= 1, f'{qual} returns its argument on some path')
        for s in rets:
            atoms = _known_atoms(f, s)
            missing = [a for a in need if a not in atoms]
            (ctx.ok if not missing else ctx.bad)(
                R, f, s, f'argument returned unchanged under {sorted(a for a in atoms if "STATIC" in a or "is_static" in a)}' if not missing else
                f'the argument itself is returned without {missing} being established: a grow-only index would be shared', key=f'{qual}:return-arg')
    f = prog.func('index.mutable_immutable_index_filter')
    rets = [s for s in walk_local(f.node) if isinstance(s, ast.Return)]
    for s in rets:
        v = s.value
        atoms = _known_atoms(f, s)
        if isinstance(v, ast.Name) and v.id == 'index':
            ctx.bad(R, f, s, 'returns the argument itself', key='mutable_immutable_index_filter:return-arg')
        elif isinstance(v, ast.Call) and call_name(v) == 'immutable_index_filter':
            good = 'target_static' in atoms
            (ctx.ok if good else ctx.bad)(R, f, s, 'immutable filter only when the target is static' if good else
                                          'immutable filter (which may return the argument) used for a mutable target', key='mutable_immutable_index_filter:static')
        elif isinstance(v, ast.Call):
            ctx.ok(R, f, s, f'new instance: {norm(v)[:50]}', key=f'mutable_immutable_index_filter:{norm(v.func)[:30]}')
    # FrameGO._to_frame never owns its columns
    f = prog.method('FrameGO', '_to_frame', inherited=False)
    calls = [n for n in walk_local(f.node) if isinstance(n, ast.Call) and kwarg(n, 'own_columns') is not None]
    ctx.require(len(calls) == 1, 'FrameGO._to_frame constructs once')
    oc = kwarg(calls[0], 'own_columns')
    good = isinstance(oc, ast.Constant) and oc.value is False
    (ctx.ok if good else ctx.bad)(R, f, calls[0], 'own_columns=False' if good else f'own_columns={norm(oc)}: a frame converted from a FrameGO keeps its IndexGO', key='FrameGO._to_frame:own_columns')
    od = kwarg(calls[0], 'own_data')
    data = calls[0].args[0] if calls[0].args else kwarg(calls[0], 'data')
    good = '.copy()' in norm(data)
    (ctx.ok if good else ctx.bad)(R, f, calls[0], f'data={norm(data)}' , key='FrameGO._to_frame:data')
    if only is not None:
        ctx.obs[:] = [o for o in ctx.obs if o.rule != R or o.key.startswith(tuple(only))]


def _known_atoms(f: FuncInfo, target: ast.stmt) -> tp.Set[str]:
    '''Atoms known true on every path reaching `target` (must-dataflow over tests incl. early returns).'''
    class C(flow.Client):
        def __init__(self):
            self.at: tp.Optional[tp.FrozenSet[str]] = None

        def join(self, a, b):
            return a & b

        def refine(self, atom, st, truth):
            return st | {('' if truth else 'not ') + norm(atom)}

        def enter_stmt(self, s, st):
            if s is target:
                self.at = st if self.at is None else (self.at & st)
            return st
    c = C()
    flow.Engine(c).run(f.body, frozenset())
    out = set(c.at or ())
    # normalise double negation
    return {a[8:] if a.startswith('not not ') else a for a in out}
