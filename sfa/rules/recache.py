'''Family B — RECACHE: every read of a lazily rebuilt slot is dominated by its staleness guard.

Template: class K has lazy slots L, a staleness flag phi (True = stale) and a refresher rho.
A read `x.l` (l in L, x an instance of K) is phi-safe iff on every path from function entry to
the read one of these happened after the last mutation of x:
  (a) `if x.phi: x.rho()` (any spelling: the read sits where x.phi is known False, or x.rho() ran),
  (b) a callee that *ensures fresh(x)* on all its normal exits was called (summary, fixpoint),
or the reading function is private and every core caller establishes freshness first
(interprocedural "requires fresh" propagation; a bound-method reference counts as a call).
'''
from __future__ import annotations

import ast
import typing as tp

from sfa import flow
from sfa.model import AnalysisError
from sfa.model import ClassInfo
from sfa.model import FuncInfo
from sfa.model import Program
from sfa.model import Resolver
from sfa.model import norm
from sfa.model import unparse
from sfa.model import walk_local
from sfa.report import Ctx


class Spec:
    def __init__(self, name: str, root: str, slots: tp.Sequence[str], flag: str, refresher: str,
                 mutators: tp.Sequence[str], slots_unique: bool,
                 static_receivers: tp.Sequence[str] = (), exempt: tp.Sequence[str] = ()):
        self.name = name
        self.root = root                    # root class of the family
        self.slots = frozenset(slots)
        self.flag = flag
        self.refresher = refresher
        self.mutators = frozenset(mutators)
        self.slots_unique = slots_unique    # slot names are used by no other class in core
        self.static_receivers = frozenset(static_receivers)
        self.exempt = frozenset(exempt) | {'__init__', '__setstate__', refresher}


SPECS = {
    'Index': Spec('Index', 'Index', ('_labels', '_positions'), '_recache', '_update_array_cache',
                  ('append', 'extend'), slots_unique=True),
    'IndexHierarchy': Spec('IndexHierarchy', 'IndexHierarchy', ('_blocks',), '_recache', '_update_array_cache',
                           ('append', 'extend'), slots_unique=False),
    'ArrayGO': Spec('ArrayGO', 'ArrayGO', ('_array',), '_recache', '_update_array_cache',
                    ('append', 'extend'), slots_unique=False),
    'Quilt': Spec('Quilt', 'Quilt', ('_index', '_columns', '_axis_map', '_axis_opposite'), '_assign_axis',
                  '_update_axis_labels', (), slots_unique=False,
                  # rename hands the possibly-None lazily built maps on to the constructor, which accepts None
                  exempt=('rename',)),
}


def _recv_text(e: ast.expr) -> tp.Optional[str]:
    '''Receivers we track: names and attribute chains rooted in a name.'''
    if isinstance(e, ast.Name):
        return e.id
    if isinstance(e, ast.Attribute):
        base = _recv_text(e.value)
        return f'{base}.{e.attr}' if base else None
    return None


class _Event:
    __slots__ = ('kind', 'node', 'recv', 'ok', 'what')

    def __init__(self, kind, node, recv, ok, what):
        self.kind = kind      # 'read' | 'need'
        self.node = node
        self.recv = recv
        self.ok = ok
        self.what = what      # slot name | required function name


class _Client(flow.Client):
    def __init__(self, an: 'Analysis', f: FuncInfo, self_is_k: bool):
        self.an = an
        self.f = f
        self.spec = an.spec
        self.self_is_k = self_is_k
        top = f
        while top.parent is not None:
            top = top.parent
        self.self_name = top.self_name() if self_is_k else None
        self.events: tp.List[_Event] = []
        self.exit_states: tp.List[flow.State] = []
        self.typed: tp.Set[str] = set(an.typed_receivers(f))

    # lattice: frozenset of facts; join = intersection (must)
    def join(self, a, b):
        return a & b

    def _is_k(self, recv: str, st) -> bool:
        if self.self_name is not None and recv == self.self_name:
            return True
        if ('isa', recv) in st:
            return True
        if ('nota', recv) in st:
            return False
        return recv in self.typed

    def _kill(self, st, recv: str):
        return frozenset(x for x in st if not (x[1] == recv or x[1].startswith(recv + '.')))

    def on_expr(self, node, st):
        sp = self.spec
        if isinstance(node, ast.Attribute) and isinstance(node.ctx, ast.Load):
            recv = _recv_text(node.value)
            if recv is not None:
                if node.attr in sp.slots:
                    if self._is_k(recv, st) or (sp.slots_unique and recv != 'cls'):
                        if not self._exempt_read(recv):
                            self.events.append(_Event('read', node, recv, ('fresh', recv) in st, node.attr))
                elif node.attr in self.an.ens_props:
                    st = st | {('fresh', recv)}
                elif node.attr in self.an.req and not self.an.is_generator_name(node.attr):
                    # a bound-method reference (or the callee of a call) to a function that requires freshness
                    if self._is_k(recv, st) or self.an.req_name_unique(node.attr):
                        self.events.append(_Event('need', node, recv, ('fresh', recv) in st, node.attr))
                elif node.attr in self.an.req:
                    if self._is_k(recv, st) or self.an.req_name_unique(node.attr):
                        self.events.append(_Event('need', node, recv, ('fresh', recv) in st, node.attr))
        elif isinstance(node, ast.Call):
            fn = node.func
            if isinstance(fn, ast.Attribute):
                recv = _recv_text(fn.value)
                if recv is not None:
                    if fn.attr == sp.refresher or fn.attr in self.an.ens_methods:
                        st = st | {('fresh', recv)}
                    elif fn.attr in sp.mutators:
                        st = st - {('fresh', recv)}
            elif isinstance(fn, ast.Name) and fn.id == 'len' and len(node.args) == 1 and '__len__' in self.an.ens_methods:
                recv = _recv_text(node.args[0])
                if recv is not None:
                    st = st | {('fresh', recv)}
        elif isinstance(node, ast.Lambda):
            self._nested(node, st)
        return st

    def _exempt_read(self, recv: str) -> bool:
        top = self.f
        while top.parent is not None:
            top = top.parent
        if self.self_name is not None and recv == self.self_name and top.name in self.spec.exempt:
            return True
        if recv in self.spec.static_receivers:
            return True
        return False

    def refine(self, atom, st, truth):
        sp = self.spec
        if isinstance(atom, ast.Attribute) and atom.attr == sp.flag:
            recv = _recv_text(atom.value)
            if recv is not None:
                return (st - {('fresh', recv)}) if truth else (st | {('fresh', recv)})
        if isinstance(atom, ast.Call) and isinstance(atom.func, ast.Name) and atom.func.id == 'isinstance' \
                and len(atom.args) == 2 and truth:
            recv = _recv_text(atom.args[0])
            names = [n.id for n in ast.walk(atom.args[1]) if isinstance(n, ast.Name)]
            if recv is not None and names and all(self.an.in_family(n) for n in names):
                return st | {('isa', recv)}
            if recv is not None and names and not any(self.an.in_family(n) or n in self.an.ancestor_names for n in names) \
                    and all(n in self.an.prog.classes for n in names):
                # known to be an instance of an unrelated core class on this branch
                return st | {('nota', recv)}
        return st

    def on_stmt(self, s, st):
        sp = self.spec
        if isinstance(s, (ast.Assign, ast.AnnAssign, ast.AugAssign)):
            targets = s.targets if isinstance(s, ast.Assign) else [s.target]
            value = s.value
            for t in targets:
                for el in (t.elts if isinstance(t, (ast.Tuple, ast.List)) else [t]):
                    if isinstance(el, ast.Name):
                        st = self._kill(st, el.id)
                        # x = K(...) typed by constructor or copy of a tracked receiver
                    elif isinstance(el, ast.Attribute):
                        recv = _recv_text(el.value)
                        if recv is None:
                            continue
                        if el.attr == sp.flag:
                            if isinstance(value, ast.Constant) and value.value is False:
                                st = st | {('fresh', recv)}
                            else:
                                st = st - {('fresh', recv)}
                        else:
                            # rebinding x.attr invalidates facts about x.attr.*
                            st = self._kill(st, f'{recv}.{el.attr}')
        elif isinstance(s, (ast.FunctionDef, ast.AsyncFunctionDef)):
            self._nested(s, st)
        return st

    def on_bind(self, target, source, st, kind):
        for n in ast.walk(target):
            if isinstance(n, ast.Name):
                st = self._kill(st, n.id)
        return st

    def _nested(self, node, st) -> None:
        for nf in self.f.nested:
            if nf.node is node:
                sub = _Client(self.an, nf, self.self_is_k)
                sub.self_name = self.self_name
                init = st
                for p in nf.params:
                    init = self._kill(init, p.lstrip('*'))
                ex = flow.Engine(sub).run(nf.body, init)
                self.events.extend(sub.events)
                return

    def on_return(self, s, st):
        self.exit_states.append(st)


class Analysis:
    def __init__(self, prog: Program, spec: Spec):
        self.prog = prog
        self.spec = spec
        self.res = Resolver(prog)
        root = prog.cls(spec.root)
        self.family: tp.List[ClassInfo] = [root] + root.all_subclasses()
        # mixins that contribute methods to family classes (e.g. _IndexGOMixin)
        for k in list(self.family):
            for b in k.mro:
                if b not in self.family and b.name.startswith('_') and 'Mixin' in b.name:
                    self.family.append(b)
        self.family_names = {k.name for k in self.family}
        self.ancestor_names = {b.name for k in self.family for b in k.mro}
        # ancestors of the family that no other class owning a like-named slot shares
        others: tp.Set[str] = set()
        for k in set(prog.classes.values()):
            if k.name in self.family_names:
                continue
            owned = set(k.slots or ()) | set(k.annotations)
            if owned & set(spec.slots):
                others |= {b.name for b in k.mro}
        self.discriminating_ancestors = {a for a in self.ancestor_names - self.family_names if a not in others}
        self.ens_methods: tp.Set[str] = {spec.refresher}
        self.ens_props: tp.Set[str] = set()
        self.req: tp.Set[str] = set()
        self._typed_cache: tp.Dict[str, tp.Set[str]] = {}
        self._gen_names: tp.Set[str] = set()
        for k in self.family:
            for m in k.methods.values():
                if m.is_generator():
                    self._gen_names.add(m.name)

    def in_family(self, cname: str) -> bool:
        return cname in self.family_names

    def is_generator_name(self, name: str) -> bool:
        return False

    def req_name_unique(self, name: str) -> bool:
        '''The method name is defined only by classes of this family.'''
        defs = self.prog.methods_by_name.get(name, [])
        return bool(defs) and all(d.cls is not None and d.cls.name in self.family_names for d in defs)

    def typed_receivers(self, f: FuncInfo) -> tp.Set[str]:
        '''Receivers (other than self) that are instances of the family in f: by annotation, or because
        the function itself consults their staleness flag.'''
        if f.qualname in self._typed_cache:
            return self._typed_cache[f.qualname]
        out: tp.Set[str] = set()
        g: tp.Optional[FuncInfo] = f
        while g is not None:
            if not isinstance(g.node, ast.Lambda):
                for p in g.params:
                    ann = g.param_annotation(p.lstrip('*'))
                    if ann is not None:
                        names = {n.id for n in ast.walk(ann) if isinstance(n, ast.Name)} | {
                            n.value.strip("'\"") for n in ast.walk(ann) if isinstance(n, ast.Constant) and isinstance(n.value, str)}
                        names = {n for n in names if n in self.prog.classes}
                        if names and all(self.in_family(n) for n in names):
                            out.add(p.lstrip('*'))
            g = g.parent
        top = f
        while top.parent is not None:
            top = top.parent
        for n in walk_local(top.node):
            if isinstance(n, ast.Attribute) and n.attr == self.spec.flag:
                r = _recv_text(n.value)
                if r:
                    out.add(r)
        for nf in top.nested:
            for n in ast.walk(nf.node):
                if isinstance(n, ast.Attribute) and n.attr == self.spec.flag:
                    r = _recv_text(n.value)
                    if r:
                        out.add(r)
        # slot annotations of the enclosing class: self._x : K (or a discriminating ancestor of K:
        # an ancestor that no other owner of a like-named slot shares, e.g. IndexBase for `_blocks`)
        accept = self.family_names | self.discriminating_ancestors
        if top.cls is not None:
            sn = top.self_name()
            typed_attrs = set()
            for k in top.cls.mro:
                for attr, ann in k.annotations.items():
                    names = {w for w in ann.replace('[', ' ').replace(']', ' ').replace(',', ' ').replace("'", ' ').split()
                             if w in self.prog.classes}
                    if names and all(n in accept for n in names):
                        typed_attrs.add(attr)
            if sn:
                for attr in typed_attrs:
                    out.add(f'{sn}.{attr}')
                # locals bound (only) to such attributes: x = self._index
                binds: tp.Dict[str, tp.List[ast.expr]] = {}
                for n in walk_local(top.node):
                    if isinstance(n, ast.Assign):
                        for t in n.targets:
                            if isinstance(t, ast.Name):
                                binds.setdefault(t.id, []).append(n.value)
                for name, vals in binds.items():
                    if all(isinstance(v, ast.Attribute) and isinstance(v.value, ast.Name) and v.value.id == sn
                           and v.attr in typed_attrs for v in vals):
                        out.add(name)
        self._typed_cache[f.qualname] = out
        return out

    def run_function(self, f: FuncInfo) -> _Client:
        self_is_k = f.cls is not None and any(k.name in self.family_names for k in f.cls.mro) \
            and f.kind in ('method', 'property')
        c = _Client(self, f, self_is_k)
        ex = flow.Engine(c).run(f.body, frozenset())
        if ex.fall is not None:
            c.exit_states.append(ex.fall)
        return c

    def family_methods(self) -> tp.List[FuncInfo]:
        out = []
        for k in self.family:
            for defs in k.method_defs.values():
                out.extend(defs)
        return out

    def compute_ensures(self) -> None:
        '''Least fixpoint: names all of whose family definitions leave self fresh at every normal exit.'''
        methods = self.family_methods()
        by_name: tp.Dict[str, tp.List[FuncInfo]] = {}
        for m in methods:
            by_name.setdefault(m.name, []).append(m)
        changed = True
        rounds = 0
        while changed and rounds < 8:
            changed = False
            rounds += 1
            for name, defs in by_name.items():
                if name in self.ens_methods or name in self.ens_props:
                    continue
                good = True
                for m in defs:
                    if m.is_generator() or m.kind in ('staticmethod', 'classmethod') or any(d.endswith('.setter') for d in m.decorators):
                        good = False
                        break
                    c = self.run_function(m)
                    sn = m.self_name()
                    if not c.exit_states or not all(('fresh', sn) in st for st in c.exit_states):
                        good = False
                        break
                if good:
                    if all(m.kind == 'property' for m in defs):
                        self.ens_props.add(name)
                    else:
                        self.ens_methods.add(name)
                    changed = True


def _visible(f: FuncInfo) -> bool:
    '''Part of the public surface: no leading underscore, or a dunder.'''
    top = f
    while top.parent is not None:
        top = top.parent
    n = top.name
    return not n.startswith('_') or (n.startswith('__') and n.endswith('__'))


def check(ctx: Ctx, spec_name: str, floor_reads: int) -> None:
    spec = SPECS[spec_name]
    prog = ctx.prog
    R = f'B.recache[{spec_name}]'
    ctx.rule(R, f'every read of {spec_name}.{{{", ".join(sorted(spec.slots))}}} is dominated by `if x.{spec.flag}: '
             f'x.{spec.refresher}()` (or a callee that ensures freshness), with no {sorted(spec.mutators) or "mutation"} '
             'in between; private readers are discharged through every core caller', floor=floor_reads)
    an = Analysis(prog, spec)
    an.compute_ensures()
    ctx.require(spec.refresher in {m.name for m in an.family_methods()}, f'{spec_name}.{spec.refresher}')

    # functions worth analysing: mention a slot, the flag or (later) a REQ name
    def candidates() -> tp.List[FuncInfo]:
        names = set(spec.slots) | an.req
        out = []
        for f in prog.top_funcs():
            src_names = {n.attr for n in ast.walk(f.node) if isinstance(n, ast.Attribute)}
            if src_names & names:
                out.append(f)
        return out

    results: tp.Dict[str, _Client] = {}
    pending_reads: tp.Dict[str, tp.List[_Event]] = {}   # private function -> unguarded self reads
    violations: tp.List[tp.Tuple[FuncInfo, _Event, str]] = []
    req_callers: tp.Dict[str, tp.Set[str]] = {}
    for _round in range(6):
        before = set(an.req)
        results.clear()
        pending_reads.clear()
        violations.clear()
        req_callers.clear()
        for f in candidates():
            c = an.run_function(f)
            results[f.qualname] = c
            sn = c.self_name
            for ev in c.events:
                if ev.ok:
                    continue
                if ev.recv == sn and not _visible(f) and ev.kind == 'read':
                    pending_reads.setdefault(f.qualname, []).append(ev)
                    an.req.add(f.name)
                elif ev.recv == sn and not _visible(f) and ev.kind == 'need':
                    an.req.add(f.name)
                    pending_reads.setdefault(f.qualname, [])
                    req_callers.setdefault(ev.what, set()).add(f.name)
                else:
                    violations.append((f, ev, ''))
        if an.req == before:
            break

    # report
    reached_bad: tp.Dict[str, tp.List[str]] = {}   # required function name -> public sites that call it stale
    for f, ev, _ in violations:
        if ev.kind == 'need':
            reached_bad.setdefault(ev.what, []).append(f'{f.qualname}:{getattr(ev.node, "lineno", 0)}')
    # transitive: a REQ function needing another REQ function
    n_reads = 0
    for qn, c in results.items():
        f = prog.funcs[qn]
        for ev in c.events:
            if ev.kind != 'read':
                continue
            n_reads += 1
            key = f'read:{ev.recv}.{ev.what}@{norm(_stmt_of(f, ev.node))[:120]}'
            if ev.ok:
                ctx.ok(R, f, ev.node, f'{ev.recv}.{ev.what} read with {ev.recv} known fresh', key=key)
            elif ev.recv == c.self_name and not _visible(f):
                bad = _bad_entries(f.name, reached_bad, req_callers)
                if bad:
                    ctx.bad(R, f, ev.node, f'{ev.recv}.{ev.what} is read without the `{spec.flag}` guard and is reached from '
                            f'{", ".join(sorted(set(bad))[:4])} without the guard: after a grow-only mutation the '
                            'pre-growth arrays are served', key=key)
                else:
                    ctx.ok(R, f, ev.node, f'{ev.recv}.{ev.what}: private reader; every core caller establishes freshness first', key=key)
            else:
                ctx.bad(R, f, ev.node, f'{ev.recv}.{ev.what} is read on a path where `{ev.recv}.{spec.flag}` was not tested '
                        f'and {spec.refresher} was not called: after a grow-only mutation the pre-growth value is served', key=key)
    ctx.extra.setdefault('recache', {})[spec_name] = {
        'family': sorted(an.family_names), 'ensures_fresh_methods': sorted(an.ens_methods),
        'ensures_fresh_properties': sorted(an.ens_props), 'requires_fresh_private': sorted(an.req),
        'functions_analysed': len(results), 'reads': n_reads}


def _bad_entries(name: str, reached_bad: tp.Dict[str, tp.List[str]], req_callers: tp.Dict[str, tp.Set[str]]) -> tp.List[str]:
    out: tp.List[str] = []
    seen: tp.Set[str] = set()
    stack = [name]
    while stack:
        n = stack.pop()
        if n in seen:
            continue
        seen.add(n)
        out.extend(reached_bad.get(n, []))
        stack.extend(req_callers.get(n, ()))
    return out


def _stmt_of(f: FuncInfo, node: ast.AST) -> ast.AST:
    '''Innermost statement of f containing node (for a stable construct key).'''
    best: tp.Optional[ast.AST] = None
    top = f
    for s in ast.walk(top.node):
        if isinstance(s, ast.stmt) and not isinstance(s, (ast.FunctionDef, ast.ClassDef, ast.If, ast.For, ast.While, ast.Try, ast.With)):
            for n in ast.walk(s):
                if n is node:
                    best = s
                    break
        if best is not None:
            break
    return best if best is not None else node
