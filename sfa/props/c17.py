'''C17 Bus and multi-table stores.'''
from sfa.report import Ctx
from sfa.rules import table

LEVEL_TEXT = (
    'Static decision of structural clauses of C17: every override of read/read_many/labels/write in every Store subclass carries the matching coherence decorator; the decorators check before / refresh after the wrapped call; _mtime_coherent raises StoreFileMutation on both the changed and the vanished branch; _last_modified is written only by __init__ and _mtime_update; Bus._derive propagates store, config and max_persist. Not decided: contents written by each format; mtime granularity; optional formats absent here.')

CLAIM = dict(
    text=LEVEL_TEXT,
    technique='decorator-table exhaustiveness over Store subclasses + who-may-write check',
    design_ref='DESIGN.md section 2.G and section 3 C17',
)


def run(ctx: Ctx) -> None:
    table.t6_store(ctx)
    table.t9_derive(ctx, which=('Bus',))
