'''C15 rules: an axis reduction of a Frame is labelled by the other axis; the position/label-of-extreme methods read labels of the reduced axis
with the positions computed along that same axis; parameters reach the block-level worker unchanged; the skipna flag selects the NaN-aware ufunc.'''
from __future__ import annotations

import ast
import typing as tp

from sfa.model import AnalysisError
from sfa.model import call_name
from sfa.model import kwarg
from sfa.model import norm
from sfa.model import walk_local
from sfa.report import Ctx
from sfa.symenv import SymEnv

EXTREMES = {'loc_min': 'argmin', 'iloc_min': 'argmin', 'loc_max': 'argmax', 'iloc_max': 'argmax'}


def axis_labels(ctx: Ctx) -> None:
    R = 'E.axis-labels[reduce]'
    ctx.rule(R, 'per path (symbolic store): a Frame reduction along axis 0 (one value per column) is labelled by the columns, along axis 1 by the index; '
             'loc_min / loc_max read the labels of the reduced axis (index values for axis 0, columns values for axis 1) at the positions '
             'arg{min,max}_2d(self.values, skipna=skipna, axis=axis) of the like-named extreme; count labels by the same rule; every parameter of '
             '_ufunc_axis_skipna reaches TypeBlocks.ufunc_axis_skipna under its own name; _ufunc_shape_skipna keeps both label sets and lets skipna choose '
             'the NaN-aware ufunc', floor=16)
    prog = ctx.prog
    n = 0
    for m in ('_ufunc_axis_skipna', 'count', 'loc_min', 'loc_max', 'iloc_min', 'iloc_max'):
        f = prog.method('Frame', m, inherited=False)
        se = SymEnv(f.node, watch=lambda x: isinstance(x, ast.Return), keep_fact=lambda t: t in ('axis == 0', 'axis == 1', 'skipna')).run()
        for node, worlds in se.all_sites():
            for w in sorted(worlds):
                v = se.resolved(node.value, w) if node.value is not None else None
                if not (isinstance(v, ast.Call) and call_name(v) == 'Series'):
                    continue
                facts = se.facts(w)
                ax0 = facts.get('axis == 0')
                if ax0 is None and facts.get('axis == 1') is not None:
                    ax0 = not facts['axis == 1']
                if ax0 is None:
                    continue
                n += 1
                idx = norm(kwarg(v, 'index'))
                data = norm(v.args[0]) if v.args else ''
                want_idx = ('immutable_index_filter(self._columns)', 'self._columns') if ax0 else ('self._index',)
                problems = []
                if idx not in want_idx:
                    problems.append(f'the result of the axis-{0 if ax0 else 1} reduction is labelled by `{idx[:40]}`')
                if m in EXTREMES:
                    fn = EXTREMES[m] + '_2d'
                    calls = [c for c in ast.walk(v) if isinstance(c, ast.Call) and call_name(c) in ('argmin_2d', 'argmax_2d')]
                    if len(calls) != 1 or call_name(calls[0]) != fn:
                        problems.append(f'positions come from `{call_name(calls[0]) if calls else "?"}`, expected {fn}')
                    else:
                        c = calls[0]
                        if not (c.args and norm(c.args[0]) == 'self.values' and norm(kwarg(c, 'axis')) == 'axis' and norm(kwarg(c, 'skipna')) == 'skipna'):
                            problems.append(f'`{norm(c)[:60]}` does not pass self.values with the caller\'s axis and skipna')
                    if m.startswith('loc_'):
                        want_src = ('self.index.values[', 'self._index.values[') if ax0 else ('self.columns.values[', 'self._columns.values[')
                        if not data.startswith(want_src):
                            problems.append(f'labels are read from `{data.split("[")[0]}`: for axis {0 if ax0 else 1} the extreme\'s position indexes the {"index" if ax0 else "columns"}')
                elif m == '_ufunc_axis_skipna':
                    c = v.args[0] if v.args else None
                    if not (isinstance(c, ast.Call) and call_name(c) == 'self._blocks.ufunc_axis_skipna'):
                        problems.append('the data are not produced by TypeBlocks.ufunc_axis_skipna')
                    else:
                        for p in f.params[1:]:
                            if norm(kwarg(c, p)) != p:
                                problems.append(f'{p}= is `{norm(kwarg(c, p))}`, not passed through')
                key = f'Frame.{m}@axis{0 if ax0 else 1}' + (':skipna' if facts.get('skipna') else ':noskip' if facts.get('skipna') is False else '')
                (ctx.bad if problems else ctx.ok)(R, f, node, '; '.join(problems) or f'labelled by {want_idx[-1]}', key=key)
    # Series
    for m, fn in (('loc_min', 'argmin_1d'), ('iloc_min', 'argmin_1d'), ('loc_max', 'argmax_1d'), ('iloc_max', 'argmax_1d')):
        f = prog.method('Series', m, inherited=False)
        calls = [c for c in walk_local(f.node) if isinstance(c, ast.Call) and call_name(c) in ('argmin_1d', 'argmax_1d')]
        n += 1
        good = len(calls) == 1 and call_name(calls[0]) == fn and calls[0].args and norm(calls[0].args[0]) == 'self.values' and norm(kwarg(calls[0], 'skipna')) == 'skipna'
        (ctx.ok if good else ctx.bad)(R, f, calls[0] if calls else f.node, f'{fn}(self.values, skipna=skipna)' if good else f'Series.{m} does not use {fn}(self.values, skipna=skipna)', key=f'Series.{m}')
    # the partial bindings
    util = prog.modules.get('util') or [mod for mod in prog.modules.values() if mod.short == 'util'][0]
    binds = {}
    for a in util.tree.body:
        if isinstance(a, ast.Assign) and isinstance(a.value, ast.Call) and call_name(a.value) == 'partial' and isinstance(a.targets[0], ast.Name) and a.targets[0].id.startswith('arg'):
            binds[a.targets[0].id] = a.value
    for nm, (uf, ufs, dim) in {'argmin_1d': ('np.argmin', 'np.nanargmin', '1d'), 'argmax_1d': ('np.argmax', 'np.nanargmax', '1d'),
                               'argmin_2d': ('np.argmin', 'np.nanargmin', '2d'), 'argmax_2d': ('np.argmax', 'np.nanargmax', '2d')}.items():
        c = binds.get(nm)
        n += 1
        good = c is not None and norm(c.args[0]) == f'_argminmax_{dim}' and norm(kwarg(c, 'ufunc')) == uf and norm(kwarg(c, 'ufunc_skipna')) == ufs
        (ctx.ok if good else ctx.bad)(R, 'util.<module>', c, f'{nm} = partial(_argminmax_{dim}, ufunc={uf}, ufunc_skipna={ufs})' if good else f'{nm} is bound to `{norm(c)[:70]}`',
                                      key=f'bind:{nm}', file=util.relpath)
    # shape-preserving cumulative forms
    f = prog.method('Frame', '_ufunc_shape_skipna', inherited=False)
    se = SymEnv(f.node, watch=lambda x: isinstance(x, ast.Return), keep_fact=lambda t: t == 'skipna').run()
    for node, worlds in se.all_sites():
        for w in sorted(worlds):
            v = se.resolved(node.value, w)
            sk = se.facts(w).get('skipna')
            if sk is None or not isinstance(v, ast.Call):
                continue
            n += 1
            t = norm(v)
            want_fn = 'ufunc_skipna(' if sk else 'ufunc('
            other_fn = 'ufunc(' if sk else 'ufunc_skipna('
            good = norm(kwarg(v, 'index')) == 'self._index' and norm(kwarg(v, 'columns')) == 'self._columns' and f'from_blocks({want_fn}self.values, axis=axis' in t and f'from_blocks({other_fn}' not in t
            (ctx.ok if good else ctx.bad)(R, f, node, f'skipna={sk}: {want_fn[:-1]} over self.values along axis, both label sets kept' if good else
                                          f'with skipna={sk} the cumulative result is `{t[:80]}`', key=f'Frame._ufunc_shape_skipna:{"skipna" if sk else "noskip"}')
    ctx.require(n >= 16, 'reduction result sites')


def skipna_dispatch(ctx: Ctx) -> None:
    R = 'I.skipna-selects-ufunc'
    ctx.rule(R, 'per path of util.ufunc_axis_skipna: with skipna the NaN-aware ufunc is applied, without it the plain ufunc (so a missing cell propagates), each '
             'with the caller\'s axis and out; the only exception is the datetime / timedelta branch, which has no NaN-aware form; TypeBlocks.ufunc_axis_skipna '
             'binds skipna, ufunc and ufunc_skipna into its per-block worker under their own names', floor=4)
    prog = ctx.prog
    f = prog.func('util.ufunc_axis_skipna')
    se = SymEnv(f.node, watch=lambda x: isinstance(x, ast.Return), keep_fact=lambda t: t == 'skipna' or t.startswith('array.dtype.kind ==')).run()
    n = 0
    for node, worlds in se.all_sites():
        for w in sorted(worlds):
            v = se.resolved(node.value, w) if node.value is not None else None
            facts = se.facts(w)
            sk = facts.get('skipna')
            if not isinstance(v, ast.Call):
                continue
            dt = any(val and k in ("array.dtype.kind == 'M'", "array.dtype.kind == 'm'") for k, val in facts.items())
            if sk is None and not dt:
                continue
            n += 1
            callee = call_name(v)
            args_ok = norm(kwarg(v, 'axis')) == 'axis' and norm(kwarg(v, 'out')) == 'out'
            if dt:
                good = callee == 'ufunc' and args_ok
                what = 'datetime branch uses the plain ufunc (no NaN-aware form exists)'
                key = 'datetime'
            else:
                good = callee == ('ufunc_skipna' if sk else 'ufunc') and args_ok
                what = f'skipna={sk}: {callee}'
                key = f'skipna={sk}'
            (ctx.ok if good else ctx.bad)(R, f, node, what if good else f'with skipna={sk} the reduction applies `{norm(v)[:60]}`: missing cells are '
                                          f'{"not skipped" if sk else "silently skipped instead of propagating"} (or axis / out are not the caller\'s)', key=key)
    g = prog.method('TypeBlocks', 'ufunc_axis_skipna', inherited=False)
    parts = [c for c in walk_local(g.node) if isinstance(c, ast.Call) and call_name(c) == 'partial' and c.args and norm(c.args[0]) == 'ufunc_axis_skipna']
    n += 1
    good = len(parts) == 1 and all(norm(kwarg(parts[0], p)) == p for p in ('skipna', 'ufunc', 'ufunc_skipna'))
    (ctx.ok if good else ctx.bad)(R, g, parts[0] if parts else g.node, 'worker = partial(ufunc_axis_skipna, skipna=skipna, ufunc=ufunc, ufunc_skipna=ufunc_skipna)' if good else
                                  'the per-block worker does not bind skipna / ufunc / ufunc_skipna under their own names', key='TypeBlocks.partial')
    ctx.require(n >= 4, 'ufunc_axis_skipna result paths')


def axis_iteration(ctx: Ctx) -> None:
    R = 'E.axis-items'
    ctx.rule(R, 'per path (symbolic store) of the Frame axis iterators and to_pairs: iterating axis 1 walks the rows, so the keys paired with the vectors are the index '
             'labels and each vector is labelled by the columns; iterating axis 0 walks the columns, keyed by the column labels and labelled by the index; the vectors '
             'come from self._blocks.axis_values(axis) with the caller\'s axis, zipped with the keys in one pass', floor=12)
    prog = ctx.prog
    n = 0

    def axis_of(facts: tp.Dict[str, bool]) -> tp.Optional[int]:
        a1, a0 = facts.get('axis == 1'), facts.get('axis == 0')
        if a1 is True and a0 is not True:
            return 1
        if a0 is True and a1 is not True:
            return 0
        if a1 is False and a0 is False:
            return None         # neither axis: the function raises or does nothing meaningful here
        if a1 is False and a0 is None:
            return 0            # `x if axis == 1 else y`: two-valued by the interface contract
        if a0 is False and a1 is None:
            return 1
        return None
    outer = {1: 'self._index', 0: 'self._columns'}
    inner = {1: 'self._columns', 0: 'self._index'}
    for m in ('_axis_array_items', '_axis_tuple_items', '_axis_series_items', '_axis_series', '_axis_tuple', 'to_pairs'):
        f = prog.method('Frame', m, inherited=False)
        se = SymEnv(f.node, watch=lambda x: isinstance(x, (ast.Yield, ast.YieldFrom, ast.Return)), keep_fact=lambda t: t in ('axis == 0', 'axis == 1', 'constructor is None')).run()
        for node, worlds in se.all_sites():
            if getattr(node, 'value', None) is None:
                continue
            for w in sorted(worlds):
                ax = axis_of(se.facts(w))
                if ax is None:
                    continue
                v = se.resolved(node.value, w)
                t = norm(v)
                problems = []
                if m.endswith('_items'):
                    if not (isinstance(v, ast.Call) and call_name(v) == 'zip' and len(v.args) == 2):
                        continue
                    k = norm(v.args[0])
                    if k != outer[ax]:
                        problems.append(f'for axis {ax} the vectors are keyed by `{k[:40]}`, not {outer[ax]}')
                    src = v.args[1]
                    if not (isinstance(src, ast.Call) and (norm(src.func) in ('self._blocks.axis_values', 'self._axis_tuple', 'self._axis_series'))
                            and (norm(kwarg(src, 'axis')) == 'axis' or (src.args and norm(src.args[0]) == 'axis'))):
                        problems.append(f'the vectors `{norm(src)[:50]}` are not produced for the caller\'s axis')
                elif m == '_axis_series':
                    if not (isinstance(v, ast.Call) and call_name(v) == 'Series'):
                        continue
                    nm, idx = norm(kwarg(v, 'name')), norm(kwarg(v, 'index'))
                    if f'zip({outer[ax]}, self._blocks.axis_values(axis))' not in nm:
                        problems.append(f'for axis {ax} each Series is named from `{nm[:60]}`, not from {outer[ax]} zipped with axis_values(axis)')
                    if inner[ax] not in idx or outer[ax] in idx:
                        problems.append(f'for axis {ax} each Series is labelled by `{idx[:50]}`, not by {inner[ax]}')
                elif m == '_axis_tuple':
                    if se.facts(w).get('constructor is None') is not True or not isinstance(v, ast.Call):
                        continue
                    want = f'get_tuple_constructor({inner[ax]}.values)'
                    if want not in t:
                        problems.append(f'for axis {ax} the tuple fields are not {inner[ax]}.values')
                else:   # to_pairs
                    # structure, not text order: one zip pairs the major keys with the per-vector values (axis_values), another pairs the minor keys with the cells
                    # of one vector — whether written as zip(major, (tuple(zip(minor, v)) for v in values)) or as a comprehension over zip(major, values)
                    zips = [z for z in ast.walk(v) if isinstance(z, ast.Call) and call_name(z) == 'zip' and len(z.args) == 2] if v is not None else []
                    z_major = [z for z in zips if 'self._blocks.axis_values(axis)' in norm(z.args[1])]
                    z_minor = [z for z in zips if 'self._blocks.axis_values(axis)' not in norm(z.args[0]) and z not in z_major]
                    if not z_major or not z_minor or 'self._blocks.axis_values(axis)' not in t:
                        problems.append(f'for axis {ax} the pairs are `{t[:80]}`: major keys are not {outer[ax]} / minor keys not {inner[ax]} / values not axis_values(axis)')
                    elif norm(z_major[0].args[0]) != f'tuple({outer[ax]})' or not any(norm(z.args[0]) == f'tuple({inner[ax]})' for z in z_minor):
                        if norm(z_major[0].args[0]) == f'tuple({inner[ax]})':
                            problems.append(f'for axis {ax} major and minor keys are nested the wrong way round')
                        else:
                            problems.append(f'for axis {ax} the pairs are `{t[:80]}`: major keys are not {outer[ax]} / minor keys not {inner[ax]} / values not axis_values(axis)')
                n += 1
                (ctx.bad if problems else ctx.ok)(R, f, node, '; '.join(problems) or f'axis {ax}: keyed by {outer[ax]}, labelled by {inner[ax]}', key=f'Frame.{m}@axis{ax}')
    ctx.require(n >= 12, 'axis iterator result sites')
