'''C03 rules: structural coherence of TypeBlocks / Frame / Series at construction.'''
from __future__ import annotations

import ast
import typing as tp

from sfa import flow
from sfa.model import AnalysisError
from sfa.model import FuncInfo
from sfa.model import call_name
from sfa.model import kwarg
from sfa.model import norm
from sfa.model import walk_local
from sfa import roles
from sfa.report import Ctx

RAW_CTOR_ALLOWED = ('from_blocks', 'from_zero_size_shape', '__copy__')


def raw_constructor_sites(ctx: Ctx) -> None:
    R = 'I.typeblocks-raw-constructor'
    ctx.rule(R, 'the raw TypeBlocks(blocks=, dtypes=, index=, shape=) constructor is called only by the factories that derive the column '
             'directory from the blocks themselves (from_blocks, from_zero_size_shape) and by __copy__, which passes shallow copies of '
             'self\'s own four members taken together; every other TypeBlocks is built by from_blocks', floor=4)
    prog = ctx.prog
    n = 0
    for f in prog.all_funcs():
        if isinstance(f.node, ast.Lambda):
            continue
        for c in walk_local(f.node):
            if not (isinstance(c, ast.Call) and kwarg(c, 'blocks') is not None and kwarg(c, 'dtypes') is not None
                    and kwarg(c, 'index') is not None and kwarg(c, 'shape') is not None and norm(c.func) in ('cls', 'self.__class__', 'TypeBlocks')):
                continue
            n += 1
            top = f
            while top.parent is not None:
                top = top.parent
            key = f'raw-ctor@{top.qualname.split(".", 1)[1]}:{norm(kwarg(c, "blocks"))[:40]}'
            if top.cls is None or top.cls.name != 'TypeBlocks' or top.name not in RAW_CTOR_ALLOWED:
                ctx.bad(R, f, c, f'{top.qualname} calls the raw TypeBlocks constructor with a hand-built directory: nothing ties _index / _dtypes / _shape to the blocks '
                        '(use from_blocks)', key=key)
                continue
            b, d, i, s = (norm(_identity_comp(kwarg(c, k))) for k in ('blocks', 'dtypes', 'index', 'shape'))
            if top.name == '__copy__':
                good = b in ('list(self._blocks)', 'self._blocks.copy()') and d in ('self._dtypes.copy()', 'list(self._dtypes)') \
                    and i in ('self._index.copy()', 'list(self._index)') and s == 'self._shape'
                (ctx.ok if good else ctx.bad)(R, f, c, 'shallow copies of self\'s own blocks, dtypes, index and shape' if good else
                                              f'__copy__ passes blocks={b}, dtypes={d}, index={i}, shape={s}: the directory does not describe the blocks', key=key)
            elif top.name == 'from_zero_size_shape':
                good = b in ('list()', '[]') and d in ('list()', '[]') and i in ('list()', '[]') and s == 'shape'
                (ctx.ok if good else ctx.bad)(R, f, c, 'empty directory for a zero-width shape' if good else f'blocks={b}, dtypes={d}, index={i}, shape={s}', key=key)
            else:
                # the three lists this call built in step (each is appended to in this function), and the counts it accumulated
                kb, kd, ki, ks = (kwarg(c, k) for k in ('blocks', 'dtypes', 'index', 'shape'))
                appended = {x.func.value.id for x in ast.walk(top.node) if isinstance(x, ast.Call) and isinstance(x.func, ast.Attribute)
                            and x.func.attr in ('append', 'extend') and isinstance(x.func.value, ast.Name)}
                lists = [x.id for x in (kb, kd, ki) if isinstance(x, ast.Name)]
                good = len(lists) == 3 and len(set(lists)) == 3 and set(lists) <= appended \
                    and isinstance(ks, ast.Tuple) and len(ks.elts) == 2 and all(isinstance(e, ast.Name) for e in ks.elts) \
                    and _directory_roles(top.node).get('blocks') == lists[0] and _directory_roles(top.node).get('dtypes') == lists[1] \
                    and _directory_roles(top.node).get('index') == lists[2]
                (ctx.ok if good else ctx.bad)(R, f, c, 'from_blocks passes the lists it built in step, by their own names' if good else
                                              f'from_blocks passes blocks={b}, dtypes={d}, index={i}, shape={s}', key=key)
    ctx.require(n >= 4, 'raw TypeBlocks constructor sites')


def _identity_comp(e: tp.Optional[ast.expr]) -> tp.Optional[ast.expr]:
    """[x for x in E] -> list(E): the identity comprehension is a shallow list copy whatever its variable is called."""
    if isinstance(e, ast.ListComp) and len(e.generators) == 1 and not e.generators[0].ifs and isinstance(e.elt, ast.Name) \
            and isinstance(e.generators[0].target, ast.Name) and e.elt.id == e.generators[0].target.id:
        return ast.Call(func=ast.Name(id='list', ctx=ast.Load()), args=[e.generators[0].iter], keywords=[])
    return e


def _directory_roles(fn: ast.AST) -> tp.Dict[str, tp.Optional[str]]:
    """Locals of from_blocks by role: the list receiving arrays (appended an immutable_filter(...) result), the list receiving
    (block number, column) pairs, the list receiving dtypes; the block counter is the first element of the appended pair; the
    per-block row / column counts come from shape_filter(<loop block>); the loop variables."""
    out: tp.Dict[str, tp.Optional[str]] = {}
    for c in ast.walk(fn):
        if isinstance(c, ast.Call) and isinstance(c.func, ast.Attribute) and c.func.attr == 'extend' and isinstance(c.func.value, ast.Name) and len(c.args) == 1:
            # index.extend((block_count, i) for i in range(c)) / dtypes.extend([block.dtype] * c): the extend spelling of the per-column loop
            a = c.args[0]
            if isinstance(a, (ast.GeneratorExp, ast.ListComp)) and isinstance(a.elt, ast.Tuple) and len(a.elt.elts) == 2 and all(isinstance(e, ast.Name) for e in a.elt.elts):
                out.setdefault('index', c.func.value.id)
                out.setdefault('block_count', a.elt.elts[0].id)
                out.setdefault('i', a.elt.elts[1].id)
            elif any(isinstance(x, ast.Attribute) and x.attr == 'dtype' for x in ast.walk(a)):
                out.setdefault('dtypes', c.func.value.id)
        if isinstance(c, ast.Call) and isinstance(c.func, ast.Attribute) and c.func.attr == 'append' and isinstance(c.func.value, ast.Name) and len(c.args) == 1:
            a = c.args[0]
            if isinstance(a, ast.Tuple) and len(a.elts) == 2 and all(isinstance(e, ast.Name) for e in a.elts):
                out.setdefault('index', c.func.value.id)
                out.setdefault('block_count', a.elts[0].id)
            elif isinstance(a, ast.Attribute) and a.attr == 'dtype':
                out.setdefault('dtypes', c.func.value.id)
            elif isinstance(a, ast.Call) and call_name(a) == 'immutable_filter':
                out.setdefault('blocks', c.func.value.id)
    for lp in ast.walk(fn):
        if isinstance(lp, ast.For) and isinstance(lp.target, ast.Name) and isinstance(lp.iter, ast.Name) and lp.iter.id in roles.params_of(fn) \
                and any(isinstance(x, ast.Call) and call_name(x) == 'shape_filter' for x in ast.walk(lp)):
            out['block'] = lp.target.id
            for a in ast.walk(lp):
                if isinstance(a, ast.Assign) and isinstance(a.value, ast.Call) and call_name(a.value) == 'shape_filter' and isinstance(a.targets[0], ast.Tuple) \
                        and len(a.targets[0].elts) == 2 and all(isinstance(e, ast.Name) for e in a.targets[0].elts):
                    out['r'], out['c'] = a.targets[0].elts[0].id, a.targets[0].elts[1].id
            for inner in ast.walk(lp):
                if isinstance(inner, ast.For) and inner is not lp and isinstance(inner.target, ast.Name) and call_name(inner.iter) == 'range':
                    out['i'] = inner.target.id
            for a in ast.walk(lp):
                if isinstance(a, ast.AugAssign) and isinstance(a.target, ast.Name) and isinstance(a.value, ast.Name) and a.value.id == out.get('c'):
                    out['column_count'] = a.target.id
            for a in ast.walk(lp):
                if isinstance(a, ast.Compare) and len(a.ops) == 1 and isinstance(a.ops[0], ast.NotEq) and isinstance(a.left, ast.Name) and a.left.id == out.get('r') \
                        and isinstance(a.comparators[0], ast.Name):
                    out['row_count'] = a.comparators[0].id
    return out


def from_blocks_lockstep(ctx: Ctx) -> None:
    R = 'D1.from-blocks-lockstep'
    ctx.rule(R, 'in TypeBlocks.from_blocks every accepted block updates the block list, the per-column index and dtype directory, '
             'the column count and the block counter together, index entries being (block_count, i) taken before the counter advances; '
             'rows are checked against the first block; zero-width blocks are skipped before anything is recorded', floor=6)
    f = ctx.prog.method('TypeBlocks', 'from_blocks', inherited=False)
    fnode = roles.canonical(f.node, _directory_roles(f.node))
    loops = [n for n in walk_local(fnode) if isinstance(n, ast.For) and norm(n.iter) == 'raw_blocks']
    ctx.require(len(loops) == 1, 'from_blocks iterates raw_blocks')
    lp = loops[0]
    body = lp.body
    txt = [norm(s) for s in body]

    def pos(pred) -> tp.Optional[int]:
        for i, s in enumerate(body):
            if pred(s):
                return i
        return None
    i_skip = pos(lambda s: isinstance(s, ast.If) and norm(s.test) == 'c == 0' and any(isinstance(x, ast.Continue) for x in s.body))
    i_blocks = pos(lambda s: norm(s).startswith('blocks.append('))
    def writes_index(st: ast.stmt, count: str, src: str) -> bool:
        '''one (block_count, i) entry per column: the loop form or the extend form'''
        if isinstance(st, ast.For) and norm(st.iter) == f'range({count})':
            return 'index.append((block_count, i))' in {norm(x) for x in st.body}
        if isinstance(st, ast.Expr) and isinstance(st.value, ast.Call) and norm(st.value.func) == 'index.extend' and st.value.args:
            a = st.value.args[0]
            return isinstance(a, (ast.GeneratorExp, ast.ListComp)) and norm(a.elt) == '(block_count, i)' and len(a.generators) == 1 and not a.generators[0].ifs \
                and norm(a.generators[0].iter) == f'range({count})' and norm(a.generators[0].target) == 'i'
        return False

    def writes_dtypes(st: ast.stmt, count: str, src: str) -> bool:
        '''one dtype entry per column: the loop form, `extend([d] * count)` or `extend(d for _ in range(count))`'''
        if isinstance(st, ast.For) and norm(st.iter) == f'range({count})':
            return f'dtypes.append({src}.dtype)' in {norm(x) for x in st.body}
        if isinstance(st, ast.Expr) and isinstance(st.value, ast.Call) and norm(st.value.func) == 'dtypes.extend' and st.value.args:
            a = st.value.args[0]
            if isinstance(a, ast.BinOp) and isinstance(a.op, ast.Mult):
                return {norm(a.left), norm(a.right)} == {f'[{src}.dtype]', count}
            if isinstance(a, (ast.GeneratorExp, ast.ListComp)):
                return norm(a.elt) == f'{src}.dtype' and len(a.generators) == 1 and not a.generators[0].ifs and norm(a.generators[0].iter) == f'range({count})'
        return False
    i_dir_index = pos(lambda s: writes_index(s, 'c', 'block'))
    i_dir_dtypes = pos(lambda s: writes_dtypes(s, 'c', 'block'))
    i_dir = max(i_dir_index, i_dir_dtypes) if i_dir_index is not None and i_dir_dtypes is not None else None
    i_cols = pos(lambda s: norm(s) == 'column_count += c')
    i_cnt = pos(lambda s: norm(s) == 'block_count += 1')
    i_rows = pos(lambda s: isinstance(s, ast.If) and 'r != row_count' in norm(s.test) and any(isinstance(x, ast.Raise) for x in s.body))
    checks = (
        ('block-list', i_blocks is not None, 'blocks.append(...) per accepted block'),
        ('directory', i_dir is not None, 'one (block_count, i) index entry and one block.dtype entry per column'),
        ('column-count', i_cols is not None, 'column_count += c'),
        ('block-counter', i_cnt is not None and i_dir is not None and i_cnt > i_dir, 'block_count += 1 after the directory entries of this block were written'),
        ('skip-empty-first', i_skip is not None and all(x is None or x > i_skip for x in (i_blocks, i_dir, i_cols, i_cnt)), 'zero-width blocks are skipped before any update'),
        ('row-check', i_rows is not None and (i_blocks is None or i_rows < i_blocks), 'a block with a different row count raises before it is recorded'),
    )
    for name, good, what in checks:
        (ctx.ok if good else ctx.bad)(R, f, lp, what if good else f'from_blocks loop: {what} — not satisfied: directory and blocks can drift apart', key=name)
    # no update is conditional (other than the skip) : all five are top-level statements of the loop body
    nested_updates = [norm(x)[:40] for s in body if isinstance(s, ast.If) and s is not (body[i_skip] if i_skip is not None else None)
                      for x in ast.walk(s) if isinstance(x, (ast.AugAssign, ast.Call)) and norm(x).startswith(('blocks.append', 'column_count +=', 'block_count +=', 'index.append', 'dtypes.append'))]
    (ctx.ok if not nested_updates else ctx.bad)(R, f, lp, 'no directory update is conditional' if not nested_updates else f'conditional updates: {nested_updates}', key='unconditional')
    # single-array branch
    stmts_all = [n for n in walk_local(fnode) if isinstance(n, ast.stmt)]
    single = [n for n in stmts_all if writes_index(n, 'column_count', 'raw_blocks')]
    good = bool(single) and any(writes_dtypes(n, 'column_count', 'raw_blocks') for n in stmts_all)
    (ctx.ok if good else ctx.bad)(R, f, single[0] if single else f.node, 'single-array form writes one directory entry per column' if good else
                                  'the single-array branch of from_blocks no longer writes index and dtypes per column', key='single-array')


def final_shape_checks(ctx: Ctx) -> None:
    R = 'I.final-shape-checks'
    ctx.rule(R, 'every normal exit of Frame.__init__ has passed both `self._blocks.shape[i] != count -> raise ErrorInitFrame` tests, and '
             'every normal exit of Series.__init__ the `value_count != index_count` and dimensionality tests (must-pass-through on all paths)', floor=4)
    prog = ctx.prog

    def ne_sides(e: ast.expr) -> tp.Optional[tp.Tuple[ast.expr, ast.expr]]:
        if isinstance(e, ast.Compare) and len(e.ops) == 1 and isinstance(e.ops[0], ast.NotEq):
            return e.left, e.comparators[0]
        return None

    def frame_pred(axis: int) -> tp.Callable[[FuncInfo, ast.expr], bool]:
        def pred(f: FuncInfo, e: ast.expr) -> bool:
            sd = ne_sides(e)
            return sd is not None and sorted((norm(sd[0]) == f'self._blocks.shape[{axis}]', norm(sd[1]) == f'self._blocks.shape[{axis}]')) == [False, True] \
                and any(isinstance(x, ast.Name) for x in sd)
        return pred

    def series_count_pred(f: FuncInfo, e: ast.expr) -> bool:
        # <count of the values> != <count of the index>, each a local assigned from len(self.values) / the index length
        sd = ne_sides(e)
        if sd is None or not all(isinstance(x, ast.Name) for x in sd):
            return False
        vnames = set(roles.assigned_from_all(f.node, lambda v: norm(v) in ('len(self.values)', 'self.values.__len__()')))
        inames = set(roles.assigned_from_all(f.node, lambda v: norm(v) in ('len(self._index)', 'self._index.__len__()')))
        a, b = sd[0].id, sd[1].id
        return (a in vnames and b in inames) or (b in vnames and a in inames)

    def series_ndim_pred(f: FuncInfo, e: ast.expr) -> bool:
        sd = ne_sides(e)
        return sd is not None and {norm(sd[0]), norm(sd[1])} == {'self.values.ndim', 'self._NDIM'}

    for cname, needed in (('Frame', (('rows == len(index)', frame_pred(0)), ('columns == len(columns)', frame_pred(1)))),
                          ('Series', (('len(values) == len(index)', series_count_pred), ('values are 1-D', series_ndim_pred)))):
        f = prog.method(cname, '__init__', inherited=False)

        class C(flow.Client):
            def join(self, a, b):
                return a & b

            def refine(self, atom, st, truth):
                if not truth:
                    for label, pred in needed:
                        if pred(f, atom):
                            st = st | {label}
                return st
        c = C()
        ex = flow.Engine(c).run(f.body, frozenset())
        exits = [s for _n, s in ex.returns] + ([ex.fall] if ex.fall is not None else [])
        ctx.require(len(exits) >= 1, f'{cname}.__init__ has a normal exit')
        for label, pred in needed:
            good = all(label in s for s in exits)
            raises = any(isinstance(n, ast.If) and pred(f, n.test) and any(isinstance(x, ast.Raise) and 'ErrorInit' in norm(x.exc) for x in n.body) for n in walk_local(f.node))
            (ctx.ok if good and raises else ctx.bad)(R, f, f.node, f'`{label}` is tested (and its failure raises) on every path to a normal exit' if good and raises else
                                                     f'a normal exit of {cname}.__init__ is reachable without the `{label}` check: a container whose data and labels disagree in size can be constructed', key=f'{cname}:{label}')


def offset_discipline(ctx: Ctx) -> None:
    R = 'I.block-offset-discipline'
    ctx.rule(R, 'every loop over the blocks that keeps a running column offset (a local set to 0 before the loop and advanced inside it) '
             'advances that offset on every path that reaches the next iteration — fall-through and `continue` alike: a skipped update '
             'shifts every later block against the columns it is matched with', floor=10)
    prog = ctx.prog
    n = 0
    for f in prog.all_funcs():
        if isinstance(f.node, ast.Lambda):
            continue
        body_lists = [x for x in ast.walk(f.node) if isinstance(getattr(x, 'body', None), list)]
        for holder in body_lists:
            for field in ('body', 'orelse'):
                stmts = getattr(holder, field, None)
                if not isinstance(stmts, list):
                    continue
                for i, lp in enumerate(stmts):
                    if not isinstance(lp, ast.For) or '_blocks' not in norm(lp.iter) and 'blocks' not in norm(lp.iter) and 'block_iter' not in norm(lp.iter):
                        continue
                    # candidates: names assigned the literal 0 in the statements preceding the loop (same block)
                    zeros = set()
                    for s in stmts[max(0, i - 6):i]:
                        if isinstance(s, ast.Assign) and isinstance(s.value, ast.Constant) and s.value.value == 0 and not isinstance(s.value.value, bool):
                            zeros |= {t.id for t in s.targets if isinstance(t, ast.Name)}
                        elif isinstance(s, ast.Assign) and isinstance(s.targets[0], ast.Name) and isinstance(s.value, ast.Name) and False:
                            pass
                        if isinstance(s, ast.Assign) and len(s.targets) > 1 and isinstance(s.value, ast.Constant) and s.value.value == 0:
                            zeros |= {t.id for t in s.targets if isinstance(t, ast.Name)}
                    for name in sorted(zeros):
                        # advanced inside the loop from another local (offset = end) or by += : a running offset
                        adv = [a for a in ast.walk(lp) if (isinstance(a, ast.Assign) and any(isinstance(t, ast.Name) and t.id == name for t in a.targets)
                                                          and isinstance(a.value, ast.Name)) or
                               (isinstance(a, ast.AugAssign) and isinstance(a.target, ast.Name) and a.target.id == name and isinstance(a.op, ast.Add))]
                        if not adv:
                            continue
                        if not any(isinstance(x, ast.Name) and x.id == name and isinstance(x.ctx, ast.Load) for x in ast.walk(lp)):
                            continue        # a tally that is only accumulated (never read in the loop) is not a running offset
                        # only top-level-or-branch updates (an update inside an inner loop is a different pattern)
                        n += 1
                        ok, where = _offset_paths(lp, name)
                        if ok is None:
                            n -= 1
                            continue
                        key = f'{f.name}:{name}@{norm(lp.iter)[:30]}'
                        (ctx.ok if ok else ctx.bad)(R, f, lp, f'`{name}` is advanced on every path to the next iteration' if ok else
                                                    f'the running offset `{name}` is not advanced on the path through {where}: every following block is matched against the wrong columns', key=key)
    ctx.require(n >= 8, 'block loops with a running offset')


def _offset_paths(lp: ast.For, name: str) -> tp.Tuple[tp.Optional[bool], str]:
    '''The rule instance is a loop whose advance of `name` is a top-level statement of the loop body (a per-iteration
    advance by design).  Every `continue` that precedes it must have advanced the offset itself, unless its guard is a
    zero-size test (`x == 0`: nothing to advance by).  None = not an instance (the advance is itself conditional).'''
    def is_adv(s: ast.stmt) -> bool:
        if isinstance(s, ast.Assign) and any(isinstance(t, ast.Name) and t.id == name for t in s.targets):
            return True
        return isinstance(s, ast.AugAssign) and isinstance(s.target, ast.Name) and s.target.id == name
    top = [i for i, s in enumerate(lp.body) if is_adv(s)]
    if not top:
        return None, ''
    last = top[-1]
    bad = []

    def scan(stmts: tp.Sequence[ast.stmt], advanced: bool, guards: tp.List[ast.expr]) -> None:
        adv = advanced
        for s in stmts:
            if is_adv(s):
                adv = True
            elif isinstance(s, ast.Continue):
                zero = any(isinstance(g, ast.Compare) and len(g.ops) == 1 and isinstance(g.ops[0], ast.Eq)
                           and isinstance(g.comparators[0], ast.Constant) and g.comparators[0].value == 0 for g in guards)
                if not adv and not zero:
                    bad.append(f'the `continue` at line {s.lineno}')
            elif isinstance(s, ast.If):
                scan(s.body, adv, guards + [s.test])
                scan(s.orelse, adv, guards)
            elif isinstance(s, (ast.With, ast.Try)):
                scan(s.body, adv, guards)
            # inner loops: their continue belongs to them
    scan(lp.body[:last], False, [])
    return (not bad), ' and '.join(bad)


def layout_independent_casts(ctx: Ctx) -> None:
    R = 'I.layout-independent-cast'
    ctx.rule(R, 'block layout is unobservable: a per-block cast (`b.astype(D)` on the loop\'s block, possibly on a slice of it) that is guarded by a test on the '
             'block\'s layout (`b.ndim`, `b.shape`) has a sibling cast to the same dtype on the complementary layout branch; a cast applied to 2-D blocks only '
             '(or 1-D only) makes values depend on how the columns happen to be partitioned', floor=10)
    from sfa.rules.frozen import _enclosing_tests
    prog = ctx.prog
    n = 0
    for f in prog.all_funcs():
        if isinstance(f.node, ast.Lambda) or f.module.short not in ('type_blocks', 'frame', 'series', 'util', 'container_util', 'quilt'):
            continue
        for lp in walk_local(f.node):
            if not isinstance(lp, ast.For):
                continue
            tn = {x.id for x in ast.walk(lp.target) if isinstance(x, ast.Name)}
            # layout aliases: ndim = sel.ndim and the like
            lay_names = {a.targets[0].id for a in ast.walk(lp) if isinstance(a, ast.Assign) and isinstance(a.targets[0], ast.Name) and isinstance(a.value, ast.Attribute)
                         and a.value.attr in ('ndim', 'shape')}

            def is_layout(t: ast.expr) -> bool:
                return any((isinstance(x, ast.Attribute) and x.attr in ('ndim', 'shape') and isinstance(x.value, ast.Name) and x.value.id in tn) or
                           (isinstance(x, ast.Name) and x.id in lay_names) for x in ast.walk(t))
            casts = [c for c in ast.walk(lp) if isinstance(c, ast.Call) and isinstance(c.func, ast.Attribute) and c.func.attr == 'astype' and c.args
                     and any(isinstance(x, ast.Name) and x.id in tn for x in ast.walk(c.func.value))]
            # only the innermost loop owning the block variable
            casts = [c for c in casts if not any(isinstance(x, ast.For) and x is not lp and any(y is c for y in ast.walk(x)) and
                                                 ({z.id for z in ast.walk(x.target) if isinstance(z, ast.Name)} & {z.id for z in ast.walk(c.func.value) if isinstance(z, ast.Name)})
                                                 for x in ast.walk(lp))]
            def restricts(i: ast.If, pol: bool) -> bool:
                # does reaching this branch imply a particular layout?  true branch of a conjunction with a layout conjunct (or of a bare layout
                # test); false branch of a bare layout test or of a disjunction with a layout disjunct
                t = i.test
                if isinstance(t, ast.BoolOp):
                    has = any(is_layout(v) and not isinstance(v, ast.BoolOp) for v in t.values)
                    return has and ((isinstance(t.op, ast.And) and pol) or (isinstance(t.op, ast.Or) and not pol))
                return is_layout(t)
            for c in casts:
                n += 1
                key = f'{f.name}:astype({norm(c.args[0])[:30]})@{norm(c.func.value)[:30]}'
                guards = [(i, pol) for i, pol in _enclosing_ifs(lp, c) if is_layout(i.test) and restricts(i, pol)]
                if not guards:
                    ctx.ok(R, f, c, 'cast does not depend on block layout', key=key)
                    continue
                gids = {id(i) for i, _p in guards}
                siblings = [x for x in casts if x is not c and not ({id(i) for i, p in _enclosing_ifs(lp, x) if restricts(i, p) and (id(i), p) in {(id(a), b) for a, b in guards}})]
                if siblings:
                    ctx.ok(R, f, c, f'cast under `{norm(guards[-1][0].test)[:40]}`; the other layout casts at line {siblings[0].lineno}', key=key)
                else:
                    i, pol = guards[-1]
                    ctx.bad(R, f, c, f'`{norm(c)[:50]}` is applied only under `{norm(i.test)[:60]}` ({"true" if pol else "false"} branch) and no cast exists for blocks of the other '
                            'layout: the result depends on whether a column sits in a 1-D or a 2-D block', key=key)
    ctx.require(n >= 10, 'per-block casts')


def _enclosing_ifs(root: ast.AST, target: ast.AST) -> tp.List[tp.Tuple[ast.If, bool]]:
    '''[(If node, True if target is in its body / False if in its orelse)], outermost first.'''
    out: tp.List[tp.Tuple[ast.If, bool]] = []

    def rec(node: ast.AST) -> bool:
        if node is target:
            return True
        if isinstance(node, ast.If):
            if any(x is target for x in ast.walk(node.test)):
                out.append((node, True))      # part of the test itself: treat as guarded by it
                return True
            for s in node.body:
                if rec(s):
                    out.insert(0, (node, True))
                    return True
            for s in node.orelse:
                if rec(s):
                    out.insert(0, (node, False))
                    return True
            return False
        for ch in ast.iter_child_nodes(node):
            if rec(ch):
                return True
        return False
    rec(root)
    return out


def slice_cardinality(ctx: Ctx) -> None:
    R = 'I.slice-cardinality'
    ctx.rule(R, 'the number of positions a slice selects depends on all three of start / stop / step: every result of `<slice>.indices(n)` in core is consumed whole '
             '(starred into range(...) / slice(...)), or, when taken apart, any `stop - start` span formed from its components is computed with the step component '
             'in the same statement or under a test of it; a span that ignores the step miscounts `[::2]`, `[::-1]` selections (single-row detection, '
             'assigned widths, fill limits)', floor=6)
    prog = ctx.prog
    n = 0
    for f in prog.all_funcs():
        if isinstance(f.node, ast.Lambda):
            continue
        calls = [c for c in walk_local(f.node) if isinstance(c, ast.Call) and isinstance(c.func, ast.Attribute) and c.func.attr == 'indices' and len(c.args) == 1 and not c.keywords]
        if not calls:
            continue
        parents: tp.Dict[int, ast.AST] = {}
        for p in ast.walk(f.node):
            for ch in ast.iter_child_nodes(p):
                parents[id(ch)] = p
        for c in calls:
            n += 1
            key = f'{f.name}:{norm(c)[:50]}'
            par = parents.get(id(c))
            if isinstance(par, ast.Starred):
                ctx.ok(R, f, c, 'consumed whole (starred)', key=key)
                continue
            # component roles: (start, stop, step) as expression texts
            comp: tp.List[tp.Optional[str]] = [None, None, None]
            whole: tp.Optional[str] = None
            if isinstance(par, ast.Assign) and par.value is c and len(par.targets) == 1:
                t = par.targets[0]
                if isinstance(t, (ast.Tuple, ast.List)) and len(t.elts) == 3:
                    comp = [e.id if isinstance(e, ast.Name) else None for e in t.elts]
                elif isinstance(t, ast.Name):
                    whole = t.id
            elif isinstance(par, ast.Subscript) and par.value is c:
                whole = norm(c)

            def role(e: ast.expr) -> tp.Optional[int]:
                if isinstance(e, ast.Name) and e.id in comp and e.id != '_':
                    return comp.index(e.id)
                if isinstance(e, ast.Subscript) and isinstance(e.slice, ast.Constant) and isinstance(e.slice.value, int) and whole is not None \
                        and norm(e.value) == whole and 0 <= e.slice.value < 3:
                    return e.slice.value
                return None
            spans = [b for b in walk_local(f.node) if isinstance(b, ast.BinOp) and isinstance(b.op, ast.Sub) and role(b.left) == 1 and role(b.right) == 0]
            if whole is not None and whole != norm(c):
                # the whole tuple passed on starred is fine
                pass
            if not spans:
                ctx.ok(R, f, c, 'taken apart, but no stop - start span is formed from the components', key=key)
                continue
            sp = spans[0]
            # the statement holding the span and the enclosing tests
            stmt: ast.AST = sp
            while id(stmt) in parents and not isinstance(stmt, ast.stmt):
                stmt = parents[id(stmt)]
            region: tp.List[ast.AST] = [stmt] + [i.test for i, _p in _enclosing_ifs(f.node, stmt)]
            if any(role(x) == 2 for r in region for x in ast.walk(r) if isinstance(x, ast.expr)):
                ctx.ok(R, f, c, 'span computed with the step component', key=key)
            else:
                ctx.bad(R, f, sp, f'`{norm(sp)[:50]}` takes the span of `{norm(c)[:40]}` without its step component: a stepped slice (`[::2]`, `[::-1]`) selects '
                        'ceil(span / step) positions, not span', key=key)
    ctx.require(n >= 6, 'slice.indices sites')


def descending_slice_normalised(ctx: Ctx) -> None:
    R = 'I.descending-slice-normalised'
    ctx.rule(R, 'util.slice_to_ascending_slice turns a descending positional slice into the ascending slice over the same positions (mask / drop / astype need ascending '
             'column keys); bounds of a positional slice may be negative (counted from the end) or None, so before its arithmetic on `.start` / `.stop` the function either '
             'normalises the key with `.indices(size)` or restates negative bounds as positions under a `< 0` test; raw arithmetic on a negative bound addresses other '
             'columns (`mask.iloc[:, -1::-1]` marked nothing)', floor=1)
    prog = ctx.prog
    f = prog.func('util.slice_to_ascending_slice')
    kparam = f.params[0]
    arith = [b for b in walk_local(f.node) if isinstance(b, ast.BinOp) and any(isinstance(x, ast.Attribute) and x.attr in ('start', 'stop') and isinstance(x.value, ast.Name)
                                                                               and x.value.id == kparam for x in ast.walk(b))]
    ctx.require(bool(arith) or any(isinstance(c, ast.Call) and isinstance(c.func, ast.Attribute) and c.func.attr == 'indices' for c in walk_local(f.node)),
                'slice_to_ascending_slice computes with the bounds of its key')
    first_arith = min([b.lineno for b in arith] or [10 ** 9])
    via_indices = any(isinstance(c, ast.Call) and isinstance(c.func, ast.Attribute) and c.func.attr == 'indices' and c.lineno <= first_arith for c in walk_local(f.node))
    neg_tests = [i for i in walk_local(f.node) if isinstance(i, ast.If) and i.lineno < first_arith and
                 any(isinstance(c, ast.Compare) and len(c.ops) == 1 and isinstance(c.ops[0], ast.Lt) and norm(c.comparators[0]) == '0'
                     and any(isinstance(x, ast.Attribute) and x.attr in ('start', 'stop') for x in ast.walk(c.left)) for c in ast.walk(i.test))]
    # the negative-bound branch rebinds the key (or the locals the arithmetic then uses)
    restates = any(any(isinstance(a, ast.Assign) for a in ast.walk(i)) for i in neg_tests)
    # both bounds are covered
    covered = {x.attr for i in neg_tests for c in ast.walk(i.test) if isinstance(c, ast.Compare) for x in ast.walk(c.left) if isinstance(x, ast.Attribute) and x.attr in ('start', 'stop')}
    key = 'slice_to_ascending_slice:negative-bounds'
    if via_indices or (restates and covered >= {'start', 'stop'}):
        ctx.ok(R, f, f.node, 'negative bounds are restated as positions before the arithmetic' if not via_indices else 'the key is normalised with .indices(size)', key=key)
    else:
        ctx.bad(R, f, arith[0] if arith else f.node, f'`{norm(arith[0])[:50]}` computes with a raw bound of `{kparam}` although negative bounds were not normalised '
                f'(covered: {sorted(covered) or "none"}): a descending slice with a negative start or stop maps to the wrong ascending slice', key=key)
