'''Family A — FROZEN: array typestate obligations R1–R6 (see DESIGN 2.A).'''
from __future__ import annotations

import ast
import typing as tp

from sfa.model import AnalysisError
from sfa.model import ClassInfo
from sfa.model import FuncInfo
from sfa.model import call_name
from sfa.model import kwarg
from sfa.model import norm
from sfa.model import walk_local
from sfa.report import Ctx
from sfa.rules import avals
from sfa.rules.avals import F
from sfa.rules.avals import NA
from sfa.rules.avals import U
from sfa.rules.avals import Evaluator
from sfa.rules.avals import Summaries

# classes whose public surface C01 names (followed into what they delegate to through summaries)
PUBLIC_CLASSES = ('Series', 'SeriesHE', 'Frame', 'FrameGO', 'FrameHE', 'Index', 'IndexGO', 'IndexHierarchy',
                  'IndexHierarchyGO', 'IndexBase', 'IndexDatetime', 'Bus', 'Quilt')
OWNER_FAMILIES = {          # root class -> owned array slots
    'TypeBlocks': ('_blocks',),
    'Series': ('values',),
    'Index': ('_labels', '_positions'),
    'ArrayGO': ('_array',),
}


def _classify(v: avals.AV) -> tp.Tuple[str, tp.List[str]]:
    '''-> (frozen | writable | unknown | notarray, reasons)'''
    arr = [x for x in _flatten(v)]
    if not arr:
        return 'notarray', []
    writable = [x for x in arr if isinstance(x, tuple) and x[0] == 'A']
    params = [x for x in arr if isinstance(x, tuple) and x[0] in ('P', 'PA')]
    unknown = [x for x in arr if x == U or (isinstance(x, tuple) and x[0] == 'C')]
    if writable:
        return 'writable', [f'allocation@{x[1] // 1000 if x[1] < 10**9 else "callee"}' for x in writable]
    if params:
        return 'param', [x[1] for x in params]
    if unknown:
        return 'unknown', []
    if any(x == F for x in arr):
        return 'frozen', []
    return 'notarray', []


def _flatten(v: avals.AV) -> tp.Iterator[tp.Any]:
    for x in v:
        if isinstance(x, tuple) and x[0] == 'L':
            yield from _flatten(x[1])
        elif isinstance(x, tuple) and x[0] == 'T':
            for p in x[1]:
                yield from _flatten(p)
        elif x in (NA, avals.INT, avals.SLICE):
            continue
        else:
            yield x


def _enclosing_tests(root: ast.AST, target: ast.AST) -> tp.List[tp.Tuple[ast.expr, bool]]:
    path: tp.List[tp.Tuple[ast.expr, bool]] = []

    def rec(node: ast.AST, acc) -> bool:
        if node is target:
            path.extend(acc)
            return True
        if isinstance(node, ast.If):
            for s in node.body:
                if rec(s, acc + [(node.test, True)]):
                    return True
            for s in node.orelse:
                if rec(s, acc + [(node.test, False)]):
                    return True
            return False
        for ch in ast.iter_child_nodes(node):
            if rec(ch, acc):
                return True
        return False
    rec(root, [])
    return path


class Driver:
    def __init__(self, ctx: Ctx):
        self.ctx = ctx
        self.prog = ctx.prog
        self.sums = Summaries(ctx.prog)
        self._evals: tp.Dict[str, Evaluator] = {}

    def evaluator(self, f: FuncInfo) -> Evaluator:
        e = self._evals.get(f.qualname)
        if e is None:
            e = Evaluator(self.sums, f)
            e.run()
            self._evals[f.qualname] = e
        return e

    def all_events(self, f: FuncInfo) -> tp.Iterator[tp.Tuple[FuncInfo, avals.Event]]:
        ev = self.evaluator(f)

        def rec(e: Evaluator) -> tp.Iterator[tp.Tuple[FuncInfo, avals.Event]]:
            for x in e.events:
                yield e.f, x
            for sub in getattr(e, 'nested_results', []):
                yield from rec(sub)
        yield from rec(ev)

    def family(self, root: str) -> tp.List[ClassInfo]:
        k = self.prog.cls(root)
        out = [k] + k.all_subclasses()
        for c in list(out):
            for b in c.mro:
                if b not in out and 'Mixin' in b.name:
                    out.append(b)
        return out


# ---------------------------------------------------------------------------------------
def r1_slot_frozen(ctx: Ctx, d: Driver) -> None:
    R = 'A-R1.slot-frozen'
    ctx.rule(R, 'at every normal exit of a function that stores into an owned array slot (Series.values, '
             'Index._labels/_positions, ArrayGO._array, PositionsAllocator._array, TypeBlocks._blocks incl. '
             'every raw TypeBlocks(...) constructor call) the stored value is read-only', floor=18)
    prog = ctx.prog
    for root, slots in OWNER_FAMILIES.items():
        for k in d.family(root):
            for defs in k.method_defs.values():
                for f in defs:
                    _r1_function(ctx, d, R, f, slots)
    # PositionsAllocator (class attribute cache)
    pa = prog.cls('PositionsAllocator')
    for f in pa.methods.values():
        _r1_function(ctx, d, R, f, ('_array',), recv_names=('cls', 'self'))
    # class body / module constants: store then freeze
    util = prog.module('util')
    for name in sorted(avals.FROZEN_CONSTANTS):
        body = util.tree.body
        idx = next((i for i, s in enumerate(body) if isinstance(s, ast.Assign) and any(
            isinstance(t, ast.Name) and t.id == name for t in s.targets)), None)
        if idx is None:
            raise AnalysisError(f'anchor vanished: util.{name}')
        frozen = any(norm(s) == f'{name}.flags.writeable = False' for s in body[idx + 1: idx + 4])
        (ctx.ok if frozen else ctx.bad)(R, 'util.<module>', body[idx], f'{name} is frozen right after creation' if frozen else
                                        f'module constant {name} is left writable', key=f'const:{name}', file=util.relpath)
    cb = pa.node.body
    idx = next((i for i, s in enumerate(cb) if isinstance(s, (ast.Assign, ast.AnnAssign)) and '_array' in norm(s).split('=')[0]), None)
    if idx is not None:
        frozen = any(norm(s) == '_array.flags.writeable = False' for s in cb[idx + 1: idx + 3])
        (ctx.ok if frozen else ctx.bad)(R, 'util.PositionsAllocator', cb[idx], 'class-level _array frozen after creation' if frozen
                                        else 'PositionsAllocator._array is left writable', key='const:PositionsAllocator._array', file=util.relpath)
    # raw TypeBlocks constructor calls anywhere in core
    for f in prog.top_funcs():
        if 'blocks=' not in ''.join(f.module.lines[f.node.lineno - 1: (f.node.end_lineno or f.node.lineno)]):
            continue
        for site, ev in d.all_events(f):
            if ev.kind != 'call':
                continue
            call = ev.node
            if not (isinstance(call, ast.Call) and kwarg(call, 'blocks') is not None and kwarg(call, 'dtypes') is not None
                    and kwarg(call, 'index') is not None and kwarg(call, 'shape') is not None):
                continue
            cn = norm(call.func)
            if cn not in ('cls', 'self.__class__', 'TypeBlocks'):
                continue
            evl = d.evaluator(f) if site is f else None
            v = ev.state.resolve(_eval_in(d, site, kwarg(call, 'blocks'), ev.state))
            kind, why = _classify(v)
            key = f'raw-ctor:{norm(kwarg(call, "blocks"))[:80]}'
            if kind in ('frozen', 'notarray'):
                ctx.ok(R, site, call, f'raw TypeBlocks constructor receives a list of read-only arrays ({sorted(map(str, v))[:3]})', key=key)
            elif kind in ('writable', 'param'):
                ctx.bad(R, site, call, 'raw TypeBlocks constructor is handed arrays that are still writable or caller-owned '
                        f'({why[:3]}): the new TypeBlocks owns mutable storage (bypasses from_blocks/immutable_filter)', key=key)
            else:
                ctx.unk(R, site, call, f'blocks argument of unknown frozen-ness ({kind})', key=key)


def _eval_in(d: Driver, site: FuncInfo, e: ast.expr, st: avals.St) -> avals.AV:
    ev = Evaluator(d.sums, site)
    return ev.val(e, st)


def _r1_function(ctx: Ctx, d: Driver, R: str, f: FuncInfo, slots: tp.Sequence[str],
                 recv_names: tp.Optional[tp.Sequence[str]] = None) -> None:
    src = ''.join(f.module.lines[f.node.lineno - 1: (f.node.end_lineno or f.node.lineno)])
    if not any(s in src for s in slots):
        return
    for site, ev in d.all_events(f):
        if ev.kind == 'store':
            tgt = ev.what  # e.g. self.values | obj._labels | cls._array
            parts = tgt.split('.')
            if len(parts) != 2 or parts[1] not in slots:
                continue
            recv = parts[0]
            top = site
            while top.parent is not None:
                top = top.parent
            ok_recv = {top.self_name(), 'obj'} | set(recv_names or ())
            if recv not in ok_recv:
                continue
            if top.name == '__init__' and top.cls is not None and top.cls.name == 'TypeBlocks':
                continue  # the raw constructor: its obligation sits at every call site (raw-ctor, below)
            # exit condition: the stored value, as frozen as it is at every normal exit of the storing function
            evl = _find_eval(d, f, site)
            states = evl.exit_states or [ev.state]
            raw = ev.state.env.get(tgt, ev.value)
            only_local = all(x == F or x == NA or (isinstance(x, tuple) and x[0] == 'A') for x in raw) and raw
            verdicts = []
            for s in states:
                if only_local:
                    # an exit that was taken before this store (an early return of a guard clause) never held this allocation in the slot
                    cur = s.env.get(tgt)
                    ids = {x for x in raw if isinstance(x, tuple) and x[0] == 'A'}
                    if s is not ev.state and ids and not (ids & {x for x in (cur or ()) if isinstance(x, tuple) and x[0] == 'A'}):
                        continue
                    verdicts.append(_classify(s.resolve(raw)))
                else:
                    v = s.env.get(tgt)
                    if v is not None:
                        verdicts.append(_classify(s.resolve(v)))
            if not verdicts:
                verdicts = [_classify(ev.state.resolve(raw) if only_local else ev.value)]
            kinds = {k for k, _ in verdicts}
            key = f'store:{tgt}={norm(ev.node.value)[:80] if hasattr(ev.node, "value") else ""}'
            if kinds <= {'frozen', 'notarray'}:
                ctx.ok(R, site, ev.node, f'{tgt} is read-only at every exit', key=key)
            elif 'writable' in kinds or 'param' in kinds:
                why = [w for k, ws in verdicts if k in ('writable', 'param') for w in ws]
                ctx.bad(R, site, ev.node, f'{tgt} holds a writable array at a normal exit ({sorted(set(why))[:3]}): '
                        'the container owns mutable storage', key=key)
            else:
                ctx.unk(R, site, ev.node, f'{tgt}: frozen-ness of the stored value is unknown', key=key)
        elif ev.kind == 'list_store' and ev.what.split('.')[-1] in slots and ev.what.split('.')[0] in ('self',):
            kind, why = _classify(ev.value)
            key = f'append:{ev.what}'
            if kind in ('frozen', 'notarray'):
                ctx.ok(R, site, ev.node, f'{ev.what} grows by a read-only array', key=key)
            elif kind in ('writable', 'param'):
                ctx.bad(R, site, ev.node, f'{ev.what} grows by an array that may be writable ({why[:3]}) — no immutable_filter on this path', key=key)
            else:
                ctx.unk(R, site, ev.node, f'{ev.what}: appended value unknown', key=key)


def _find_eval(d: Driver, f: FuncInfo, site: FuncInfo) -> Evaluator:
    root = d.evaluator(f)
    if site is f:
        return root
    stack = list(getattr(root, 'nested_results', []))
    while stack:
        e = stack.pop()
        if e.f is site:
            return e
        stack.extend(getattr(e, 'nested_results', []))
    return root


# ---------------------------------------------------------------------------------------
def r3_no_inplace(ctx: Ctx, d: Driver, funcs: tp.Optional[tp.Iterable[FuncInfo]] = None,
                  rule_id: str = 'A-R3.inplace-write', floor: int = 90) -> None:
    R = rule_id
    ctx.rule(R, 'every in-place array mutation (subscript store, augmented assignment, .sort/.fill/.put, out=, '
             'np.copyto/place/putmask, flags.writeable = True) targets an array allocated in the same function '
             'and not yet frozen; a target that is owned storage, another container\'s values or frozen is a violation; '
             'a caller-supplied or unresolved target is undecided', floor=floor)
    for f in (funcs if funcs is not None else ctx.prog.top_funcs()):
        for site, ev in d.all_events(f):
            if ev.kind not in ('write', 'thaw'):
                continue
            kind, why = _classify(ev.value)
            if kind == 'notarray':
                continue
            key = f'{ev.kind}:{norm(ev.node)[:120]}'
            arr = list(_flatten(ev.value))
            has_frozen = any(x == F for x in arr)
            if kind == 'writable' and not has_frozen:
                ctx.ok(R, site, ev.node, f'target `{ev.what}` is a local allocation ({why[:2]})', key=key)
            elif has_frozen:
                ctx.bad(R, site, ev.node, f'in-place write to `{ev.what}`, which may be read-only storage owned by a container '
                        '(or already frozen): the write either raises or mutates a live container', key=key)
            elif kind == 'param' and not has_frozen:
                ctx.unk(R, site, ev.node, f'target `{ev.what}` derives from parameter(s) {why[:3]}', key=key)
            else:
                ctx.unk(R, site, ev.node, f'target `{ev.what}` of unknown origin', key=key)


# ---------------------------------------------------------------------------------------
def r4_reanimation(ctx: Ctx, d: Driver) -> None:
    R = 'A-R4.reanimation'
    ctx.rule(R, 'every class that owns array slots re-freezes each of them in __setstate__ (pickle does not '
             'preserve flags.writeable) and builds them with array_deepcopy in __deepcopy__; array_deepcopy copies the flag', floor=8)
    prog = ctx.prog
    for root, slots in OWNER_FAMILIES.items():
        k = prog.cls(root)
        ss = k.lookup('__setstate__')
        if ss is None:
            ctx.bad(R, f'{k.qualname}', k.node, f'{root} owns array slot(s) {slots} but defines no __setstate__: '
                    'an unpickled instance holds writable arrays', key=f'{root}.__setstate__', file=k.module.relpath)
        else:
            txt = [norm(s) for s in walk_local(ss.node) if isinstance(s, (ast.Assign, ast.For))]
            for slot in slots:
                direct = f'self.{slot}.flags.writeable = False'
                looped = any(isinstance(s, ast.For) and norm(s.iter) == f'self.{slot}' and any(
                    norm(b) == f'{norm(s.target)}.flags.writeable = False' for b in s.body) for s in walk_local(ss.node))
                if direct in txt or looped:
                    ctx.ok(R, ss, ss.node, f'{slot} is re-frozen after unpickling', key=f'{root}.__setstate__:{slot}')
                else:
                    ctx.bad(R, ss, ss.node, f'__setstate__ restores {slot} without re-freezing it: '
                            f'pickle.loads(pickle.dumps(x)) exposes a writable {slot}', key=f'{root}.__setstate__:{slot}')
        # subclasses adding __setstate__ must keep the freezes
        for sub in k.all_subclasses():
            f = sub.methods.get('__setstate__')
            if f is not None and f is not ss:
                src = norm(f.node)
                calls_super = 'super().__setstate__' in src
                for slot in slots:
                    good = calls_super or f'self.{slot}.flags.writeable = False' in src
                    (ctx.ok if good else ctx.bad)(R, f, f.node, f'{sub.name}.__setstate__ keeps {slot} frozen' if good else
                                                  f'{sub.name}.__setstate__ overrides the base without re-freezing {slot}', key=f'{sub.name}.__setstate__:{slot}')
        # __deepcopy__
        for c in [k] + k.all_subclasses() + [b for b in d.family(root) if 'Mixin' in b.name]:
            dc = c.methods.get('__deepcopy__')
            if dc is None:
                continue
            for slot in slots:
                stores = [s for s in walk_local(dc.node) if isinstance(s, ast.Assign) and isinstance(s.targets[0], ast.Attribute)
                          and s.targets[0].attr == slot and isinstance(s.targets[0].value, ast.Name) and s.targets[0].value.id != dc.self_name]
                if not stores:
                    ctx.bad(R, dc, dc.node, f'__deepcopy__ does not set {slot}', key=f'{c.name}.__deepcopy__:{slot}')
                    continue
                v = norm(stores[0].value)
                good = ('array_deepcopy(' in v) or v.startswith('PositionsAllocator.get(')
                (ctx.ok if good else ctx.bad)(R, dc, stores[0], f'{slot} <- {v[:60]}', key=f'{c.name}.__deepcopy__:{slot}')
    ad = prog.func('util.array_deepcopy')
    arr = ad.params[0]
    flag = any(norm(s).endswith(f'.flags.writeable = {arr}.flags.writeable') for s in walk_local(ad.node) if isinstance(s, ast.Assign))
    (ctx.ok if flag else ctx.bad)(R, ad, ad.node, 'array_deepcopy carries flags.writeable over to the copy' if flag else
                                  'array_deepcopy returns a writable copy of a read-only array', key='array_deepcopy:flag')


# ---------------------------------------------------------------------------------------
def r5_caller_arrays(ctx: Ctx, d: Driver) -> None:
    R = 'A-R5.caller-arrays'
    ctx.rule(R, 'an array received as a parameter is frozen in place only under a guard on an own_* parameter that is '
             'true on that path; otherwise it must pass a copying constructor', floor=3)
    for f in ctx.prog.top_funcs():
        src = ''.join(f.module.lines[f.node.lineno - 1: (f.node.end_lineno or f.node.lineno)])
        if 'writeable' not in src:
            continue
        for site, ev in d.all_events(f):
            if ev.kind != 'freeze_param':
                continue
            top = site
            while top.parent is not None:
                top = top.parent
            tests = _enclosing_tests(top.node, ev.node)
            owned = [t for t, pol in tests if pol and any(isinstance(n, ast.Name) and n.id.startswith('own_') for n in ast.walk(t))]
            key = f'freeze:{ev.what}@{norm(ev.node)[:80]}'
            internal = top.name.startswith('_') and not top.name.startswith('__')
            if owned:
                ctx.ok(R, site, ev.node, f'parameter `{ev.what}` frozen in place under `{norm(owned[0])}`', key=key)
            elif internal or top.cls is None:
                ctx.unk(R, site, ev.node, f'internal helper freezes its argument `{ev.what}` in place', key=key)
            else:
                ctx.bad(R, site, ev.node, f'caller-supplied array `{ev.what}` is frozen in place without an own_* guard: '
                        'the caller\'s own array becomes read-only (or, if not copied, stays shared)', key=key)


# ---------------------------------------------------------------------------------------
MUTATORS = ('__setitem__', '__delitem__', '__setattr__', '__delattr__', '__iadd__', '__isub__', '__imul__', '__itruediv__',
            '__ifloordiv__', '__imod__', '__ipow__', '__iand__', '__ior__', '__ixor__', '__ilshift__', '__irshift__', '__imatmul__')
CONTENT_SLOTS = ('values', '_labels', '_positions', '_map', '_blocks', '_index', '_columns', '_name', '_levels')
SLOT_WRITERS_OK = ('__init__', '__setstate__', '__deepcopy__', '_update_array_cache', '_extract_labels', '_extract_positions',
                   '_update_axis_labels')


def r6_no_mutators(ctx: Ctx, d: Driver) -> None:
    R = 'A-R6.no-mutation-interface'
    ctx.rule(R, 'exported classes whose STATIC resolves to True define no item/attribute/in-place-operator mutators, '
             'and content slots are assigned only by constructors, unpickling, deep copy and cache refreshers', floor=10)
    prog = ctx.prog
    for name in ('Series', 'SeriesHE', 'Frame', 'FrameHE', 'Index', 'IndexHierarchy'):
        k = prog.cls(name)
        static = k.lookup_attr('STATIC')
        is_static = isinstance(static, ast.Constant) and static.value is True
        if not is_static:
            ctx.bad(R, k.qualname, k.node, f'{name}.STATIC does not resolve to True', key=f'{name}.STATIC', file=k.module.relpath)
            continue
        bad = [m for m in MUTATORS if k.lookup(m) is not None]
        (ctx.bad if bad else ctx.ok)(R, k.qualname, k.node, f'defines mutators {bad}' if bad else 'no mutator dunders in the MRO',
                                     key=f'{name}.mutators', file=k.module.relpath)
        for b in k.mro:
            if b.name in ('ContainerOperand', 'ContainerBase', 'IndexBase'):
                continue
            for defs in b.method_defs.values():
                for f in defs:
                    sn = f.self_name()
                    if sn is None:
                        continue
                    for n in ast.walk(f.node):
                        if isinstance(n, (ast.Assign, ast.AugAssign, ast.AnnAssign)):
                            tg = n.targets if isinstance(n, ast.Assign) else [n.target]
                            for t in tg:
                                for el in (t.elts if isinstance(t, ast.Tuple) else [t]):
                                    if isinstance(el, ast.Attribute) and isinstance(el.value, ast.Name) and el.value.id == sn \
                                            and el.attr in CONTENT_SLOTS:
                                        top = f
                                        good = top.name in SLOT_WRITERS_OK
                                        key = f'{b.name}.{f.name}:{el.attr}'
                                        (ctx.ok if good else ctx.bad)(
                                            R, f, n, f'self.{el.attr} assigned in {f.name}' + ('' if good else
                                            ' — a method of a static container rebinds its content after construction'), key=key)


# ---------------------------------------------------------------------------------------
def r2_public_returns(ctx: Ctx, d: Driver) -> None:
    R = 'A-R2.public-return-frozen'
    ctx.rule(R, 'every array returned or yielded by a public method/property of Series, Frame, Index, '
             'IndexHierarchy, Bus, Quilt (and HE/GO variants) is read-only on every path; a fresh writable array '
             'reaching a return annotated np.ndarray through fully resolved flows is a violation; anything involving an '
             'unresolved value, or a return not annotated as an array (it may be a scalar), is undecided', floor=60)
    prog = ctx.prog
    seen: tp.Set[str] = set()
    for cname in PUBLIC_CLASSES:
        k = prog.cls(cname)
        for b in k.mro:
            if b.name in ('ContainerBase',):
                continue
            for defs in b.method_defs.values():
                for f in defs:
                    if f.qualname in seen:
                        continue
                    seen.add(f.qualname)
                    n = f.name
                    if n.startswith('_') and not (n.startswith('__') and n.endswith('__')) and not n.startswith('_ufunc'):
                        continue
                    if n in ('__init__', '__setstate__', '__repr__', '__str__', '__len__', '__hash__', '__bool__', '__contains__',
                             'to_pandas', 'to_xarray', 'to_arrow'):
                        continue
                    if any(dd.endswith('.setter') for dd in f.decorators):
                        continue
                    ret_ann = norm(getattr(f.node, 'returns', None))
                    if n == 'to_pandas':
                        continue
                    _r2_function(ctx, d, R, f, ret_ann)


def _r2_function(ctx: Ctx, d: Driver, R: str, f: FuncInfo, ret_ann: str) -> None:
    wants_array = 'ndarray' in ret_ann or 'np.array' in ret_ann
    for site, ev in d.all_events(f):
        if site is not f or ev.kind not in ('return', 'yield'):
            continue
        v = ev.value
        arr = list(_flatten(v))
        nonarr = any(x in (NA, avals.INT, avals.SLICE) for x in v)
        if not arr:
            continue
        if not wants_array and not any(x == F or (isinstance(x, tuple) and x[0] == 'A') for x in arr):
            continue
        writable = [x for x in arr if isinstance(x, tuple) and x[0] == 'A']
        unknown = [x for x in arr if x == U or (isinstance(x, tuple) and x[0] in ('P', 'PA', 'C'))]
        key = f'{ev.kind}:{norm(ev.node)[:100]}'
        if writable and not unknown and wants_array:
            ctx.bad(R, f, ev.node, f'{f.name} hands out an array that is still writable on this path '
                    f'(allocated at line(s) {sorted({x[1] // 1000 for x in writable if x[1] < 10**9}) or "in a callee"}): '
                    'a caller can mutate what the API returned', key=key)
        elif writable or unknown:
            ctx.unk(R, f, ev.node, 'returned value involves an unresolved or caller-supplied array', key=key)
        else:
            ctx.ok(R, f, ev.node, 'returned array is read-only on every path', key=key)


# ---------------------------------------------------------------------------------------
# NumPy functions that hand back a new, writable ndarray whenever an argument is array-like
NP_ALLOCATING = ('searchsorted', 'array', 'empty', 'empty_like', 'full', 'full_like', 'zeros', 'ones', 'arange', 'concatenate', 'where', 'nonzero', 'flatnonzero',
                 'argsort', 'sort', 'unique', 'cumsum', 'cumprod', 'isin', 'in1d', 'logical_and', 'logical_or', 'logical_not', 'tile', 'repeat', 'roll', 'hstack', 'vstack',
                 'column_stack', 'intersect1d', 'union1d', 'setdiff1d', 'fromiter', 'take', 'diff', 'dot', 'matmul', 'isnan', 'isnat', 'copy', 'astype')


def r7_fresh_returns(ctx: Ctx) -> None:
    R = 'A-R7.fresh-array-return-frozen'
    ctx.rule(R, 'a public method that hands out an array it has just made hands it out read-only: a return whose value is a direct NumPy allocation (`np.searchsorted(...)` '
             'on array-like needles, ...), a fancy-indexed copy (`<array>[K]` where the method itself treats K as an array: stores into it or takes len of it), or a '
             'local bound to one of those, is preceded on that path by `<name>.flags.writeable = False`; the Index-family `_ufunc_axis_skipna`, whose result '
             'IndexBase._ufunc_shape_skipna returns unchanged from cumsum / cumprod, freezes an array result like its IndexHierarchy sibling does', floor=6)
    prog = ctx.prog
    seen: tp.Set[str] = set()
    n = 0
    for cname in PUBLIC_CLASSES:
        k = prog.cls(cname)
        for b in k.mro:
            if b.name in ('ContainerBase',):
                continue
            for defs in b.method_defs.values():
                for f in defs:
                    if f.qualname in seen:
                        continue
                    seen.add(f.qualname)
                    nm = f.name
                    axis_helper = nm == '_ufunc_axis_skipna' and b.name in ('Index', 'IndexHierarchy', 'IndexBase')
                    if nm.startswith('_') and not (nm.startswith('__') and nm.endswith('__')) and not axis_helper:
                        continue
                    if isinstance(f.node, ast.Lambda) or f.is_generator():
                        continue
                    # names the method itself treats as arrays
                    arrayish = {s.targets[0].value.id for s in walk_local(f.node) if isinstance(s, ast.Assign) and isinstance(s.targets[0], ast.Subscript)
                                and isinstance(s.targets[0].value, ast.Name)}
                    arrayish |= {c.args[0].id for c in walk_local(f.node) if isinstance(c, ast.Call) and call_name(c) == 'len' and c.args and isinstance(c.args[0], ast.Name)}
                    arrayish -= set(f.params)

                    def fresh(e: tp.Optional[ast.expr]) -> tp.Optional[str]:
                        if isinstance(e, ast.Call) and isinstance(e.func, ast.Attribute) and isinstance(e.func.value, ast.Name) and e.func.value.id == 'np' \
                                and e.func.attr in NP_ALLOCATING:
                            return f'np.{e.func.attr}(...) allocates a new writable array'
                        if isinstance(e, ast.Subscript) and isinstance(e.slice, ast.Name) and e.slice.id in arrayish \
                                and not (isinstance(e.value, ast.Attribute) and e.value.attr in ('iloc', 'loc')):
                            return f'`{norm(e)[:40]}` indexes with `{e.slice.id}`, which this method treats as an array: the result is a writable copy'
                        if axis_helper and isinstance(e, ast.Call) and call_name(e) in ('ufunc_axis_skipna', 'ufunc', 'ufunc_skipna'):
                            return f'`{call_name(e)}(...)` returns what the ufunc produced (an array for cumsum / cumprod)'
                        return None

                    for r in walk_local(f.node):
                        if not (isinstance(r, ast.Return) and r.value is not None):
                            continue
                        v = r.value
                        why = fresh(v)
                        key = f'{b.name}.{nm}:{norm(r)[:70]}'
                        if why is not None:
                            n += 1
                            ctx.bad(R, f, r, f'{why}, and it is returned as it is: the caller can write into what the API handed out', key=key)
                            continue
                        if isinstance(v, ast.Name):
                            defs_v = [a for a in walk_local(f.node) if isinstance(a, ast.Assign) and any(isinstance(t, ast.Name) and t.id == v.id for t in a.targets) and a.lineno < r.lineno]
                            whys = [fresh(a.value) for a in defs_v]
                            if not any(whys):
                                continue
                            n += 1
                            # a return under a test that says the value is not an array hands out an element, not an array
                            def not_array(t: ast.expr, pol: bool) -> bool:
                                if isinstance(t, ast.UnaryOp) and isinstance(t.op, ast.Not):
                                    return not_array(t.operand, not pol)
                                if isinstance(t, ast.Compare) and len(t.ops) == 1 and norm(t.left) == f'{v.id}.__class__' and norm(t.comparators[0]) == 'np.ndarray':
                                    return (isinstance(t.ops[0], (ast.IsNot, ast.NotEq)) and pol) or (isinstance(t.ops[0], (ast.Is, ast.Eq)) and not pol)
                                if isinstance(t, ast.Call) and call_name(t) == 'isinstance' and len(t.args) == 2 and norm(t.args[0]) == v.id and norm(t.args[1]) == 'np.ndarray':
                                    return not pol
                                return False
                            if any(not_array(i.test, pol) for i, pol in _enclosing_tests_of(f.node, r)):
                                ctx.ok(R, f, r, f'`{v.id}` is returned where it was tested not to be an array', key=key)
                                continue
                            last_def = max(a.lineno for a in defs_v)
                            frz = [s for s in walk_local(f.node) if isinstance(s, ast.Assign) and norm(s.targets[0]) == f'{v.id}.flags.writeable' and isinstance(s.value, ast.Constant)
                                   and s.value.value is False and last_def <= s.lineno < r.lineno]
                            # a freeze inside a branch that does not enclose the return only counts when it tests that the value is an array
                            ok = False
                            for s in frz:
                                encl = [i for i, _p in _enclosing_tests_of(f.node, s)]
                                encl_r = [i for i, _p in _enclosing_tests_of(f.node, r)]
                                extra = [i for i in encl if i not in encl_r]
                                if not extra or all('ndarray' in norm(i.test) or '.ndim' in norm(i.test) for i in extra):
                                    ok = True
                            if ok:
                                ctx.ok(R, f, r, f'`{v.id}` is frozen before it is returned', key=key)
                            else:
                                ctx.bad(R, f, r, f'`{v.id}` ({next(w for w in whys if w)}) is returned without `{v.id}.flags.writeable = False` on this path', key=key)
    ctx.require(n >= 6, 'fresh arrays returned by public methods')


def _enclosing_tests_of(root: ast.AST, target: ast.AST) -> tp.List[tp.Tuple[ast.If, bool]]:
    out: tp.List[tp.Tuple[ast.If, bool]] = []

    def rec(node: ast.AST) -> bool:
        if node is target:
            return True
        if isinstance(node, ast.If):
            for s in node.body:
                if rec(s):
                    out.insert(0, (node, True))
                    return True
            for s in node.orelse:
                if rec(s):
                    out.insert(0, (node, False))
                    return True
            return False
        for ch in ast.iter_child_nodes(node):
            if rec(ch):
                return True
        return False
    rec(root)
    return out
