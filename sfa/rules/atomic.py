'''Family D — ATOMIC: grow-only mutators update their state in lock-step and validate before mutating.'''
from __future__ import annotations

import ast
import typing as tp

from sfa import flow
from sfa.model import AnalysisError
from sfa.model import FuncInfo
from sfa.model import call_name
from sfa.model import kwarg
from sfa.model import norm
from sfa.model import walk_local
from sfa.report import Ctx

# mutator -> (receivers, components that must move together, optional components)
MUTATORS: tp.Dict[str, tp.Tuple[tp.Tuple[str, ...], tp.Tuple[str, ...], tp.Tuple[str, ...]]] = {
    'frame.FrameGO.__setitem__': (('self',), ('_columns', '_blocks'), ()),
    'frame.FrameGO.extend': (('self',), ('_columns', '_blocks'), ()),
    'index._IndexGOMixin.append': (('self',), ('_labels_mutable', '_positions_mutable_count', '_recache', '_labels_mutable_dtype'), ('_map',)),
    'index_datetime._IndexDatetimeGOMixin.append': (('self',), ('_labels_mutable', '_positions_mutable_count', '_recache'), ('_map',)),
    'index_hierarchy.IndexHierarchyGO.append': (('self',), ('_levels', '_recache'), ()),
    'index_hierarchy.IndexHierarchyGO.extend': (('self',), ('_levels', '_recache'), ()),
    'index_level.IndexLevelGO.extend': (('self',), ('index', 'targets', '_length'), ()),
    # '*': any local that denotes a tree node (the descent variable, whatever it is called)
    'index_level.IndexLevelGO.append': (('self', '*'), ('index', '_length'), ('targets', 'offset')),
    'type_blocks.TypeBlocks.append': (('self',), ('_shape', '_index', '_dtypes', '_blocks'), ('_row_dtype',)),
    'array_go.ArrayGO.append': (('self',), ('_array_mutable', '_recache'), ()),
    'array_go.ArrayGO.extend': (('self',), ('_array_mutable', '_recache'), ()),
}
# lock-step obligations that are implications rather than all-or-nothing: mutator -> [(trigger components, required)]
IMPLICATIONS = {
    # each append touches one edge node per depth; whichever node grows, every edge node's cached length is reset
    'index_level.IndexLevelGO.append': [(('index', 'targets'), ('_length',))],
}
# in these mutators the named members are plain Python lists: their append cannot raise
PLAIN_LIST_OWNERS = ('type_blocks.', 'array_go.', 'index._IndexGOMixin', 'index_datetime.')

# mutators that are per-item loops over another mutator of the same object
LOOP_MUTATORS = ('frame.FrameGO.extend_items', 'index._IndexGOMixin.extend', 'type_blocks.TypeBlocks.extend')
# callee mutators that can fail with an explicit raise -> how a caller may pre-validate
FALLIBLE = {
    '_columns.append': 'membership',   # IndexGO.append: duplicate label
    '_columns.extend': 'membership',
    'index.append': 'membership',
    'index.extend': 'membership',
    '_blocks.append': 'rowcount',      # TypeBlocks.append: mis-sized block
    '_blocks.extend': 'rowcount',
    '_levels.append': 'callee',        # IndexLevelGO.append validates itself before mutating
    '_levels.extend': 'callee',
    'targets.append': None, 'targets.extend': None,              # ArrayGO: infallible
    '_labels_mutable.append': None, '_array_mutable.append': None, '_array_mutable.extend': None,
    '_index.append': None, '_dtypes.append': None,               # plain lists
    '_map.add': 'membership',
}


# constructors that raise on invalid input (ErrorInitIndexNonUnique / ValueError on duplicate labels)
VALIDATING_CONSTRUCTORS = ('AutoMap', 'FrozenAutoMap')


class _Mut(flow.Client):
    '''Path-wise ("worlds") sets of mutated components + events.  State: frozenset of frozensets.'''
    for_at_least_once = True

    def __init__(self, f: FuncInfo, receivers: tp.Sequence[str], comps: tp.Sequence[str]):
        self.f = f
        self.receivers = set(receivers)
        self.comps = set(comps)
        self.raises_after: tp.List[tp.Tuple[ast.AST, tp.FrozenSet[str]]] = []
        self.mut_sites: tp.Dict[int, tp.Tuple[ast.AST, str, tp.FrozenSet[str], str]] = {}  # first visit only
        self._handlers_single: tp.Set[int] = set()
        self._narrowing: tp.Set[int] = set()
        # locals that only ever name one component of the receiver: `x = self._c`, `(x := self._c)`, `x = self._c = []`
        adefs: tp.Dict[str, tp.List[tp.Optional[str]]] = {}

        def comp_of(e: ast.AST) -> tp.Optional[str]:
            if isinstance(e, ast.Attribute) and isinstance(e.value, ast.Name) and e.value.id in self.receivers:
                return e.attr
            return None
        for n in walk_local(f.node):
            if isinstance(n, ast.Assign):
                cs = [comp_of(t) for t in n.targets if comp_of(t) is not None] or [comp_of(n.value)]
                for t in n.targets:
                    for x in ast.walk(t):
                        if isinstance(x, ast.Name) and isinstance(x.ctx, ast.Store):
                            adefs.setdefault(x.id, []).append(cs[0] if x is t else None)
            elif isinstance(n, ast.NamedExpr):
                adefs.setdefault(n.target.id, []).append(comp_of(n.value))
            elif isinstance(n, (ast.For, ast.AugAssign, ast.AnnAssign, ast.comprehension)) or isinstance(n, ast.withitem):
                tgt = getattr(n, 'target', None) or getattr(n, 'optional_vars', None)
                if tgt is not None:
                    for x in ast.walk(tgt):
                        if isinstance(x, ast.Name):
                            adefs.setdefault(x.id, []).append(None)
        self.aliases = {nm: vs[0] for nm, vs in adefs.items() if vs and vs[0] is not None and all(v == vs[0] for v in vs) and nm not in f.params}
        for n in ast.walk(f.node):
            # `if self.x is None: raise ...` — the if-form of `assert self.x is not None` (Optional narrowing)
            if isinstance(n, ast.If) and isinstance(n.test, ast.Compare) and len(n.test.ops) == 1 \
                    and isinstance(n.test.ops[0], ast.Is) and isinstance(n.test.comparators[0], ast.Constant) \
                    and n.test.comparators[0].value is None and isinstance(n.test.left, ast.Attribute) \
                    and isinstance(n.test.left.value, ast.Name) and n.test.left.value.id == 'self' \
                    and len(n.body) == 1 and isinstance(n.body[0], ast.Raise):
                self._narrowing.add(id(n.body[0]))
            if isinstance(n, ast.Try) and len(n.body) == 1:
                for h in n.handlers:
                    for x in ast.walk(h):
                        if isinstance(x, ast.Raise):
                            self._handlers_single.add(id(x))

    def join(self, a, b):
        u = a | b
        if len(u) > 256:
            allc = frozenset().union(*u)
            return frozenset([frozenset(), allc])
        return u

    @staticmethod
    def may(st) -> tp.FrozenSet[str]:
        return frozenset().union(*st) if st else frozenset()

    def _mutate(self, st, comp: str, node: ast.AST, how: str):
        if id(node) not in self.mut_sites:
            self.mut_sites[id(node)] = (node, comp, self.may(st), how)
        if comp in self.comps or comp == '*':
            add = frozenset(self.comps if comp == '*' else {comp})
            return frozenset(w | add for w in st)
        return st

    def on_stmt(self, s, st):
        if isinstance(s, (ast.Assign, ast.AugAssign, ast.AnnAssign)):
            targets = s.targets if isinstance(s, ast.Assign) else [s.target]
            for t in targets:
                for el in (t.elts if isinstance(t, (ast.Tuple, ast.List)) else [t]):
                    if isinstance(el, ast.Attribute) and isinstance(el.value, ast.Name) and (el.value.id in self.receivers or '*' in self.receivers):
                        st = self._mutate(st, el.attr, s, 'assign')
        return st

    def on_expr(self, node, st):
        # a constructor that validates its input (the label map rejects duplicates: 1.0 == 1 collides with an existing position) is a raise point
        if isinstance(node, ast.Call) and call_name(node) in VALIDATING_CONSTRUCTORS:
            m = self.may(st)
            if m:
                self.raises_after.append((node, m))
        if isinstance(node, ast.Call) and isinstance(node.func, ast.Attribute):
            fn = node.func
            m = fn.attr
            if m in ('append', 'extend', 'add', 'insert', 'update', '__setitem__'):
                recv = fn.value
                if isinstance(recv, ast.Attribute) and isinstance(recv.value, ast.Name) and (recv.value.id in self.receivers or '*' in self.receivers):
                    st = self._mutate(st, recv.attr, node, f'{recv.attr}.{m}')
                elif isinstance(recv, ast.Name) and recv.id in self.receivers and recv.id == 'self':
                    st = self._mutate(st, '*', node, f'self.{m}')
                elif isinstance(recv, ast.Name) and recv.id in self.aliases:
                    st = self._mutate(st, self.aliases[recv.id], node, f'{self.aliases[recv.id]}.{m}')
        return st

    def on_raise(self, s, st):
        if isinstance(s, ast.Assert):
            return      # internal consistency / type-narrowing asserts are not rejections of a caller's input
        if id(s) in self._narrowing:
            return      # Optional-narrowing guard on the object's own slot, not a rejection of the caller's input
        if id(s) in self._handlers_single:
            return      # re-raise of the failure of the single guarded mutation itself: nothing was mutated
        m = self.may(st)
        if m:
            self.raises_after.append((s, m))


def _membership_precheck(f: FuncInfo, call: ast.Call, recv_txt: str) -> bool:
    '''Before `call`, the function raises under a test containing `<x> in <recv>` (directly, inside any(...),
    or inside a loop over the labels) — the duplicate check that makes the later append/extend infallible.'''
    from sfa.rules.blockrules import _enclosing_ifs
    call_chain = [(id(i), pol) for i, pol in _enclosing_ifs(f.node, call)]
    for n in walk_local(f.node):
        if getattr(n, 'lineno', 10**9) >= call.lineno:
            continue
        if isinstance(n, ast.If):
            has_raise = any(isinstance(x, ast.Raise) for b in n.body for x in ast.walk(b))
            if not has_raise:
                continue
            # the check must be on the way to the call: every branch it sits in also encloses the call (a check in the sibling arm of an
            # if / elif does not guard this arm)
            chain = [(id(i), pol) for i, pol in _enclosing_ifs(f.node, n)]
            if chain != call_chain[:len(chain)]:
                continue
            for c in ast.walk(n.test):
                if isinstance(c, ast.Compare) and any(isinstance(o, ast.In) for o in c.ops) \
                        and any(norm(x) == recv_txt for x in c.comparators):
                    return True
                if isinstance(c, ast.Call) and norm(c.func) == f'{recv_txt}.__contains__':
                    return True
    return False


def _rowcount_validated(f: FuncInfo, call: ast.Call) -> tp.Tuple[bool, str]:
    '''The array handed to TypeBlocks.append was, on every path, either produced by .reindex(self.index | self._index, ...)
    (same length by construction) or checked against the row count with a raising guard.'''
    if not call.args:
        return False, 'no argument'
    arg = call.args[0]

    class V(flow.Client):
        def __init__(self):
            self.at: tp.Optional[tp.FrozenSet[str]] = None

        def join(self, a, b):
            return a & b

        def on_stmt(self, s, st):
            if isinstance(s, ast.Assign):
                names = [t.id for t in s.targets if isinstance(t, ast.Name)]
                names += [e.id for t in s.targets if isinstance(t, (ast.Tuple, ast.List)) for e in t.elts if isinstance(e, ast.Name)]
                v = norm(s.value)
                reidx = any(isinstance(c, ast.Call) and isinstance(c.func, ast.Attribute) and c.func.attr == 'reindex'
                            and norm(c.args[0] if c.args else kwarg(c, 'index')) in ('self.index', 'self._index') for c in ast.walk(s.value))
                for nme in names:
                    st = st - {nme}
                    if reidx:
                        st = st | {nme}
                    elif isinstance(s.value, ast.Name) and s.value.id in st:
                        st = st | {nme}
                    elif isinstance(s.value, ast.Call) and norm(s.value.func) == 'np.full' and s.value.args \
                            and norm(s.value.args[0]) == 'row_count':
                        st = st | {nme}
            return st

        def refine(self, atom, st, truth):
            # self._index.equals(x._index) true => x has this frame's rows
            if isinstance(atom, ast.Call) and norm(atom.func) in ('self._index.equals', 'self.index.equals') and atom.args and truth:
                a0 = atom.args[0]
                if isinstance(a0, ast.Attribute) and isinstance(a0.value, ast.Name):
                    st = st | {a0.value.id}
            # `len(x) != row_count` false branch / `len(x) == row_count` true branch  => x validated
            for c in ast.walk(atom):
                if isinstance(c, ast.Compare) and len(c.ops) == 1 and 'row_count' in norm(c):
                    eq = isinstance(c.ops[0], ast.Eq)
                    ne = isinstance(c.ops[0], ast.NotEq)
                    ok = (ne and not truth) or (eq and truth)
                    if ok:
                        for x in ast.walk(c):
                            if isinstance(x, ast.Call) and call_name(x) == 'len' and x.args and isinstance(x.args[0], ast.Name):
                                st = st | {x.args[0].id}
            return st

        def on_expr(self, node, st):
            if node is call:
                self.at = st if self.at is None else (self.at & st)
            return st
    # boolean structure: `a or b` false => both false; handled by flow.cond decomposition
    v = V()
    flow.Engine(v).run(f.body, frozenset())
    if v.at is None:
        return False, 'call not reached'
    txt = norm(arg)
    if isinstance(arg, ast.Name):
        return arg.id in v.at, f'validated names at the call: {sorted(v.at)}'
    if '.reindex(' in txt or txt.endswith('.values') and isinstance(arg, ast.Attribute) and isinstance(arg.value, ast.Name) and arg.value.id in v.at:
        return True, 'reindexed container'
    if isinstance(arg, ast.Attribute) and isinstance(arg.value, ast.Name):
        return arg.value.id in v.at, f'validated names at the call: {sorted(v.at)}'
    return False, f'unrecognised argument {txt}'


def d_atomic(ctx: Ctx, only: tp.Optional[tp.Sequence[str]] = None) -> None:
    D1 = 'D1.lock-step'
    D2 = 'D2.validate-before-mutate'
    ctx.rule(D1, 'in every grow-only mutator the state components that must move together are all updated on every '
             'path from the first mutation to a normal exit (counting loops over a positive count run at least once)', floor=10 if only is None else (5 if len(only) > 1 else 1))
    ctx.rule(D2, 'after the first mutation of a grow-only mutator nothing can raise explicitly: no raise/assert statement, no construction of a label map (AutoMap rejects duplicates), '
             'no per-item loop over a fallible mutator, and every fallible second mutation is pre-validated '
             '(duplicate check before the first mutation, row count established for the block)', floor=14 if only is None else (6 if len(only) > 1 else 2))
    prog = ctx.prog
    for qual, (receivers, comps, optional) in MUTATORS.items():
        if only is not None and not qual.startswith(tuple(only)):
            continue
        f = prog.func(qual)
        c = _Mut(f, receivers, tuple(comps) + tuple(optional))
        ex = flow.Engine(c).run(f.body, frozenset([frozenset()]))
        exits = [s for _n, s in ex.returns] + ([ex.fall] if ex.fall is not None else [])
        worlds = frozenset().union(*exits) if exits else frozenset()
        required = set(comps)
        impl = IMPLICATIONS.get(qual, [(tuple(comps) + tuple(optional), tuple(comps))])
        bad_worlds = []
        for w in worlds:
            for trig, req in impl:
                if w & set(trig) and not set(req) <= w:
                    bad_worlds.append((sorted(w), sorted(set(req) - w)))
        key = f'lockstep:{qual.split(".", 1)[1]}'
        if not any(w for w in worlds):
            ctx.bad(D1, f, f.node, f'no exit of {f.name} mutates any of {sorted(required)}: the component table no longer matches the code', key=key)
        elif bad_worlds:
            ctx.bad(D1, f, f.node, f'a normal exit of {f.name} is reachable where {bad_worlds[0][0]} were updated but {bad_worlds[0][1]} were not: '
                    'the parts of the container drift apart', key=key)
        else:
            ctx.ok(D1, f, f.node, f'{sorted(set(x for _t, r in impl for x in r))} move together on every mutating path ({len(worlds)} path classes)', key=key)
        # D2 (i) explicit raise after the first mutation
        if c.raises_after:
            for node, may in c.raises_after[:3]:
                ctx.bad(D2, f, node, f'`{norm(node)[:70]}` can execute after {sorted(may)} were already mutated: a failing call '
                        'leaves the container partially grown', key=f'raise-after:{norm(node)[:80]}')
        else:
            ctx.ok(D2, f, f.node, 'no raise / assert is reachable after the first mutation', key=f'raise-after:{f.name}')
        # D2 (iii) fallible mutations that are not the first one
        seen_first = False
        for node, comp, may_before, how in c.mut_sites.values():
            if how in ('assign',) or '.' not in how:
                if how == 'assign' and (comp in c.comps):
                    seen_first = seen_first or True
                continue
            kind = FALLIBLE.get(how, 'unknown' if comp in c.comps else None)
            if qual.startswith(PLAIN_LIST_OWNERS) and how != '_map.add':
                kind = None
            if kind is None:
                continue
            recv_txt = norm(node.func.value)
            key2 = f'fallible:{how}'
            first = not may_before
            if kind == 'membership':
                pre = _membership_precheck(f, node, recv_txt)
                atomic_callee = how.endswith('.append') or how.endswith('.add')
                if first and atomic_callee:
                    ctx.ok(D2, f, node, f'{how} is the first mutation; if it fails nothing has changed', key=key2)
                elif pre:
                    ctx.ok(D2, f, node, f'{how}: duplicates are rejected before anything is mutated', key=key2)
                elif not atomic_callee:
                    ctx.bad(D2, f, node, f'{recv_txt}.{node.func.attr}(...) appends item by item and can fail midway (duplicate label) with no '
                            'duplicate check beforehand: a rejected call leaves some labels appended' +
                            ('' if first else ' after other components were already changed'), key=key2)
                else:
                    ctx.bad(D2, f, node, f'{how} can raise (duplicate) after {sorted(may_before)} were mutated and is not pre-validated', key=key2)
            elif kind == 'rowcount':
                if first:
                    ctx.ok(D2, f, node, f'{how} is the first mutation', key=key2)
                else:
                    good, why = _rowcount_validated(f, node)
                    if how.endswith('.extend'):
                        # extending by another frame's TypeBlocks: rows were aligned by reindex / index equality
                        good = good or 'reindex' in ''.join(f.module.lines[f.node.lineno - 1:node.lineno])
                        why = why + '; container aligned by reindex/equals before'
                    (ctx.ok if good else ctx.bad)(D2, f, node, (f'{how}: the block length is established before the first mutation ({why})' if good else
                                                  f'{how} can raise (mis-sized block) after {sorted(may_before)} were mutated; the value is not validated on every path ({why})'), key=key2)
            elif kind == 'callee':
                ctx.ok(D2, f, node, f'{how}: the callee validates before it mutates (checked at the callee)', key=key2)
            else:
                ctx.unk(D2, f, node, f'{how}: fallibility unknown', key=key2)

    for qual in LOOP_MUTATORS:
        if only is not None and not qual.startswith(tuple(only)):
            continue
        f = prog.func(qual)
        loops = [n for n in walk_local(f.node) if isinstance(n, (ast.For, ast.While))]
        found = False
        for lp in loops:
            calls = [x for b in lp.body for x in ast.walk(b) if isinstance(x, ast.Call) and isinstance(x.func, ast.Attribute)
                     and isinstance(x.func.value, ast.Name) and x.func.value.id == 'self'
                     and x.func.attr in ('append', '__setitem__', 'extend')]
            for call in calls:
                found = True
                # pre-validation: an earlier statement that raises under a membership / size test over the same iterable
                pre = any(isinstance(n, ast.If) and n.lineno < lp.lineno and any(isinstance(x, ast.Raise) for b in n.body for x in ast.walk(b))
                          and norm(lp.iter) in norm(n.test) for n in walk_local(f.node))
                key = f'loop:{f.name}:self.{call.func.attr}'
                if pre:
                    ctx.ok(D2, f, lp, 'items are validated as a whole before the per-item loop', key=key)
                else:
                    ctx.bad(D2, f, lp, f'{f.name} calls self.{call.func.attr} once per item: when item k is rejected, items 0..k-1 stay appended '
                            '(a failing growth call does not leave the container as it was)', key=key)
        if not found:
            ctx.unk(D2, f, f.node, 'no per-item loop found', key=f'loop:{f.name}')
