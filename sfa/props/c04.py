'''C04 Selection returns exactly the addressed rows/columns with their labels.'''
from sfa.report import Ctx
from sfa.rules import own
from sfa.rules import indexrules
from sfa.rules import recache
from sfa.rules import forwardrules
from sfa.rules import selectrules

LEVEL_TEXT = (
    'Static decision of structural clauses of C04: (a) every extraction / duplicate-drop / dropna site selects values and labels with '
    'the same key on each axis (label/value co-indexing by copy propagation), reductions to Series take the surviving axis\' labels '
    'and the reduced label as name; (b) label slices include their stop: in LocMap.map_slice_args, projected on the stop field, every '
    'yielded position has + 1 applied on every branch, slice_to_inclusive_slice adds one, the no-map fast paths route slices through it; '
    '(c) an absent label raises: direct map subscripts outside the partial branches, the tolerant .get only inside map_slice_args '
    'where None raises, partial_selection=True only from IndexLevel.loc_to_iloc (who-may-call); (d) every loc route translates its '
    'key with the axis\' own _loc_to_iloc and delegates to the iloc route, row key to index and column key to columns; (e) the bloc '
    'coordinate writer and reader agree on (row, t_start [+ col]) and advance the block offset on every path. Option forwarding: in every selection route each call to a resolved callee that accepts a parameter named like one of the function\'s own parameters passes it on (confirmed exceptions listed in sfa/rules/forwardrules.py). Label selection on a grown index: every read of Index._labels / _positions in the selection routes is dominated by the staleness guard (B.recache). Sibling defaults: a parameter taken by the same-named method of several container classes has the same default in each (confirmed exceptions listed in sfa/rules/forwardrules.py). Offset accumulation: the HLoc worklist walk of IndexLevel.loc_to_iloc hands the accumulated offset (popped offset + the node\'s own) to every child it pushes and to the leaf lookup. Open slice ends: under an offset (a sub-level of a hierarchy) every bound of the iloc slice LocMap.loc_to_iloc returns is explicit, so a half-open label slice at an inner depth stays inside its sub-level. Selection results own their labels: no selection route hands a grow-only member of its source (own_columns / own_index / own_data possibly True on a shared IndexGO / TypeBlocks) to the container it returns; otherwise later growth of either makes a label of the other select another label\'s data (C.own-handoff). Map-less route: every arm of Index._loc_to_iloc for an auto-integer index rejects negative integers before returning the key as a position (a negative label is absent, not a position from the end). Direction of the inclusive stop: every + 1 applied to a label-slice stop position is under a test of the sign of the step (four known findings: descending label slices stop early; the repair is blocked by a pinned test). Slice bounds under an offset: every start / stop position LocMap.map_slice_args yields has had the offset added on every path (exact, same-unit and coarser-unit datetime bounds). Auto-integer inner levels: the map-less route of Index._loc_to_iloc with an offset raises for keys outside 0..n-1 (element, list, array), honours partial_selection and gives slices explicit bounds, like the mapped route. Not decided: NumPy '
    'indexing semantics, negative / out-of-range slice arithmetic, Boolean-Series alignment values, datetime period matching.')

CLAIM = dict(
    text=LEVEL_TEXT,
    technique='label/value co-indexing (PAIR, reaching definitions) + path projection on a named atom + who-may-call + sibling agreement',
    design_ref='DESIGN.md section 2.E and section 3 C04',
)


def run(ctx: Ctx) -> None:
    selectrules.extraction_pairs(ctx)
    selectrules.loc_delegates(ctx)
    selectrules.inclusive_stop(ctx)
    selectrules.absent_label_raises(ctx)
    selectrules.bloc_coordinates(ctx)
    forwardrules.forwarding(ctx, modules=None, prefixes=('_extract', 'loc_to_iloc', '_loc_to_iloc', '__getitem__', '_drop', 'iloc', 'loc'), suffix='select', floor=90, what='selection route')
    recache.check(ctx, 'Index', floor_reads=36)
    forwardrules.sibling_defaults(ctx, prefixes=('_extract', 'loc_to_iloc', '_loc_to_iloc', '__getitem__', '_drop', 'iloc', 'loc'), suffix='select', floor=12)
    indexrules.offset_accumulation(ctx)
    indexrules.offset_open_slice_bounded(ctx)
    own.c_handoffs(ctx)
    selectrules.nomap_rejects_negative(ctx)
    selectrules.inclusive_stop_direction(ctx)
    selectrules.slice_bounds_offset(ctx)
    selectrules.nomap_offset_membership(ctx)
