'''Same-name parameter forwarding (inferred as a near-unanimous convention of the code base, then frozen): when a function calls a
resolved callee that accepts a parameter of the same name as one of the function's own parameters, it passes its own parameter on.
1288 such call sites exist in core and 14 do not forward; each of the 14 was read and is listed with its reason.  For the import /
export entry points an option that is not forwarded is an option silently ignored on that path.'''
from __future__ import annotations

import ast
import typing as tp

from sfa.model import AnalysisError
from sfa.model import FuncInfo
from sfa.model import Resolver
from sfa.model import call_name
from sfa.model import norm
from sfa.model import walk_local
from sfa.report import Ctx

# (function, callee, parameter) -> reason.  Confirmed by reading; anything else that does not forward is reported.
EXCEPTIONS: tp.Dict[tp.Tuple[str, str, str], str] = {
    ('frame.Frame.from_element_items', 'cls.from_records', 'index_constructor'): 'the index is built by this function and handed over as index=; constructors are applied here',
    ('frame.Frame.from_element_items', 'cls.from_records', 'columns_constructor'): 'columns built here and handed over as columns=',
    ('frame.Frame.from_element_items', 'cls.from_fields', 'index_constructor'): 'the index is built by this function and handed over as index=',
    ('frame.Frame.from_element_items', 'cls.from_fields', 'columns_constructor'): 'columns built here and handed over as columns=',
    ('frame.Frame.from_element_items', 'cls.from_fields', 'fill_value'): 'missing cells were already filled with fill_value when the item arrays were built',
    ('frame.Frame.pivot_unstack', 'self.from_items', 'fill_value'): 'fill_value was applied when the per-column arrays were allocated (np.full)',
    ('index_hierarchy.IndexHierarchy.from_labels', 'Frame.from_records', 'name'): 'intermediate Frame used only for its blocks; the name is given to the hierarchy',
    ('series.Series.from_overlay', 'Index', 'name'): 'the name belongs to the Series result, not to its index',
    ('frame.Frame.display', 'Display', 'config'): 'Display receives the resolved `config or DisplayActive.get()` under the same keyword',
    ('frame.Frame._axis_group_sort_items', 'self.sort_values', 'key'): 'sort_values receives the group key as its label argument; its own `key` is a key function',
    ('frame.Frame.clip', 'self._blocks.clip', 'upper'): 'passed positionally after normalisation into args[1]',
    ('index.Index._loc_to_iloc', 'slice_to_inclusive_slice', 'offset'): 'the no-map path has offset None by construction (checked above the call)',
    ('interface._get_signatures', '_get_parameters', 'is_getitem'): 'documentation helper',
    ('frame.Frame.from_sql', 'IndexHierarchy._from_type_blocks', 'name'): 'the name is the Frame\'s, not the name of the index built for it',
    ('display.DisplayActive.update', 'cls.get', '**kwargs'): 'kwargs are applied on top of the fetched config',
}

IO_PREFIXES = ('from_', 'to_', 'read', 'write', '_build_frame', '_payload')
IO_MODULES = ('frame', 'series', 'store', 'store_zip', 'store_sqlite', 'store_hdf5', 'store_xlsx', 'store_client_mixin', 'bus', 'batch', 'quilt', 'container_util', 'util')


def forwarding(ctx: Ctx, modules: tp.Optional[tp.Sequence[str]] = IO_MODULES, prefixes: tp.Sequence[str] = IO_PREFIXES, suffix: str = 'io', floor: int = 150,
               what: str = 'import / export / store entry point') -> None:
    R = f'I.same-name-forwarding[{suffix}]'
    ctx.rule(R, f'in every {what} (functions named {"/".join(prefixes[:6])}...), each call to a resolved callee that accepts a parameter with the name of one of the '
             'function\'s own parameters passes that parameter on (by that keyword, by position, or inside **kwargs); the confirmed exceptions are '
             'listed one by one with their reason — an option that is not forwarded is silently ignored on that path', floor=floor)
    prog = ctx.prog
    res = Resolver(prog)
    n = 0
    for f in prog.top_funcs():
        if (modules is not None and f.module.short not in modules) or not f.name.startswith(tuple(prefixes)):
            continue
        own = [p for p in (f.params[1:] if f.cls is not None and f.params and f.params[0] in ('self', 'cls') else f.params)]
        if not own:
            continue
        scopes = [f] + list(_nested(f))
        for g in scopes:
            for c in walk_local(g.node):
                if not isinstance(c, ast.Call):
                    continue
                try:
                    q, targets = res.resolve_call(g, c)
                except Exception:
                    continue
                if q not in ('exact', 'cha') or not targets:
                    continue
                for prm in own:
                    if not all(prm in t.params for t in targets):
                        continue
                    n += 1
                    passed = any(k.arg == prm or k.arg is None for k in c.keywords)
                    t0 = targets[0]
                    ps = t0.params[1:] if t0.cls is not None and t0.params and t0.params[0] in ('self', 'cls') else t0.params
                    if prm in ps and ps.index(prm) < len(c.args):
                        passed = True
                    key = f'{f.qualname.split(".", 1)[1]}->{call_name(c)}:{prm}'
                    exc = EXCEPTIONS.get((f.qualname, call_name(c), prm))
                    if passed:
                        ctx.ok(R, g, c, f'{prm} is passed on to {call_name(c)}', key=key)
                    elif exc is not None:
                        ctx.ok(R, g, c, f'{prm} deliberately not passed to {call_name(c)}: {exc}', key=key)
                    else:
                        ctx.bad(R, g, c, f'`{call_name(c)}` accepts `{prm}` but {f.name} does not pass its own `{prm}` on: the callee falls back to its default and the '
                                'caller\'s option is silently ignored on this path', key=key)
    ctx.require(n >= floor, f'same-name forwarding sites in the {what}s')


def _nested(f: FuncInfo) -> tp.Iterator[FuncInfo]:
    for g in f.nested:
        if not isinstance(g.node, ast.Lambda):
            yield g
            yield from _nested(g)
