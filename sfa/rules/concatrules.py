'''C11 rules: concatenation and overlay keep every input cell once, aligned by label.'''
from __future__ import annotations

import ast
import copy
import typing as tp

from sfa.model import AnalysisError
from sfa.model import FuncInfo
from sfa.model import call_name
from sfa.model import kwarg
from sfa.model import norm
from sfa.model import walk_local
from sfa.report import Ctx


def _swap_axes(stmts: tp.Sequence[ast.stmt]) -> str:
    '''Mirror a statement list across the axes: index <-> columns (names, slots, own_* flags), Index <-> cls._COLUMNS_CONSTRUCTOR.'''
    import re
    names = {'index': 'columns', 'columns': 'index', 'own_index': 'own_columns', 'own_columns': 'own_index'}
    attrs = {'_index': '_columns', '_columns': '_index', 'index': 'columns', 'columns': 'index'}
    out = []
    for st in stmts:
        st = copy.deepcopy(st)
        for x in ast.walk(st):
            if isinstance(x, ast.Name) and x.id in names:
                x.id = names[x.id]
            elif isinstance(x, ast.Attribute) and x.attr in attrs:
                x.attr = attrs[x.attr]
            elif isinstance(x, ast.keyword) and x.arg in names:
                x.arg = names[x.arg]
            elif isinstance(x, ast.Raise) and isinstance(x.exc, ast.Call):
                x.exc.args = []
        t = norm(st)
        t = t.replace('cls._COLUMNS_CONSTRUCTOR', '\0')
        t = re.sub(r'\bIndex\b', 'cls._COLUMNS_CONSTRUCTOR', t)
        t = t.replace('\0', 'Index')
        out.append(t)
    return '\n'.join(out)


def frame_concat(ctx: Ctx) -> None:
    R = 'E.concat-sequence'
    ctx.rule(R, 'Frame.from_concat materialises its inputs once and draws both the concatenated labels and the blocks from that one '
             'unmodified sequence, in order; along the other axis every frame is reindexed to the one shared union/intersection index with '
             'the caller\'s fill_value before its blocks are emitted; duplicate labels after concatenation raise ErrorInitFrame; the two '
             'axes are handled as mirror images', floor=10)
    prog = ctx.prog
    f = prog.method('Frame', 'from_concat', inherited=False)
    # one materialisation, no later mutation
    defs = [a for a in walk_local(f.node) if isinstance(a, ast.Assign) and norm(a.targets[0]) == 'frames']
    good = len(defs) == 1 and isinstance(defs[0].value, ast.ListComp) and norm(defs[0].value.generators[0].iter) == 'frames'
    (ctx.ok if good else ctx.bad)(R, f, defs[0] if defs else f.node, 'inputs materialised once into a list, in input order' if good else
                                  'the input sequence is rebuilt / reordered more than once', key='materialise')
    muts = [c for c in ast.walk(f.node) if isinstance(c, ast.Call) and isinstance(c.func, ast.Attribute) and norm(c.func.value) == 'frames'
            and c.func.attr in ('sort', 'reverse', 'pop', 'remove', 'insert', 'append', 'extend', 'clear')]
    reorder = [c for c in ast.walk(f.node) if isinstance(c, ast.Call) and call_name(c) in ('sorted', 'reversed', 'set', 'frozenset') and c.args and norm(c.args[0]) == 'frames']
    (ctx.ok if not muts and not reorder else ctx.bad)(R, f, (muts + reorder)[0] if muts or reorder else f.node, 'the sequence is not mutated or reordered' if not muts and not reorder else
                                                      f'`{norm((muts + reorder)[0])[:50]}` changes the input order: labels and blocks no longer correspond', key='no-reorder')
    # labels and blocks iterate `frames`
    iters = []
    for n in ast.walk(f.node):
        if isinstance(n, ast.For):
            iters.append((norm(n.iter), n))
        elif isinstance(n, ast.comprehension):
            iters.append((norm(n.iter), n))
    wanted = {('concat-labels', 'index_many_concat'), ('set-labels', 'index_many_set')}
    for label, fn in wanted:
        calls = [c for c in ast.walk(f.node) if isinstance(c, ast.Call) and call_name(c) == fn]
        ctx.require(len(calls) == 2, f'from_concat calls {fn} once per axis')
        for c in calls:
            gen = c.args[0]
            good = isinstance(gen, ast.GeneratorExp) and norm(gen.generators[0].iter) == 'frames' and not gen.generators[0].ifs \
                and norm(gen.elt) in ('f._columns', 'f._index')
            (ctx.ok if good else ctx.bad)(R, f, c, f'{fn} over `{norm(gen)[:40]}`' if good else f'{fn} does not read the labels of every input frame in order: `{norm(gen)[:60]}`',
                                          key=f'{label}:{norm(gen.elt) if isinstance(gen, ast.GeneratorExp) else "?"}')
    block_fns = [nf for nf in f.nested if nf.name == 'blocks']
    ctx.require(len(block_fns) == 2, 'from_concat defines blocks() per axis')
    for nf in block_fns:
        loops = [n for n in walk_local(nf.node) if isinstance(n, ast.For) and norm(n.iter) == 'frames']
        axis_kw = 'index' if 'reindex(index=' in norm(nf.node) else 'columns'
        key = f'blocks[{axis_kw}]'
        if len(loops) != 1:
            ctx.bad(R, nf, nf.node, 'blocks() does not iterate the materialised frames exactly once', key=key)
            continue
        lp = loops[0]
        first = lp.body[0]
        want_test = f'len(frame.{axis_kw}) != len({axis_kw}) or (frame.{axis_kw} != {axis_kw}).any()'
        want_body = f'frame = frame.reindex({axis_kw}={axis_kw}, fill_value=fill_value)'
        good = isinstance(first, ast.If) and norm(first.test) == want_test and len(first.body) == 1 and norm(first.body[0]) == want_body and not first.orelse
        (ctx.ok if good else ctx.bad)(R, nf, first, f'each frame is aligned to the shared `{axis_kw}` with the caller\'s fill_value before its blocks are used' if good else
                                      f'alignment guard changed: `{norm(first)[:90]}` (expected `if {want_test}: {want_body}`)', key=key)
        # blocks taken from the (possibly reindexed) frame of this iteration
        uses = [norm(x) for x in ast.walk(lp) if isinstance(x, ast.Attribute) and x.attr == '_blocks' and isinstance(x.value, ast.Name)]
        good = bool(uses) and all(u == 'frame._blocks' or u == 'previous_frame._blocks' for u in uses)
        (ctx.ok if good else ctx.bad)(R, nf, lp, 'blocks come from the aligned frame of the same iteration' if good else f'blocks are read from {sorted(set(uses))}', key=key + ':source')
    # duplicate labels raise
    tries = [t for t in walk_local(f.node) if isinstance(t, ast.Try) and 'index_many_concat' in norm(t.body[0])]
    ctx.require(len(tries) == 2, 'from_concat guards both index_many_concat calls')
    for t in tries:
        h = t.handlers[0] if t.handlers else None
        good = h is not None and norm(h.type) == 'ErrorInitIndexNonUnique' and len(h.body) == 1 and isinstance(h.body[0], ast.Raise) and 'ErrorInitFrame' in norm(h.body[0].exc)
        (ctx.ok if good else ctx.bad)(R, f, t, 'non-unique concatenated labels raise ErrorInitFrame' if good else
                                      'non-unique labels after concatenation no longer raise: construction falls through', key=f'dup:{norm(t.body[0])[:30]}')
    # mirror: the label computations of the two axis branches
    branches = {}
    for n in walk_local(f.node):
        if isinstance(n, ast.If) and norm(n.test) in ('axis == 1', 'axis == 0'):
            branches[norm(n.test)] = [s for s in n.body if not isinstance(s, ast.FunctionDef)]
    if len(branches) == 2:
        a = '\n'.join(_strip_msgs(s) for s in branches['axis == 1'])
        b = '\n'.join(_strip_msgs(s) for s in branches['axis == 0'])
        good = _swap_axes(branches['axis == 1']) == b
        (ctx.ok if good else ctx.bad)(R, f, branches['axis == 0'][0], 'the axis-0 and axis-1 label computations are mirror images (index <-> columns)' if good else
                                      'the axis-0 and axis-1 branches are no longer mirror images of each other', key='mirror')
    # result constructor
    ret = [c for c in walk_local(f.node) if isinstance(c, ast.Call) and norm(c.func) == 'cls' and kwarg(c, 'own_data') is not None]
    good = bool(ret) and norm(kwarg(ret[0], 'index')) == 'index' and norm(kwarg(ret[0], 'columns')) == 'columns' and norm(ret[0].args[0]) == 'TypeBlocks.from_blocks(block_gen())'
    (ctx.ok if good else ctx.bad)(R, f, ret[0] if ret else f.node, 'result built from the aligned blocks with the computed index and columns', key='result')


def _strip_msgs(s: ast.stmt) -> str:
    s = copy.deepcopy(s)
    for x in ast.walk(s):
        if isinstance(x, ast.Raise) and isinstance(x.exc, ast.Call):
            x.exc.args = []
    return norm(s)


def items_and_series(ctx: Ctx) -> None:
    R = 'E.concat-items-pairing'
    ctx.rule(R, 'from_concat_items (Frame and Series) and Series.from_concat collect the values in the very pass that yields the labels '
             '(one append per yielded / recorded label, same iteration), join values with concat_resolved, and hand the frames and the '
             'built hierarchy to the concatenation together', floor=6)
    prog = ctx.prog
    f = prog.method('Frame', 'from_concat_items', inherited=False)
    gens = [nf for nf in f.nested if nf.name == 'gen']
    ctx.require(len(gens) == 1, 'Frame.from_concat_items defines gen()')
    g = gens[0]
    lp = [n for n in walk_local(g.node) if isinstance(n, ast.For)]
    body = norm(lp[0]) if lp else ''
    good = bool(lp) and norm(lp[0].iter) == 'items' and 'frames.append(frame)' in body and 'yield (label, frame._index)' in body and 'yield (label, frame._columns)' in body
    app_before = bool(lp) and [i for i, s in enumerate(lp[0].body) if norm(s) == 'frames.append(frame)'] < [i for i, s in enumerate(lp[0].body) if isinstance(s, ast.If) and 'yield' in norm(s)]
    (ctx.ok if good and app_before else ctx.bad)(R, g, g.node, 'each item appends its frame and yields (label, that frame\'s axis index) in one pass' if good and app_before else
                                                 'frames and (label, index) pairs are not produced in the same pass / same order', key='Frame.from_concat_items:gen')
    call = [c for c in walk_local(f.node) if isinstance(c, ast.Call) and call_name(c) == 'cls.from_concat']
    good = bool(call) and norm(call[0].args[0]) == 'frames' and all(norm(kwarg(call[0], k)) == k for k in ('axis', 'union', 'name', 'fill_value', 'consolidate_blocks')) \
        and any(k.arg is None and norm(k.value) == 'kwargs' for k in call[0].keywords)
    (ctx.ok if good else ctx.bad)(R, f, call[0] if call else f.node, 'from_concat receives the collected frames, every option unchanged, and the hierarchy as index/columns' if good else
                                  'from_concat_items does not forward the collected frames / options / hierarchy unchanged', key='Frame.from_concat_items:forward')
    axis_ok = 'kwargs = dict(index=ih)' in norm(f.node) and 'kwargs = dict(columns=ih)' in norm(f.node)
    (ctx.ok if axis_ok else ctx.bad)(R, f, f.node, 'the hierarchy labels the concatenated axis (index for axis 0, columns for axis 1)', key='Frame.from_concat_items:axis')
    s = prog.method('Series', 'from_concat_items', inherited=False)
    gens = [nf for nf in s.nested if nf.name == 'gen']
    body = norm(gens[0].node) if gens else ''
    good = 'array_values.append(series.values)' in body and 'yield (label, series._index)' in body and 'values = concat_resolved(array_values)' in norm(s.node)
    (ctx.ok if good else ctx.bad)(R, s, s.node, 'values and (label, index) pairs collected in one pass; values joined by concat_resolved' if good else
                                  'Series.from_concat_items pairs values and labels from different passes', key='Series.from_concat_items')
    c = prog.method('Series', 'from_concat', inherited=False)
    lp = [n for n in walk_local(c.node) if isinstance(n, ast.For) and norm(n.iter) == 'containers']
    body = norm(lp[0]) if lp else ''
    good = 'array_values.append(c.values)' in body and 'indices.append(c.index)' in body and 'values = concat_resolved(array_values)' in norm(c.node) \
        and 'index = index_many_concat(indices, cls_default=Index)' in norm(c.node)
    (ctx.ok if good else ctx.bad)(R, c, c.node, 'values and indices of each container are collected in the same iteration and joined in that order' if good else
                                  'Series.from_concat collects values and indices differently', key='Series.from_concat')
    ret = [x for x in walk_local(c.node) if isinstance(x, ast.Return) and isinstance(x.value, ast.Call) and norm(x.value.func) == 'cls' and norm(x.value.args[0]) == 'values']
    good = bool(ret) and norm(kwarg(ret[0].value, 'index')) == 'index'
    (ctx.ok if good else ctx.bad)(R, c, ret[0] if ret else c.node, 'result pairs the joined values with the joined index', key='Series.from_concat:result')
    v = prog.func('type_blocks.TypeBlocks.vstack_blocks_to_blocks')
    ys = [y for y in walk_local(v.node) if isinstance(y, ast.Yield)]
    good = len(ys) == 2 and all(norm(y.value) == 'concat_resolved(block_parts)' for y in ys)
    (ctx.ok if good else ctx.bad)(R, v, v.node, 'both vstack strategies join parts with concat_resolved' if good else 'vstack joins parts without the resolver', key='vstack:concat_resolved')
    parts_ok = 'for tb_proto_idx in range(len(tb_proto))' in norm(v.node) and '[tb._extract_array(column_key=i) for tb in type_blocks]' in norm(v.node)
    (ctx.ok if parts_ok else ctx.bad)(R, v, v.node, 'parts are taken from every TypeBlocks in sequence order', key='vstack:order')


def overlay(ctx: Ctx) -> None:
    R = 'I.overlay-first-non-missing'
    ctx.rule(R, 'from_overlay walks the containers in input order, aligns each to the one shared index (and columns), and changes the '
             'accumulated result only through fillna / fillna_by_values — missing cells are filled, present cells are never assigned', floor=6)
    prog = ctx.prog
    for cname, walker, filler in (('Frame', 'containers_iter', 'post._blocks.fillna_by_values(values)'), ('Series', 'container_iter', 'post.fillna(container)')):
        f = prog.method(cname, 'from_overlay', inherited=False)
        src = norm(f.node)
        it_def = f'{walker} = iter(containers)' in src
        first = f'next({walker})' in src
        loops = [n for n in walk_local(f.node) if isinstance(n, ast.For) and norm(n.iter) == walker]
        good = it_def and first and len(loops) == 1
        (ctx.ok if good else ctx.bad)(R, f, loops[0] if loops else f.node, 'first container, then the rest, in input order' if good else 'containers are not walked once in input order', key=f'{cname}:order')
        posts = [a for a in ast.walk(f.node) if isinstance(a, ast.Assign) and norm(a.targets[0]) == 'post']
        in_loop = [a for a in posts if loops and any(x is a for x in ast.walk(loops[0]))]
        good = bool(in_loop) and all(filler in norm(a.value) for a in in_loop)
        (ctx.ok if good else ctx.bad)(R, f, in_loop[0] if in_loop else f.node, f'the accumulated result changes only through `{filler}`' if good else
                                      f'inside the loop `post` is rebuilt as `{norm(in_loop[0].value)[:60] if in_loop else "?"}`: present cells can be overwritten', key=f'{cname}:fill-only')
        idx = [c for c in ast.walk(f.node) if isinstance(c, ast.Call) and call_name(c) == 'index_many_set']
        good = bool(idx) and all(norm(kwarg(c, 'union')) == 'union' for c in idx)
        (ctx.ok if good else ctx.bad)(R, f, idx[0] if idx else f.node, 'shared axis = union/intersection of all containers, per the caller\'s flag', key=f'{cname}:shared-index')
    f = prog.method('Frame', 'from_overlay', inherited=False)
    src = norm(f.node)
    good = 'array = col_series.reindex(index, fill_value=fill_value).values' in src and 'for col, dtype_at_col in post.dtypes.items()' in src and 'values.append(array)' in src
    (ctx.ok if good else ctx.bad)(R, f, f.node, 'fill arrays are built per column of the result, aligned to the shared index' if good else 'fill arrays are not aligned per result column', key='Frame:fill-arrays')
    brk = 'if not post.isna().any().any(): break' in src.replace('\n', ' ')
    (ctx.ok if brk else ctx.unk)(R, f, f.node, 'stops early only when nothing is missing any more', key='Frame:early-exit')
