'''C12 rules: sort-kind forwarding, lexsort key order, descending = reversal, whole-row permutation.'''
from __future__ import annotations

import ast
import typing as tp

from sfa.model import AnalysisError
from sfa.model import FuncInfo
from sfa.model import attr_chain
from sfa.model import call_name
from sfa.model import kwarg
from sfa.model import norm
from sfa.model import walk_local
from sfa import roles
from sfa.report import Ctx
from sfa.rules import pair

STABLE_CONSTS = ('DEFAULT_SORT_KIND', 'DEFAULT_STABLE_SORT_KIND')
SORT_ENTRY_POINTS = (
    ('Frame', 'sort_index'), ('Frame', 'sort_columns'), ('Frame', 'sort_values'),
    ('Series', 'sort_index'), ('Series', 'sort_values'),
    ('Index', 'sort'), ('IndexHierarchy', 'sort'),
    ('Bus', 'sort_index'), ('Bus', 'sort_values'),
    ('Batch', 'sort_index'), ('Batch', 'sort_columns'), ('Batch', 'sort_values'),
)


def kind_forwarding(ctx: Ctx) -> None:
    R = 'I.sort-kind-forwarding'
    ctx.rule(R, 'every np.argsort / np.sort / ndarray.sort in core is given kind= that is either the caller\'s own `kind` '
             'parameter or one of the stable constants (never the NumPy default quicksort, never a literal); every function '
             'with a `kind` parameter defaults it to the stable constant and passes it on, unmodified, to everything that takes it', floor=18)
    prog = ctx.prog
    # 1. sort primitives
    for f in prog.all_funcs():
        if isinstance(f.node, ast.Lambda):
            continue
        for c in walk_local(f.node):
            if not isinstance(c, ast.Call):
                continue
            ch = attr_chain(c.func)
            is_np = bool(ch) and ch[0] in ('np', 'numpy') and ch[-1] in ('argsort', 'sort')
            is_meth = isinstance(c.func, ast.Attribute) and c.func.attr == 'sort' and not is_np \
                and kwarg(c, 'kind') is not None
            is_meth_nokind = isinstance(c.func, ast.Attribute) and c.func.attr in ('argsort',) and not is_np
            if not (is_np or is_meth or is_meth_nokind):
                continue
            k = kwarg(c, 'kind')
            key = f'primitive:{f.name}:{norm(c)[:60]}'
            top = f
            while top.parent is not None:
                top = top.parent
            if k is None:
                ctx.bad(R, f, c, f'`{norm(c)[:70]}` sorts with NumPy\'s default kind (quicksort, not stable): ties lose their original order', key=key)
            elif isinstance(k, ast.Name) and k.id in STABLE_CONSTS:
                ctx.ok(R, f, c, f'kind={k.id}', key=key)
            elif isinstance(k, ast.Name) and k.id == 'kind' and 'kind' in top.params:
                ctx.ok(R, f, c, 'kind is the caller\'s own parameter', key=key)
            else:
                ctx.bad(R, f, c, f'kind={norm(k)} is neither the caller\'s `kind` parameter nor a stable constant', key=key)
    # 2. functions with a kind parameter
    n = 0
    for f in prog.top_funcs():
        if 'kind' not in f.params or f.qualname.startswith(('display', 'interface', 'store_filter')):
            continue
        ann = norm(f.param_annotation('kind'))
        if ann not in ('str', ''):
            continue
        d = f.param_default('kind')
        if not ('sort' in f.name or (isinstance(d, ast.Name) and 'SORT' in d.id) or
                (isinstance(d, ast.Constant) and d.value in ('quicksort', 'mergesort', 'heapsort', 'stable'))):
            continue    # `kind` of something else (a dtype kind)
        n += 1
        key = f'param:{f.qualname}'
        problems = []
        if d is not None and not (isinstance(d, ast.Name) and d.id in STABLE_CONSTS):
            problems.append(f'default is {norm(d)}')
        takers = [c for c in walk_local(f.node) if isinstance(c, ast.Call) and kwarg(c, 'kind') is not None]
        for nf in f.nested:
            takers += [c for c in ast.walk(nf.node) if isinstance(c, ast.Call) and kwarg(c, 'kind') is not None]
        for c in takers:
            k = kwarg(c, 'kind')
            if not (isinstance(k, ast.Name) and k.id == 'kind'):
                problems.append(f'`{norm(c.func)[:40]}` receives kind={norm(k)} instead of the parameter')
        if not takers:
            problems.append('the kind parameter is never passed on (the sort runs with some other kind)')
        # kind must not be reassigned
        if any(isinstance(s, ast.Assign) and any(isinstance(t, ast.Name) and t.id == 'kind' for t in s.targets) for s in walk_local(f.node)):
            problems.append('kind is reassigned inside the function')
        (ctx.bad if problems else ctx.ok)(R, f, f.node, '; '.join(problems) or f'kind defaults to {norm(d)} and reaches {len(takers)} consumer(s) unmodified', key=key)
    for cname, m in SORT_ENTRY_POINTS:
        f = prog.method(cname, m)
        if 'kind' not in f.params:
            ctx.bad(R, f, f.node, f'{cname}.{m} no longer exposes a kind parameter', key=f'entry:{cname}.{m}')


def lexsort_order(ctx: Ctx) -> None:
    R = 'I.lexsort-key-order'
    ctx.rule(R, 'at every np.lexsort site the key list is produced by a descending iteration (range(n-1, -1, -1), reversed(...), '
             '[::-1]) so that the last key — the primary one for lexsort — is depth / column 0', floor=5)
    prog = ctx.prog
    for f in prog.all_funcs():
        if isinstance(f.node, ast.Lambda):
            continue
        for c in walk_local(f.node):
            if not (isinstance(c, ast.Call) and call_name(c) == 'np.lexsort' and c.args):
                continue
            arg = c.args[0]
            exprs = [arg]
            if isinstance(arg, ast.Name):
                top = f
                while top.parent is not None:
                    top = top.parent
                exprs = [a.value for a in ast.walk(top.node) if isinstance(a, ast.Assign)
                         and any(isinstance(t, ast.Name) and t.id == arg.id for t in a.targets)
                         and not (isinstance(a.value, ast.Constant) and a.value.value is None)]
            key = f'lexsort:{f.name}:{norm(arg)[:30]}'
            if not exprs:
                ctx.unk(R, f, c, 'key list definition not found', key=key)
                continue
            verdicts = []
            for e in exprs:
                verdicts.append(_descending(e))
            if all(v is True for v in verdicts):
                ctx.ok(R, f, c, f'{len(exprs)} key-list definition(s), all iterate from the last depth/column down to 0', key=key)
            elif any(v is False for v in verdicts):
                bad = [norm(e)[:80] for e, v in zip(exprs, verdicts) if v is False]
                ctx.bad(R, f, c, f'key list `{bad[0]}` is built in ascending depth order: np.lexsort treats the LAST key as primary, '
                        'so rows are ordered by the innermost depth / last column first', key=key)
            else:
                ctx.unk(R, f, c, 'key list construction not recognised', key=key)


def _descending(e: ast.expr) -> tp.Optional[bool]:
    '''True: descending iteration; False: ascending; None: unknown.'''
    if isinstance(e, (ast.ListComp, ast.GeneratorExp)) and len(e.generators) == 1:
        it = e.generators[0].iter
        if isinstance(it, ast.Call) and call_name(it) == 'range':
            if len(it.args) == 3 and norm(it.args[2]) == '-1':
                return True
            return False
        if isinstance(it, ast.Call) and call_name(it) == 'reversed':
            return True
        if isinstance(it, ast.Subscript) and norm(it.slice) == '::-1':
            return True
        if isinstance(it, ast.Call) and call_name(it) == 'enumerate':
            return False
        return None
    if isinstance(e, ast.Call) and call_name(e) in ('list', 'tuple') and e.args:
        return _descending(e.args[0])
    if isinstance(e, ast.Subscript) and norm(e.slice) == '::-1':
        return True
    if isinstance(e, ast.Call) and call_name(e) == 'reversed':
        return True
    return None


def descending_is_reversal(ctx: Ctx) -> None:
    R = 'I.descending-is-reversal'
    ctx.rule(R, 'wherever an ordering permutation is computed from an `ascending` flag, the flag is consumed only by '
             '`if not ascending: order = order[::-1]` applied after the (stable, ascending) sort; public sort methods pass '
             'ascending through unmodified', floor=8)
    prog = ctx.prog
    for f in prog.top_funcs():
        if 'ascending' not in f.params:
            continue
        uses = [n for n in ast.walk(f.node) if isinstance(n, ast.Name) and n.id == 'ascending' and isinstance(n.ctx, ast.Load)]
        key = f'ascending:{f.qualname}'
        problems = []
        n_rev = 0
        n_fwd = 0
        for u in uses:
            ctxt = _context(f, u)
            if isinstance(ctxt, ast.If) and norm(ctxt.test) == 'not ascending':
                body = [norm(s) for s in ctxt.body if not isinstance(s, ast.Pass)]
                acts = [s for s in ctxt.body if not isinstance(s, ast.Pass)]
                if len(acts) == 1 and _is_reversal(acts[0]) and not ctxt.orelse:
                    n_rev += 1
                else:
                    problems.append(f'`if not ascending` does `{body[0][:50]}` rather than reversing the permutation')
            elif isinstance(ctxt, ast.keyword) and ctxt.arg == 'ascending':
                n_fwd += 1
            else:
                problems.append(f'ascending is used in `{norm(ctxt)[:60]}`')
        if not uses:
            problems.append('the ascending parameter is ignored')
        if n_rev:
            # the reversal must come after the sort call
            sorts = [c.lineno for c in ast.walk(f.node) if isinstance(c, ast.Call) and call_name(c) in ('np.argsort', 'np.lexsort')]
            revs = [n.lineno for n in ast.walk(f.node) if isinstance(n, ast.If) and norm(n.test) == 'not ascending']
            if sorts and revs and min(revs) < max(sorts):
                problems.append('the reversal precedes the sort')
        (ctx.bad if problems else ctx.ok)(R, f, f.node, '; '.join(problems) or f'{n_rev} reversal(s) after the sort, {n_fwd} pass-through(s)', key=key)


def _is_reversal(st: ast.stmt) -> bool:
    '''`p = p[::-1]` / `p = np.flip(p)` / `p = p[::-1].copy()` for one and the same local p.'''
    if not (isinstance(st, ast.Assign) and len(st.targets) == 1 and isinstance(st.targets[0], ast.Name)):
        return False
    p = st.targets[0].id
    v = st.value
    if isinstance(v, ast.Call) and isinstance(v.func, ast.Attribute) and v.func.attr == 'copy' and not v.args:
        v = v.func.value
    if isinstance(v, ast.Subscript) and isinstance(v.value, ast.Name) and v.value.id == p and norm(v.slice) == '::-1':
        return True
    return isinstance(v, ast.Call) and call_name(v) == 'np.flip' and len(v.args) == 1 and isinstance(v.args[0], ast.Name) and v.args[0].id == p


def _context(f: FuncInfo, target: ast.AST) -> ast.AST:
    '''Innermost If (when target is in its test) or keyword / statement holding target.'''
    best: tp.Optional[ast.AST] = None
    for n in ast.walk(f.node):
        if isinstance(n, ast.If) and any(x is target for x in ast.walk(n.test)):
            best = n
        elif isinstance(n, ast.keyword) and n.value is target:
            return n
    if best is not None:
        return best
    for n in ast.walk(f.node):
        if isinstance(n, ast.stmt) and not isinstance(n, (ast.FunctionDef, ast.ClassDef)) and any(x is target for x in ast.walk(n)):
            best = n
    return best if best is not None else target


def whole_rows(ctx: Ctx) -> None:
    R = 'E.pair[sort]'
    ctx.rule(R, 'every sort result is built by selecting labels and values with the same permutation variable; the other axis, '
             'and the name, are passed through untouched', floor=7)
    prog = ctx.prog
    for cname, m, kind in (('Series', 'sort_index', 'Series'), ('Series', 'sort_values', 'Series'),
                           ('Frame', 'sort_index', 'Frame'), ('Frame', 'sort_columns', 'Frame'), ('Frame', 'sort_values', 'Frame')):
        f = prog.method(cname, m, inherited=False)
        calls = pair.constructor_calls(f)
        ctx.require(len(calls) >= 1, f'{cname}.{m} constructs its result')
        for c in calls:
            pair.check_site(ctx, R, f, c, kind, expect_name=True)
    # Index.sort / IndexHierarchy.sort: the permutation from sort_index_for_order feeds the extraction directly
    for cname, consumer in (('Index', 'self._extract_iloc'), ('IndexHierarchy', 'self._blocks._extract')):
        f = prog.method(cname, 'sort', inherited=False)
        # the permutation may be named (order = sort_index_for_order(self, ...)) or written in place as the consumer's argument
        ocalls = [c for c in walk_local(f.node) if isinstance(c, ast.Call) and call_name(c) == 'sort_index_for_order']
        onames = {a.targets[0].id for a in walk_local(f.node) if isinstance(a, ast.Assign) and isinstance(a.targets[0], ast.Name) and any(a.value is c for c in ocalls)}
        used = [c for c in walk_local(f.node) if isinstance(c, ast.Call) and call_name(c) == consumer
                and any((isinstance(a, ast.Name) and a.id in onames) or any(a is oc for oc in ocalls) for a in list(c.args) + [k.value for k in c.keywords])]
        arg0_self = bool(ocalls) and ocalls[0].args and norm(ocalls[0].args[0]) == 'self'
        orders = ocalls
        good = bool(orders) and bool(used) and arg0_self
        (ctx.ok if good else ctx.bad)(R, f, f.node, f'order = sort_index_for_order(self, ...) feeds {consumer}' if good else
                                      f'{cname}.sort does not extract with the permutation computed from its own labels', key=f'{cname}.sort')


def order_from_keys(ctx: Ctx) -> None:
    R = 'I.order-from-sort-keys'
    ctx.rule(R, 'in every function that computes an ordering permutation, each definition of the permutation is a sort primitive '
             '(np.argsort / np.lexsort) applied to values data-dependent on the key container (the key function\'s result when one is '
             'given), or the reversal of the permutation itself: no path returns an order that ignores the sort keys', floor=3)
    prog = ctx.prog
    for qual in ('container_util.sort_index_for_order', 'series.Series.sort_values', 'frame.Frame.sort_values'):
        f = prog.func(qual)
        # roles: the key container is what the `key` parameter's call result is assigned to; the permutation is every local that
        # receives the result of a sort primitive
        keyed_names = roles.assigned_from_all(f.node, lambda v: isinstance(v, ast.Call) and isinstance(v.func, ast.Name) and v.func.id == 'key' and 'key' in f.params)
        perm = set(roles.assigned_from_all(f.node, lambda v: isinstance(v, ast.Call) and call_name(v) in ('np.argsort', 'np.lexsort')))
        ctx.require(len(perm) >= 1, f'{qual} computes a permutation with np.argsort / np.lexsort')
        tainted = set(keyed_names)
        changed = True
        while changed:
            changed = False
            for a in walk_local(f.node):
                if isinstance(a, ast.Assign):
                    names = [t.id for t in a.targets if isinstance(t, ast.Name)]
                    if any(isinstance(x, ast.Name) and x.id in tainted for x in ast.walk(a.value)):
                        for nme in names:
                            if nme not in tainted and nme not in perm:
                                tainted.add(nme)
                                changed = True
                # a list grown from dependent values depends on them too (`acc.append(cfs[:, i])` is the loop form of a comprehension over cfs)
                elif isinstance(a, ast.Call) and isinstance(a.func, ast.Attribute) and a.func.attr in ('append', 'extend') and isinstance(a.func.value, ast.Name) \
                        and a.func.value.id not in tainted and a.func.value.id not in perm \
                        and any(isinstance(x, ast.Name) and x.id in tainted for arg in a.args for x in ast.walk(arg)):
                    tainted.add(a.func.value.id)
                    changed = True
        defs = [a for a in walk_local(f.node) if isinstance(a, ast.Assign) and any(isinstance(t, ast.Name) and t.id in perm for t in a.targets)]
        ctx.require(len(defs) >= 2, f'{qual} defines its permutation')
        for n_def, a in enumerate(defs):
            v = a.value
            key = f'{f.name}:order#{n_def}'
            if isinstance(v, ast.Call) and call_name(v) in ('np.argsort', 'np.lexsort') and v.args:
                dep = any(isinstance(x, ast.Name) and x.id in tainted for x in ast.walk(v.args[0]))
                (ctx.ok if dep else ctx.bad)(R, f, a, f'{call_name(v)} over `{norm(v.args[0])[:40]}`, which derives from the key container' if dep else
                                             f'{call_name(v)} sorts `{norm(v.args[0])[:40]}`, which does not derive from the key container', key=key)
            elif all(x.id in perm or x.id == 'np' for x in ast.walk(v) if isinstance(x, ast.Name)) and any(isinstance(x, ast.Name) and x.id in perm for x in ast.walk(v)):
                ctx.ok(R, f, a, 'reversal of the permutation', key=key)
            else:
                ctx.bad(R, f, a, f'the permutation is set to `{norm(v)[:60]}`, which is not the result of sorting the key values: on this path the result ignores the sort keys '
                        '(e.g. a key function\'s output is computed and then dropped)', key=key)
        (ctx.ok if keyed_names else ctx.bad)(R, f, f.node, 'the key function\'s result is the container that is sorted' if keyed_names else
                                             'the key function is never applied', key=f'{f.name}:key-applied')


def keys_own_dtype(ctx: Ctx) -> None:
    R = 'I.sort-keys-own-dtype'
    ctx.rule(R, 'per path (symbolic store) of Frame.sort_values: when rows are ordered by several key columns and no key function is given, each key handed to '
             'np.lexsort is extracted column by column from the TypeBlocks selection (its own dtype); the key columns are not first consolidated into one array by '
             '`_extract_array(column_key=<the key columns>)`, whose single resolved dtype turns large integers next to floats (or numbers next to strings) into '
             'values that compare differently', floor=2)
    from sfa.symenv import SymEnv
    prog = ctx.prog
    f = prog.method('Frame', 'sort_values', inherited=False)
    sites = [c for c in walk_local(f.node) if isinstance(c, ast.Call) and call_name(c) in ('np.lexsort', 'np.argsort') and c.args]
    ids = {id(c) for c in sites}
    se = SymEnv(f.node, watch=lambda x: id(x) in ids, max_worlds=2048, max_len=2500,
                keep_fact=lambda t: t in ('axis == 0', 'axis == 1', 'key') or t.endswith('is None') or t.endswith('is not None')).run()
    n = 0
    for c in sites:
        for w in sorted(se.at(c)):
            facts = se.facts(w)
            if facts.get('axis == 1') is not True or facts.get('key') is not False:
                continue
            t = se.text(c.args[0], w)
            if t in ('values_for_lex', 'values_for_sort', 'None'):
                continue            # the other primitive's operand on this path
            n += 1
            consolidated = 'self._blocks._extract_array(column_key=' in t and call_name(c) == 'np.lexsort'
            key = f'sort_values:{call_name(c)}@axis1'
            (ctx.bad if consolidated else ctx.ok)(R, f, c, 'key columns are consolidated into one array before comparison: they are compared in one resolved dtype, not their own' if consolidated else
                                                  f'{call_name(c)} over per-column key arrays', key=key)
    ctx.require(n >= 2, 'row-ordering sort primitives of Frame.sort_values without a key function')
