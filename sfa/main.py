'''./check <id> --tier quick|thorough [--repo DIR]  |  ./check <id> --replay <path>

Exit codes: 0 = every obligation discharged (known findings printed); 1 = VIOLATION line(s);
2 = ANALYSIS-ERROR (the analysis itself cannot stand: parse failure, vanished anchor, missed
instance floor, internal error).  A traceback is never allowed to look like a violation.
'''
from __future__ import annotations

import argparse
import importlib
import json
import os
import sys
import time
import traceback

from sfa.model import AnalysisError
from sfa.model import Program
from sfa.report import VERIF
from sfa.report import Ctx
from sfa.report import finish

PROPS = [f'C{i:02d}' for i in range(1, 21)]


def run_property(prop: str, tier: str, repo: str, evidence_dir: str, write_evidence: bool = True,
                 selftest: bool = True) -> int:
    mod = importlib.import_module(f'sfa.props.{prop.lower()}')
    t0 = time.time()
    prog = Program(repo)
    ctx = Ctx(prog, prop, tier)
    ctx.t0 = t0
    mod.run(ctx)
    st = None
    if tier == 'thorough' and selftest:
        from sfa import selftest as st_mod
        st = st_mod.run_for_property(prop, repo)
        # behaviour-preserving rewrites (alpha-renaming, keyword reordering, pass insertion) of the analysed functions must stay silent
        from sfa import benign
        fz = benign.run_for_property(prop, repo, seed=int(os.environ.get('VERIF_SEED', '0') or 0), budget=int(os.environ.get('SFA_BENIGN_BUDGET', '32')))
        st['benign_fuzz'] = {k: v for k, v in fz.items() if k != 'results'}
        st['failed'] = list(st.get('failed', [])) + [f'benign edit raised an alarm: {x}' for x in fz['false_alarms']]
        cp = benign.run_corpus(prop, repo)
        st['refactor_corpus'] = cp
        st['failed'] = list(st.get('failed', [])) + [f'behaviour-preserving refactoring raised an alarm: {x}' for x in cp['alarms']]
    seed = int(os.environ.get('VERIF_SEED', '0') or 0)
    rc = finish(ctx, seed, evidence_dir, mod.LEVEL_TEXT, selftest=st, write_evidence=write_evidence)
    if st is not None and st.get('failed'):
        raise AnalysisError('self-test failed: ' + '; '.join(st['failed'][:5]))
    return rc


def main(argv=None) -> int:
    ap = argparse.ArgumentParser(prog='check')
    ap.add_argument('prop')
    ap.add_argument('--tier', default=os.environ.get('VERIF_TIER', 'quick'), choices=['quick', 'thorough'])
    ap.add_argument('--repo', default=os.environ.get('VERIF_REPO', '/repo'))
    ap.add_argument('--evidence-dir', default=os.path.join(VERIF, 'evidence'))
    ap.add_argument('--no-evidence', action='store_true')
    ap.add_argument('--no-selftest', action='store_true')
    ap.add_argument('--replay')
    args = ap.parse_args(argv)
    if args.replay:
        with open(args.replay, encoding='utf-8') as f:
            print(json.dumps(json.load(f), indent=1))
        return 0
    if args.prop == 'all':
        props = [p for p in PROPS if os.path.exists(os.path.join(VERIF, 'sfa', 'props', f'{p.lower()}.py'))]
    else:
        props = [args.prop.upper()]
    worst = 0
    for p in props:
        if p not in PROPS:
            print(f'ANALYSIS-ERROR unknown property {p}')
            return 2
        try:
            rc = run_property(p, args.tier, args.repo, args.evidence_dir,
                              write_evidence=not args.no_evidence, selftest=not args.no_selftest)
        except AnalysisError as e:
            print(f'ANALYSIS-ERROR property={p} {e}')
            rc = 2
        except Exception:
            traceback.print_exc()
            print(f'ANALYSIS-ERROR property={p} internal error (traceback above)')
            rc = 2
        worst = max(worst, rc)
    return worst


if __name__ == '__main__':
    sys.stdout.reconfigure(line_buffering=True)
    sys.exit(main())
