'''Mirror-image agreement of two branches (left/right of a join, self/other of a comparison) decided structurally.

Two statement lists are mirror images when they are the same tree up to
  * a consistent, injective renaming of locals a -> b in which the *side* of b is the flip of the side of a
    (a local is left-sided when everything it is defined or filled from is rooted in `self` or in left-sided
    locals only, right-sided likewise for `other`; locals fed from both or neither are unsided and must map
    to themselves), and whose definitions are themselves mirror images,
  * the exchange of the paired global names given by the caller (PairLeft <-> PairRight, ...), with the
    element order of their tuple argument reversed.
No identifier of a local takes part in the decision.
'''
from __future__ import annotations

import ast
import typing as tp

from sfa import roles
from sfa.model import norm

L, R = 'L', 'R'


def sides(fn: ast.AST, left_root: str = 'self', right_root: str = 'other') -> tp.Dict[str, tp.Optional[str]]:
    '''local name -> 'L' / 'R' / None (unsided or mixed), by fixpoint over assignments, zip-loops and mutating calls.'''
    feeds: tp.Dict[str, tp.List[ast.expr]] = {}

    def feed(t: ast.expr, v: ast.expr) -> None:
        if isinstance(t, ast.Name):
            feeds.setdefault(t.id, []).append(v)
        elif isinstance(t, (ast.Tuple, ast.List)):
            if isinstance(v, (ast.Tuple, ast.List)) and len(v.elts) == len(t.elts):
                for a, b in zip(t.elts, v.elts):
                    feed(a, b)
            elif isinstance(v, ast.Call) and isinstance(v.func, ast.Name) and v.func.id == 'zip' and len(v.args) == len(t.elts):
                for a, b in zip(t.elts, v.args):
                    feed(a, b)
            else:
                for a in t.elts:
                    feed(a, v)
    for s in ast.walk(fn):
        if isinstance(s, ast.Assign):
            for t in s.targets:
                feed(t, s.value)
        elif isinstance(s, ast.AnnAssign) and s.value is not None:
            feed(s.target, s.value)
        elif isinstance(s, ast.For):
            feed(s.target, s.iter)
        elif isinstance(s, ast.Call) and isinstance(s.func, ast.Attribute) and isinstance(s.func.value, ast.Name) \
                and s.func.attr in ('add', 'update', 'append', 'extend'):
            for a in s.args:
                feeds.setdefault(s.func.value.id, []).append(a)
    side: tp.Dict[str, tp.Optional[str]] = {left_root: L, right_root: R}
    mixed: tp.Set[str] = set()
    for _ in range(12):
        changed = False
        for nm, vs in feeds.items():
            if nm in (left_root, right_root) or nm in mixed:
                continue
            seen = set()
            for v in vs:
                for x in ast.walk(v):
                    if isinstance(x, ast.Name):
                        if x.id in mixed:
                            seen |= {L, R}
                        elif side.get(x.id):
                            seen.add(side[x.id])
            new = L if seen == {L} else R if seen == {R} else None
            if seen == {L, R}:
                mixed.add(nm)
                if side.get(nm) is not None:
                    side[nm] = None
                    changed = True
                continue
            if new != side.get(nm):
                side[nm] = new
                changed = True
        if not changed:
            break
    for nm in feeds:
        side.setdefault(nm, None)
    return side


class Mirror:
    def __init__(self, fn: ast.AST, swap_globals: tp.Mapping[str, str], reversed_tuple_callees: tp.Iterable[str] = (),
                 left_root: str = 'self', right_root: str = 'other'):
        self.fn = fn
        self.locals = set(roles.stored_names(fn))
        self.swap = dict(swap_globals)
        self.swap.update({v: k for k, v in swap_globals.items()})
        self.swap.update({left_root: right_root, right_root: left_root})
        self.rev = set(reversed_tuple_callees)
        self.side = sides(fn, left_root, right_root)
        self.map: tp.Dict[str, str] = {}
        self.bound: tp.Dict[str, str] = {}
        self.why = ''
        self.defs: tp.Dict[str, tp.List[ast.expr]] = {}
        for s in ast.walk(fn):
            if isinstance(s, ast.Assign) and len(s.targets) == 1 and isinstance(s.targets[0], ast.Name):
                self.defs.setdefault(s.targets[0].id, []).append(s.value)

    def _fail(self, why: str) -> bool:
        if not self.why:
            self.why = why
        return False

    def unify(self, a: tp.Any, b: tp.Any) -> bool:
        if isinstance(a, list) and isinstance(b, list):
            if len(a) != len(b):
                return self._fail(f'{len(a)} vs {len(b)} elements')
            return all(self.unify(x, y) for x, y in zip(a, b))
        if not isinstance(a, ast.AST) or not isinstance(b, ast.AST):
            return a == b or self._fail(f'`{a}` vs `{b}`')
        if type(a) is not type(b):
            return self._fail(f'`{norm(a)[:40]}` vs `{norm(b)[:40]}`')
        if isinstance(a, (ast.GeneratorExp, ast.ListComp, ast.SetComp, ast.DictComp)):
            # comprehension variables are bound variables of the comprehension: matched positionally, no side
            ta = [x.id for g in a.generators for x in ast.walk(g.target) if isinstance(x, ast.Name)]
            tb = [x.id for g in b.generators for x in ast.walk(g.target) if isinstance(x, ast.Name)]
            if len(ta) != len(tb):
                return self._fail('comprehensions bind a different number of variables')
            saved = dict(self.bound)
            self.bound.update(dict(zip(ta, tb)))
            try:
                for fld in a._fields:
                    if not self.unify(getattr(a, fld, None), getattr(b, fld, None)):
                        return False
                return True
            finally:
                self.bound = saved
        if isinstance(a, ast.Name):
            if a.id in self.bound:
                return self.bound[a.id] == b.id or self._fail(f'bound variable `{a.id}` vs `{b.id}`')
            if a.id in self.locals or b.id in self.locals:
                if a.id in self.map:
                    return self.map[a.id] == b.id or self._fail(f'`{a.id}` corresponds to both `{self.map[a.id]}` and `{b.id}`')
                if b.id in self.map.values():
                    return self._fail(f'`{b.id}` corresponds to two different locals')
                sa, sb = self.side.get(a.id), self.side.get(b.id)
                flip = {L: R, R: L, None: None}[sa]
                if sb != flip:
                    return self._fail(f'`{a.id}` ({sa or "unsided"}) stands where the mirror has `{b.id}` ({sb or "unsided"})')
                if sa is None and a.id != b.id:
                    return self._fail(f'unsided locals `{a.id}` / `{b.id}` differ')
                self.map[a.id] = b.id
                return True
            return self.swap.get(a.id, a.id) == b.id or self._fail(f'`{a.id}` vs `{b.id}`')
        if isinstance(a, ast.Call) and isinstance(a.func, ast.Name) and a.func.id in self.rev and isinstance(b, ast.Call) \
                and len(a.args) == 1 and len(b.args) == 1 and isinstance(a.args[0], ast.Tuple) and isinstance(b.args[0], ast.Tuple):
            return self.unify(a.func, b.func) and self.unify(list(a.args[0].elts), list(reversed(b.args[0].elts))) and self.unify(a.keywords, b.keywords)
        if isinstance(a, ast.Attribute):
            return a.attr == b.attr and self.unify(a.value, b.value) or self._fail(f'`{norm(a)}` vs `{norm(b)}`')
        for fld in a._fields:
            if fld in ('ctx', 'type_comment'):
                continue
            if not self.unify(getattr(a, fld, None), getattr(b, fld, None)):
                return False
        return True

    def check(self, left: tp.Sequence[ast.stmt], right: tp.Sequence[ast.stmt]) -> bool:
        left = [s for s in left if not isinstance(s, ast.Pass)]
        right = [s for s in right if not isinstance(s, ast.Pass)]
        if not self.unify(list(left), list(right)):
            return False
        # the corresponding locals are themselves defined as mirror images
        for a, b in list(self.map.items()):
            if a == b:
                continue
            da, db = self.defs.get(a, []), self.defs.get(b, [])
            if len(da) != len(db):
                return self._fail(f'`{a}` and `{b}` are not defined the same number of times')
            for x, y in zip(da, db):
                if not self.unify(x, y):
                    return False
        return True
