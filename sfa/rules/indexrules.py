'''C02 / C04 / C05 rules about Index construction and label lookup.'''
from __future__ import annotations

import ast
import typing as tp

from sfa import flow
from sfa.model import AnalysisError
from sfa.model import FuncInfo
from sfa.model import call_name
from sfa.model import kwarg
from sfa.model import norm
from sfa.model import walk_local
from sfa import roles
from sfa.report import Ctx


def uniqueness(ctx: Ctx) -> None:
    R = 'I.index-uniqueness'
    ctx.rule(R, 'Index.__init__ cannot be completed with duplicate labels: the AutoMap/FrozenAutoMap construction is the '
             'only non-donor source of _map, its ValueError handler never completes normally with _map still None '
             '(ErrorInitIndexNonUnique is raised), and the no-map path (loc_is_iloc) is reachable only from '
             'IndexAutoFactory with PositionsAllocator labels or by propagation from a donor index that has no map', floor=6)
    prog = ctx.prog
    f = prog.method('Index', '__init__', inherited=False)
    tries = [n for n in walk_local(f.node) if isinstance(n, ast.Try) and any(
        isinstance(s, ast.Assign) and norm(s.targets[0]) == 'self._map' and 'AutoMap(' in norm(s.value) for s in n.body)]
    ctx.require(len(tries) == 1, 'Index.__init__ builds its map in one try block')
    tr = tries[0]
    v = norm(tr.body[0].value)
    good = 'FrozenAutoMap(labels)' in v and 'AutoMap(labels)' in v
    (ctx.ok if good else ctx.bad)(R, f, tr.body[0], f'map built from the labels: {v[:70]}', key='map-built-from-labels')
    # the statement that follows the try in its block
    parent_body = None
    for n in ast.walk(f.node):
        for field in ('body', 'orelse'):
            b = getattr(n, field, None)
            if isinstance(b, list) and tr in b:
                parent_body = b
    nxt = parent_body[parent_body.index(tr) + 1] if parent_body and parent_body.index(tr) + 1 < len(parent_body) else None
    handler_raises = all(any(isinstance(x, ast.Raise) and x.exc is not None and 'ErrorInitIndexNonUnique' in norm(x.exc) for x in ast.walk(h)) for h in tr.handlers)
    handler_returns = any(isinstance(x, (ast.Return, ast.Continue)) for h in tr.handlers for x in ast.walk(h))
    follow_raises = isinstance(nxt, ast.If) and norm(nxt.test) == 'self._map is None' and any(
        isinstance(x, ast.Raise) and x.exc is not None and 'ErrorInitIndexNonUnique' in norm(x.exc) for x in nxt.body)
    catches = [norm(h.type) for h in tr.handlers]
    if handler_returns:
        ctx.bad(R, f, tr, 'the duplicate-label handler returns: an index with non-unique labels (and no map) can be constructed', key='dup-raises')
    elif handler_raises or follow_raises:
        ctx.ok(R, f, tr, f'duplicates ({catches}) lead to ErrorInitIndexNonUnique on every path', key='dup-raises')
    else:
        ctx.bad(R, f, tr, 'after a duplicate-label ValueError nothing raises ErrorInitIndexNonUnique: construction continues with _map None '
                '(treated as an auto-integer index)', key='dup-raises')
    # the no-map branch is guarded by loc_is_iloc
    from sfa.rules.frozen import _enclosing_tests
    guards = [t for t, pol in _enclosing_tests(f.node, tr) if (norm(t) == 'not loc_is_iloc' and pol) or (norm(t) == 'loc_is_iloc' and not pol)]
    (ctx.ok if guards else ctx.bad)(R, f, tr, 'map construction is skipped only under loc_is_iloc' if guards else
                                    'the map construction is no longer the `not loc_is_iloc` branch', key='loc-is-iloc-guard')
    # who may pass loc_is_iloc
    sites = []
    for g in prog.all_funcs():
        if isinstance(g.node, ast.Lambda):
            continue
        for c in walk_local(g.node):
            if isinstance(c, ast.Call) and kwarg(c, 'loc_is_iloc') is not None:
                sites.append((g, c))
    for g, c in sites:
        v = kwarg(c, 'loc_is_iloc')
        labels = kwarg(c, 'labels') or (c.args[0] if c.args else None)
        key = f'loc_is_iloc@{g.qualname}'
        if isinstance(v, ast.Constant) and v.value is False:
            ctx.ok(R, g, c, 'loc_is_iloc=False', key=key)
            continue
        ok_site = g.qualname.startswith('index_auto.IndexAutoFactory.')
        lab_ok = False
        if labels is not None and isinstance(labels, ast.Name):
            defs = [norm(a.value) for a in walk_local(g.node) if isinstance(a, ast.Assign) and norm(a.targets[0]) == labels.id]
            lab_ok = bool(defs) and all(d.startswith('PositionsAllocator.get(') for d in defs)
        if ok_site and lab_ok:
            ctx.ok(R, g, c, 'IndexAutoFactory passes loc_is_iloc with PositionsAllocator labels (0..n-1 by construction)', key=key)
        else:
            ctx.bad(R, g, c, f'loc_is_iloc={norm(v)} passed from {g.qualname} with labels `{norm(labels)}`: the uniqueness check and the hash map are '
                    'skipped for labels that are not known to be 0..n-1', key=key)
    ctx.require(any(g.qualname.startswith('index_auto.') for g, _ in sites), 'IndexAutoFactory passes loc_is_iloc')
    # propagation inside __init__
    props = [s for s in walk_local(f.node) if isinstance(s, ast.Assign) and norm(s.targets[0]) == 'loc_is_iloc']
    for s in props:
        good = norm(s.value).endswith('._map is None')
        (ctx.ok if good else ctx.bad)(R, f, s, f'loc_is_iloc propagated as `{norm(s.value)}`' if good else
                                      f'loc_is_iloc is set to `{norm(s.value)}` inside __init__', key='loc-is-iloc-propagation')
    # __contains__ consults the map (or the 0..n-1 range), never the possibly stale arrays
    c = prog.method('Index', '__contains__', inherited=False)
    reads = [n.attr for n in ast.walk(c.node) if isinstance(n, ast.Attribute) and isinstance(n.value, ast.Name) and n.value.id == 'self']
    bad_reads = [a for a in reads if a in ('_labels', '_positions', '_labels_mutable')]
    uses_map = any(norm(n.func) == 'self._map.__contains__' for n in ast.walk(c.node) if isinstance(n, ast.Call)) or \
        any(isinstance(n, ast.Compare) and any(isinstance(o, ast.In) for o in n.ops) and 'self._map' in norm(n) for n in ast.walk(c.node))
    (ctx.ok if uses_map and not bad_reads else ctx.bad)(R, c, c.node, 'membership is answered by the hash map (or the 0..n-1 range)' if uses_map and not bad_reads
                                                        else f'membership reads {bad_reads or "no map"}', key='contains')


def tree_form(ctx: Ctx) -> None:
    R = 'I.tree-form-siblings'
    ctx.rule(R, 'IndexHierarchy.from_labels and _from_type_blocks share the non-sequential-predecessor test: both raise '
             'ErrorInitIndex when a label re-opens a node that is not the last one observed at its depth (structural agreement '
             'of the two marked blocks)', floor=3)
    prog = ctx.prog
    fa = prog.method('IndexHierarchy', 'from_labels', inherited=False)
    fb = prog.method('IndexHierarchy', '_from_type_blocks', inherited=False)

    def shared_block(f: FuncInfo) -> tp.Optional[ast.If]:
        # the tree-building chain: an `if <depth var> < <bound>` (inside a loop) whose body creates a dict() node by subscript store
        for n in walk_local(f.node):
            if isinstance(n, ast.If) and isinstance(n.test, ast.Compare) and len(n.test.ops) == 1 and isinstance(n.test.ops[0], ast.Lt) \
                    and isinstance(n.test.left, ast.Name) \
                    and any(isinstance(x, ast.Assign) and isinstance(x.targets[0], ast.Subscript) and isinstance(x.value, ast.Call) and call_name(x.value) == 'dict'
                            for b in n.body for x in ast.walk(b)):
                return n
        return None
    a, b = shared_block(fa), shared_block(fb)
    if a is None or b is None:
        raise AnalysisError('anchor vanished: shared tree-building block (`if d < bound:` creating dict() nodes)')

    def canon(f: FuncInfo, n: ast.If) -> str:
        import copy
        import re
        n = copy.deepcopy(n)
        for x in ast.walk(n):
            if isinstance(x, ast.Raise) and isinstance(x.exc, ast.Call):
                x.exc.args = []           # messages differ
        # alpha-canonical: locals are numbered in order of first appearance in the block
        local_names = set(roles.stored_names(f.node))
        order: tp.Dict[str, str] = {}
        for x in _preorder(n):
            if isinstance(x, ast.Name) and x.id in local_names and x.id not in order:
                order[x.id] = f'_v{len(order)}'
        for x in ast.walk(n):
            if isinstance(x, ast.Name) and x.id in order:
                x.id = order[x.id]
        return re.sub(r'\s+', ' ', ast.unparse(n))
    ca, cb = canon(fa, a), canon(fb, b)
    (ctx.ok if ca == cb else ctx.bad)(R, fa, a, 'the two tree-building blocks are structurally identical (messages and local names aside)' if ca == cb else
                                      'from_labels and _from_type_blocks no longer build / validate the tree the same way', key='siblings-agree')
    for f, blk in ((fa, a), (fb, b)):
        # every branch that opens a node under `if v not in cur: cur[v] = dict()/list()` must, when the node exists already,
        # raise unless v is the label last observed at this depth (`v != last[d]`), and record `last[d] = v`
        raising = 0
        opening = 0
        br: tp.Optional[ast.If] = blk
        while isinstance(br, ast.If):
            dvar = br.test.left.id if isinstance(br.test, ast.Compare) and isinstance(br.test.left, ast.Name) else None
            for inner in [x for x in br.body if isinstance(x, ast.If)]:
                t = inner.test
                if not (isinstance(t, ast.Compare) and len(t.ops) == 1 and isinstance(t.ops[0], ast.NotIn) and isinstance(t.left, ast.Name)):
                    continue
                creates = any(isinstance(x, ast.Assign) and isinstance(x.targets[0], ast.Subscript) and isinstance(x.value, ast.Call)
                              and call_name(x.value) in ('dict', 'list') for x in inner.body)
                if not creates:
                    continue
                opening += 1
                v = t.left.id
                recorded = {norm(x.targets[0].value) for x in br.body if isinstance(x, ast.Assign) and isinstance(x.targets[0], ast.Subscript)
                            and isinstance(x.value, ast.Name) and x.value.id == v and norm(x.targets[0].slice) == dvar}
                for chk in [x for o in inner.orelse for x in ast.walk(o) if isinstance(x, ast.If)]:
                    c = chk.test
                    if isinstance(c, ast.Compare) and len(c.ops) == 1 and isinstance(c.ops[0], ast.NotEq):
                        sides = [c.left, c.comparators[0]]
                        names = [x for x in sides if isinstance(x, ast.Name) and x.id == v]
                        subs = [x for x in sides if isinstance(x, ast.Subscript) and norm(x.slice) == dvar and norm(x.value) in recorded]
                        if names and subs and any(isinstance(y, ast.Raise) and 'ErrorInitIndex' in norm(y.exc) for y in chk.body):
                            raising += 1
                            break
            nxt = br.orelse[0] if len(br.orelse) == 1 and isinstance(br.orelse[0], ast.If) else None
            br = nxt
        good = opening >= 2 and raising == opening
        (ctx.ok if good else ctx.bad)(R, f, blk, f'{raising} of {opening} node-opening branches raise ErrorInitIndex for a non-sequential predecessor' if good else
                                      f'a re-opened node that is not the sequential predecessor is accepted ({raising} of {opening} node-opening branches test it): '
                                      'non-tree label orders build an index', key=f'{f.name}:predecessor-test')


def _preorder(n: ast.AST) -> tp.Iterator[ast.AST]:
    yield n
    for c in ast.iter_child_nodes(n):
        yield from _preorder(c)


# the one backing sequence every view of an index presents, per class; checked per path on the symbolic store
_VIEWS = {
    'Index': {
        '__len__': ({'len(self._labels)'}, 'length of the label array'),
        'values': ({'self._labels'}, 'the label array'),
        'positions': ({'self._positions'}, 'the position array'),
        '__iter__': ({'self._labels.__iter__()', 'iter(self._labels)', "tp.cast(tp.Iterator[tp.Hashable], self._labels.__iter__())"}, 'iteration over the label array'),
        '__reversed__': ({'reversed(self._labels)', 'self._labels[::-1].__iter__()', 'iter(self._labels[::-1])'}, 'reversed iteration over the label array'),
    },
    'IndexHierarchy': {
        '__len__': ({'self._levels.__len__()', 'self._blocks.__len__()', 'len(self._levels)', 'len(self._blocks)'}, 'length of the tree (stale) / the table (fresh)'),
        'values': ({'self._blocks.values'}, 'the 2-D table'),
        'positions': ({'PositionsAllocator.get(self.__len__())', 'PositionsAllocator.get(len(self))'}, '0..n-1 for the current length'),
        'depth': ({'self._levels.depth', 'self._blocks.shape[1]', 'self._blocks._shape[1]'}, 'depth of the tree (stale) / width of the table (fresh)'),
        'shape': ({'(self._levels.__len__(), self._levels.depth)', 'self._blocks._shape', 'self._blocks.shape'}, 'tree length and depth (stale) / table shape (fresh)'),
    },
}


_BACKING = {'Index': {'self.values': 'self._labels', 'self.positions': 'self._positions'},
            'IndexHierarchy': {'self.values': 'self._blocks.values'}}


def _through_properties(text: str, cname: str, method: str) -> str:
    '''A view may be stated through another public view of the same object (len(self.values)): read it through.'''
    import re
    for prop, backing in _BACKING.get(cname, {}).items():
        if prop.split('.')[1] == method:
            continue
        text = re.sub(re.escape(prop) + r'(?![A-Za-z0-9_])', backing, text)
    return text


def views_agree(ctx: Ctx) -> None:
    R = 'G.index-views'
    ctx.rule(R, 'every view of an index is a view of one backing sequence: Index __len__ / values / positions / __iter__ / __reversed__ return exactly the label '
             '(position) array or its length / iterator / reversed iterator; IndexHierarchy __len__ / depth / shape read the tree while the table is stale and the table '
             'otherwise, values is the table, positions is 0..n-1 for the current length, __iter__ delegates to the tree, __reversed__ walks the table rows in '
             'reverse, __contains__ asks the tree (freshness of these reads is B.recache)', floor=12)
    from sfa.symenv import SymEnv
    prog = ctx.prog
    n = 0
    for cname, table in _VIEWS.items():
        for m, (want, what) in table.items():
            f = prog.method(cname, m, inherited=False)
            se = SymEnv(f.node, watch=lambda x: isinstance(x, ast.Return), keep_fact=lambda t: t == 'self._recache').run()
            got = set()
            for node, worlds in se.all_sites():
                for w in worlds:
                    got.add(_through_properties(se.text(node.value, w), cname, m))
            n += 1
            good = bool(got) and got <= want
            if good and cname == 'IndexHierarchy' and m in ('__len__', 'depth', 'shape'):
                # stale -> tree, fresh -> table
                for node, worlds in se.all_sites():
                    for w in worlds:
                        stale = se.facts(w).get('self._recache')
                        t = se.text(node.value, w)
                        if stale is True and '_levels' not in t:
                            good = False
                        if stale is False and '_blocks' not in t:
                            good = False
            (ctx.ok if good else ctx.bad)(R, f, f.node, f'{what}' if good else f'{cname}.{m} returns {sorted(got)}: not {what}', key=f'{cname}.{m}')
    ih = prog.cls('IndexHierarchy')
    it = ih.methods['__iter__']
    ys = [y for y in walk_local(it.node) if isinstance(y, (ast.Yield, ast.YieldFrom))]
    good = len(ys) == 1 and isinstance(ys[0], ast.YieldFrom) and norm(ys[0].value) in ('self._levels.__iter__()', 'iter(self._levels)')
    n += 1
    (ctx.ok if good else ctx.bad)(R, it, it.node, 'iteration delegates to the tree (always current)' if good else 'IndexHierarchy.__iter__ no longer delegates to the tree', key='IndexHierarchy.__iter__')
    rv = ih.methods['__reversed__']
    loops = [lp for lp in walk_local(rv.node) if isinstance(lp, ast.For)]
    good = len(loops) == 1 and isinstance(loops[0].iter, ast.Call) and norm(loops[0].iter.func) == 'self._blocks.axis_values' and norm(kwarg(loops[0].iter, 'reverse')) == 'True' \
        and loops[0].iter.args and norm(loops[0].iter.args[0]) == '1' \
        and any(isinstance(y, ast.Yield) and isinstance(y.value, ast.Call) and call_name(y.value) == 'tuple' and norm(y.value.args[0]) == norm(loops[0].target) for y in ast.walk(loops[0]))
    n += 1
    (ctx.ok if good else ctx.bad)(R, rv, rv.node, 'reversed iteration yields the table rows last to first as tuples' if good else 'IndexHierarchy.__reversed__ does not walk the table rows in reverse', key='IndexHierarchy.__reversed__')
    co = ih.methods['__contains__']
    rets = [r for r in walk_local(co.node) if isinstance(r, ast.Return)]
    good = len(rets) == 1 and norm(rets[0].value) in (f'self._levels.__contains__({co.params[1]})', f'{co.params[1]} in self._levels')
    n += 1
    (ctx.ok if good else ctx.bad)(R, co, co.node, 'membership asks the tree' if good else 'IndexHierarchy.__contains__ does not ask the tree', key='IndexHierarchy.__contains__')
    ctx.require(n >= 12, 'index view methods')


def ancestor_cache_invalidation(ctx: Ctx) -> None:
    R = 'I.ancestor-cache-invalidation'
    ctx.rule(R, 'IndexLevelGO caches its leaf count in _length, and the count of a node is the sum over its subtree: a mutator that descends the tree, records the '
             'node visited at every depth and then grows one of the recorded nodes must reset _length on every recorded node (a loop over the whole recording, not a '
             'selection of it); mutators that grow only self reset self._length', floor=2)
    prog = ctx.prog
    k = prog.cls('IndexLevelGO')
    n = 0
    for mname, f in k.methods.items():
        grows = [c for c in ast.walk(f.node) if isinstance(c, ast.Call) and isinstance(c.func, ast.Attribute) and c.func.attr in ('append', 'extend')
                 and isinstance(c.func.value, ast.Attribute) and c.func.value.attr in ('index', 'targets')]
        if not grows:
            continue
        # recordings: A[<loop var>] = <node var> inside a loop
        recs = {}
        for lp in walk_local(f.node):
            if isinstance(lp, ast.For):
                for a in ast.walk(lp):
                    if isinstance(a, ast.Assign) and isinstance(a.targets[0], ast.Subscript) and isinstance(a.targets[0].value, ast.Name) and isinstance(a.value, ast.Name):
                        recs[a.targets[0].value.id] = a
        resets_self = [a for a in walk_local(f.node) if isinstance(a, ast.Assign) and norm(a.targets[0]) == 'self._length' and isinstance(a.value, ast.Constant) and a.value.value is None]
        grows_recorded = [c for c in grows if isinstance(c.func.value.value, ast.Name) and c.func.value.value.id != 'self']
        n += 1
        key = f'IndexLevelGO.{mname}'
        if grows_recorded and recs:
            ok = False
            for lp in walk_local(f.node):
                if isinstance(lp, ast.For) and isinstance(lp.iter, ast.Name) and lp.iter.id in recs and isinstance(lp.target, ast.Name):
                    if any(isinstance(a, ast.Assign) and isinstance(a.targets[0], ast.Attribute) and a.targets[0].attr == '_length' and isinstance(a.targets[0].value, ast.Name)
                           and a.targets[0].value.id == lp.target.id and isinstance(a.value, ast.Constant) and a.value.value is None for a in lp.body) \
                            and not any(isinstance(x, (ast.Continue, ast.Break, ast.If)) for x in lp.body):
                        ok = True
            (ctx.ok if ok else ctx.bad)(R, f, grows_recorded[0], 'every node recorded on the descent has its cached length reset' if ok else
                                        'a node below the root is grown but the cached _length is not reset on every node recorded along the descent: ancestors keep a stale leaf '
                                        'count, so offsets and the rebuilt table disagree with the tree', key=key)
        else:
            ok = bool(resets_self)
            (ctx.ok if ok else ctx.bad)(R, f, grows[0], 'self._length is reset after growing self' if ok else 'the tree grows but the cached _length of self is not reset', key=key)
    ctx.require(n >= 2, 'IndexLevelGO mutators')


def descent_follows_key(ctx: Ctx) -> None:
    R = 'I.descent-follows-key'
    ctx.rule(R, 'a tree descent that is steered by the components of a key but steps into a child chosen by fixed position (`node.targets[-1]`) is only right when '
             'the matched component sits at that position: wherever an IndexLevelGO mutator tests `node.index.__contains__(k)` and descends through a constant '
             'child, the position of k in node.index is compared with the position of that child and a mismatch raises before anything is mutated', floor=1)
    prog = ctx.prog
    k = prog.cls('IndexLevelGO')
    n = 0
    for mname, f in k.methods.items():
        for lp in walk_local(f.node):
            if not isinstance(lp, ast.For):
                continue
            steps = [a for a in ast.walk(lp) if isinstance(a, ast.Assign) and isinstance(a.targets[0], ast.Name) and isinstance(a.value, ast.Subscript)
                     and isinstance(a.value.value, ast.Attribute) and a.value.value.attr == 'targets' and isinstance(a.value.value.value, ast.Name)
                     and a.value.value.value.id == a.targets[0].id and _const_index(a.value.slice) is not None]
            tests = [c for c in ast.walk(lp) if (isinstance(c, ast.Call) and isinstance(c.func, ast.Attribute) and c.func.attr == '__contains__'
                                                  and isinstance(c.func.value, ast.Attribute) and c.func.value.attr == 'index')
                     or (isinstance(c, ast.Compare) and any(isinstance(o, (ast.In, ast.NotIn)) for o in c.ops) and norm(c.comparators[0]).endswith('.index'))]
            if not steps or not tests:
                continue
            n += 1
            node_var = steps[0].targets[0].id
            # a raise guarded by a comparison of the key component's position in <node>.index with the child position / length
            guarded = False
            for i in ast.walk(lp):
                if isinstance(i, ast.If) and any(isinstance(x, ast.Raise) for x in i.body):
                    for c in ast.walk(i.test):
                        if isinstance(c, ast.Compare) and any(isinstance(x, ast.Call) and isinstance(x.func, ast.Attribute) and x.func.attr in ('_loc_to_iloc', 'loc_to_iloc')
                                                              and norm(x.func.value) == f'{node_var}.index' for x in ast.walk(c)):
                            guarded = True
            before_mutation = not any(isinstance(c, ast.Call) and isinstance(c.func, ast.Attribute) and c.func.attr in ('append', 'extend') for c in ast.walk(lp))
            good = guarded and before_mutation
            (ctx.ok if good else ctx.bad)(R, f, steps[0], f'descent through {norm(steps[0].value)} is checked against the position of the matched label' if good else
                                          f'`{norm(steps[0])}` follows a fixed child although the key component may match a label at another position: the rest of the key is '
                                          'attached to the wrong subtree (a label is stored under another outer label)', key=f'IndexLevelGO.{mname}')
    ctx.require(n >= 1, 'key-steered descents in IndexLevelGO mutators')


def _const_index(e: ast.expr) -> tp.Optional[int]:
    if isinstance(e, ast.Constant) and isinstance(e.value, int):
        return e.value
    if isinstance(e, ast.UnaryOp) and isinstance(e.op, ast.USub) and isinstance(e.operand, ast.Constant) and isinstance(e.operand.value, int):
        return -e.operand.value
    return None


def offset_accumulation(ctx: Ctx) -> None:
    R = 'I.offset-accumulation'
    ctx.rule(R, 'level offsets are relative to the parent: a worklist walk over the IndexLevel tree that pops (node, depth, offset) computes the absolute offset of the node '
             'as `offset + node.offset` and hands *that accumulated value* on — as the offset of every child pushed back on the worklist and as the offset of the leaf '
             'lookup; pushing the node\'s own relative offset (or the parent\'s) shifts every selection below the first branch at depth >= 3', floor=3)
    prog = ctx.prog
    n = 0
    for cname in ('IndexLevel', 'IndexLevelGO'):
        k = prog.cls(cname)
        for mname, f in k.methods.items():
            for lp in walk_local(f.node):
                if not isinstance(lp, ast.While):
                    continue
                pops = [a for a in lp.body if isinstance(a, ast.Assign) and isinstance(a.targets[0], ast.Tuple) and len(a.targets[0].elts) == 3 and isinstance(a.value, ast.Call)
                        and isinstance(a.value.func, ast.Attribute) and a.value.func.attr in ('popleft', 'pop') and all(isinstance(e, ast.Name) for e in a.targets[0].elts)]
                if not pops:
                    continue
                work = norm(pops[0].value.func.value)
                node_v, _depth_v, off_v = (e.id for e in pops[0].targets[0].elts)
                if not any(isinstance(x, ast.Attribute) and x.attr == 'offset' and isinstance(x.value, ast.Name) and x.value.id == node_v for x in ast.walk(lp)):
                    continue        # a walk that does not deal in offsets (rows, labels)
                accs = [a.targets[0].id for a in ast.walk(lp) if isinstance(a, ast.Assign) and isinstance(a.targets[0], ast.Name) and isinstance(a.value, ast.BinOp)
                        and isinstance(a.value.op, ast.Add) and {norm(a.value.left), norm(a.value.right)} == {off_v, f'{node_v}.offset'}]
                n += 1
                key = f'{cname}.{mname}'
                if len(accs) != 1:
                    ctx.bad(R, f, pops[0], f'the absolute offset `{off_v} + {node_v}.offset` is not computed once per popped node', key=key + ':accumulate')
                    continue
                acc = accs[0]
                ctx.ok(R, f, pops[0], f'absolute offset = {off_v} + {node_v}.offset', key=key + ':accumulate')
                pushes = []
                for c in ast.walk(lp):
                    if isinstance(c, ast.Call) and isinstance(c.func, ast.Attribute) and c.func.attr in ('append', 'extend', 'appendleft') and norm(c.func.value) == work and c.args:
                        a0 = c.args[0]
                        tup = a0 if isinstance(a0, ast.Tuple) else a0.elt if isinstance(a0, (ast.GeneratorExp, ast.ListComp)) else None
                        if isinstance(tup, ast.Tuple) and len(tup.elts) == 3:
                            pushes.append((c, tup))
                for c, tup in pushes:
                    n += 1
                    good = isinstance(tup.elts[2], ast.Name) and tup.elts[2].id == acc
                    (ctx.ok if good else ctx.bad)(R, f, c, 'children are pushed with the accumulated offset' if good else
                                                  f'children are pushed with `{norm(tup.elts[2])}` instead of the accumulated offset: positions selected below this node are shifted',
                                                  key=key + f':push#{pushes.index((c, tup))}')
                lookups = [c for c in ast.walk(lp) if isinstance(c, ast.Call) and kwarg(c, 'offset') is not None]
                for c in lookups:
                    n += 1
                    good = norm(kwarg(c, 'offset')) == acc
                    (ctx.ok if good else ctx.bad)(R, f, c, 'the leaf lookup is offset by the accumulated offset' if good else
                                                  f'the leaf lookup is offset by `{norm(kwarg(c, "offset"))}`, not by the accumulated offset', key=key + f':leaf#{lookups.index(c)}')
    ctx.require(n >= 3, 'offset-carrying worklist walks')


def leaf_exit_key_exhausted(ctx: Ctx) -> None:
    R = 'I.leaf-exit-key-exhausted'
    ctx.rule(R, 'sibling agreement of the IndexLevel tree walkers that consume a key component by component (membership and leaf lookup): a successful answer given from '
             'inside the loop at a leaf (no `targets`) is conditioned on the key being exhausted (a test over the position of the component / len(key)); an unconditional '
             'success at the leaf accepts over-long tuples, so membership is true for labels that lookup rejects', floor=2)
    prog = ctx.prog
    k = prog.cls('IndexLevel')
    n = 0
    for mname, f in k.methods.items():
        params = set(f.params)
        for lp in walk_local(f.node):
            if not isinstance(lp, ast.For):
                continue
            it = lp.iter
            counter = None
            if isinstance(it, ast.Call) and call_name(it) == 'enumerate' and it.args and isinstance(lp.target, ast.Tuple) and isinstance(lp.target.elts[0], ast.Name):
                counter = lp.target.elts[0].id
                it = it.args[0]
            if not (isinstance(it, ast.Name) and it.id in params):
                continue
            # a walker: descends through `.targets[...]` inside the loop
            if not any(isinstance(a, ast.Assign) and isinstance(a.value, ast.Subscript) and isinstance(a.value.value, ast.Attribute) and a.value.value.attr == 'targets' for a in ast.walk(lp)):
                continue
            keyname = it.id
            # names derived from len(key)
            len_names = {a.targets[0].id for a in walk_local(f.node) if isinstance(a, ast.Assign) and isinstance(a.targets[0], ast.Name)
                         and any(isinstance(c, ast.Call) and call_name(c) == 'len' and c.args and norm(c.args[0]) == keyname for c in ast.walk(a.value))}
            from sfa.rules.blockrules import _enclosing_ifs
            exits = [r for r in ast.walk(lp) if isinstance(r, ast.Return) and r.value is not None and not (isinstance(r.value, ast.Constant) and r.value.value is False)]
            n += 1
            key = f'IndexLevel.{mname}'
            bad = None
            for r in exits:
                tests = [i.test for i, _p in _enclosing_ifs(lp, r)]
                cond = any(isinstance(x, ast.Name) and (x.id in len_names or x.id == counter) for t in tests for x in ast.walk(t)) or \
                    any(isinstance(c, ast.Call) and call_name(c) == 'len' and c.args and norm(c.args[0]) == keyname for t in tests for c in ast.walk(t))
                if not cond:
                    bad = r
                    break
            if bad is not None:
                ctx.bad(R, f, bad, f'`{norm(bad)}` answers from inside the component loop without testing that `{keyname}` is exhausted: a key longer than the depth is accepted '
                        '(`(a, 1, 99) in ih` is True while ih.loc_to_iloc((a, 1, 99)) raises)', key=key)
            else:
                ctx.ok(R, f, lp, 'a successful exit inside the loop is conditioned on the key position' if exits else 'success is only reported after the loop (the key is consumed)', key=key)
    ctx.require(n >= 2, 'IndexLevel key walkers')


def sibling_offsets_running(ctx: Ctx) -> None:
    R = 'I.sibling-offsets-running'
    ctx.rule(R, 'sibling agreement of everything that puts IndexLevel nodes under a parent (from_product, from_index_items, from_level_data, IndexLevelGO.extend, '
             'level_drop): a node\'s offset is relative to its parent and equals the total length of the siblings before it, so each loop that collects sibling nodes '
             'carries a running total (`acc += len(node)`) that is given to the node (`offset=acc`, `.to_index_level(acc)`, `node.offset = acc`); and a function that '
             'cuts leaves off (`node.targets = None`) recomputes lengths and offsets. Nodes moved with the offsets of their old parent answer lookups with wrong positions', floor=5)
    prog = ctx.prog
    n = 0
    for f in prog.all_funcs():
        if isinstance(f.node, ast.Lambda) or f.module.short not in ('index_level', 'index_hierarchy'):
            continue
        # names that end up as the children of a node
        sinks: tp.Set[str] = set()
        for c in ast.walk(f.node):
            if isinstance(c, ast.Call):
                for kw in c.keywords:
                    if kw.arg == 'targets':
                        sinks |= {x.id for x in ast.walk(kw.value) if isinstance(x, ast.Name)}
                if call_name(c) == 'ArrayGO':
                    sinks |= {x.id for a in c.args for x in ast.walk(a) if isinstance(x, ast.Name)}
        # a generator whose items are appended to `.targets` by its parent
        feeds_targets = f.parent is not None and f.is_generator() and any(
            isinstance(c, ast.Call) and isinstance(c.func, ast.Attribute) and c.func.attr in ('extend', 'append') and isinstance(c.func.value, ast.Attribute)
            and c.func.value.attr == 'targets' and any(isinstance(a, ast.Call) and isinstance(a.func, ast.Name) and a.func.id == f.name for a in c.args)
            for c in ast.walk(f.parent.node))

        def running(lp: ast.AST) -> tp.Optional[str]:
            accs = {a.target.id for a in ast.walk(lp) if isinstance(a, ast.AugAssign) and isinstance(a.op, ast.Add) and isinstance(a.target, ast.Name)
                    and any((isinstance(c, ast.Call) and call_name(c) == 'len') or (isinstance(c, ast.Call) and isinstance(c.func, ast.Attribute) and c.func.attr == '__len__')
                            for c in ast.walk(a.value))}
            for x in ast.walk(lp):
                if isinstance(x, ast.Call):
                    if any(kw.arg == 'offset' and isinstance(kw.value, ast.Name) and kw.value.id in accs for kw in x.keywords):
                        return next(kw.value.id for kw in x.keywords if kw.arg == 'offset')
                    if isinstance(x.func, ast.Attribute) and x.func.attr == 'to_index_level' and x.args and isinstance(x.args[0], ast.Name) and x.args[0].id in accs:
                        return x.args[0].id
                if isinstance(x, ast.Assign) and isinstance(x.targets[0], ast.Attribute) and x.targets[0].attr == 'offset' and isinstance(x.value, ast.Name) and x.value.id in accs:
                    return x.value.id
            return None

        for lp in walk_local(f.node):
            if not isinstance(lp, (ast.For, ast.While)):
                continue
            collects = []
            for s in ast.walk(lp):
                if isinstance(s, ast.Assign) and isinstance(s.targets[0], ast.Subscript) and isinstance(s.targets[0].value, ast.Name) and s.targets[0].value.id in sinks:
                    collects.append(s)
                elif isinstance(s, ast.Call) and isinstance(s.func, ast.Attribute) and s.func.attr in ('append', 'extend') and isinstance(s.func.value, ast.Name) \
                        and s.func.value.id in sinks:
                    collects.append(s)
                elif feeds_targets and isinstance(s, ast.Yield):
                    collects.append(s)
            if not collects:
                continue
            # innermost collecting loop only
            if any(isinstance(o, (ast.For, ast.While)) and o is not lp and all(any(y is c for y in ast.walk(o)) for c in collects) for o in ast.walk(lp)):
                continue
            # the collected things are nodes: built by a level constructor / to_index_level, or taken from `.targets`
            nodeish = any(isinstance(x, ast.Attribute) and x.attr == 'targets' for x in ast.walk(lp)) or \
                any(isinstance(x, ast.Call) and ('LEVEL_CONSTRUCTOR' in call_name(x) or call_name(x).endswith('from_level_data') or call_name(x).endswith('to_index_level')) for x in ast.walk(lp))
            if not nodeish:
                continue
            n += 1
            key = f'{f.qualname.split(".", 1)[1]}:siblings'
            # the running total may be carried by an enclosing loop of the same function
            acc = running(lp)
            if acc is None:
                for o in walk_local(f.node):
                    if isinstance(o, (ast.For, ast.While)) and o is not lp and any(y is lp for y in ast.walk(o)):
                        acc = acc or running(o)
            if acc is not None:
                ctx.ok(R, f, lp, f'each collected node gets the running total `{acc}` as its offset', key=key)
            else:
                ctx.bad(R, f, collects[0], f'`{norm(collects[0])[:60]}` puts nodes under a new parent without giving each the running length of its preceding siblings as offset: '
                        'they keep offsets relative to another parent and label lookup returns wrong positions', key=key)
        # leaves cut off
        cuts = [s for s in walk_local(f.node) if isinstance(s, ast.Assign) and isinstance(s.targets[0], ast.Attribute) and s.targets[0].attr == 'targets'
                and isinstance(s.value, ast.Constant) and s.value.value is None and isinstance(s.targets[0].value, ast.Name) and s.targets[0].value.id != f.self_name()]
        if cuts:
            n += 1
            key = f'{f.qualname.split(".", 1)[1]}:leaves-cut'
            resets = any(isinstance(s, ast.Assign) and isinstance(s.targets[0], ast.Attribute) and s.targets[0].attr == '_length' and isinstance(s.value, ast.Constant)
                         and s.value.value is None for s in walk_local(f.node))
            acc = None
            from sfa.rules.blockrules import _enclosing_ifs
            branch = [(id(i), pol) for i, pol in _enclosing_ifs(f.node, cuts[0])][:1]
            from sfa.model import doc_order
            order = doc_order(f.node)
            for o in walk_local(f.node):
                # a recomputation on the same branch of the function as the cut, after it
                if isinstance(o, (ast.For, ast.While)) and order[id(o)] > order[id(cuts[0])] and [(id(i), pol) for i, pol in _enclosing_ifs(f.node, o)][:1] == branch:
                    acc = acc or running(o)
            if resets and acc is not None:
                ctx.ok(R, f, cuts[0], f'after cutting leaves the cached lengths are reset and offsets recomputed from the running total `{acc}`', key=key)
            else:
                ctx.bad(R, f, cuts[0], f'`{norm(cuts[0])}` turns nodes into leaves (their length becomes the number of their labels) but ' +
                        ('cached lengths are not reset' if not resets else 'the offsets of their siblings are not recomputed') + ': lookups on the derived index are shifted', key=key)
    ctx.require(n >= 5, 'sites that place IndexLevel nodes under a parent')


def offset_open_slice_bounded(ctx: Ctx) -> None:
    R = 'I.offset-open-slice-bounded'
    ctx.rule(R, 'contradiction rule: LocMap.loc_to_iloc already states that under an offset (a sub-level of a hierarchy) the null slice "is not sufficiently specific" and '
             'returns explicit bounds relative to the offset; the same holds for a half-open slice. On every path of the slice branch on which the offset applies and the '
             'step is ascending, each bound of the returned slice is either known not to be None or has been replaced by an expression over the offset; a None bound '
             'there runs to the edge of the whole index', floor=2)
    from sfa.symenv import SymEnv
    prog = ctx.prog
    k = prog.cls('LocMap')
    f = k.methods.get('loc_to_iloc')
    ctx.require(f is not None and 'offset' in f.params, 'LocMap.loc_to_iloc(offset=)')
    rets = [r for r in walk_local(f.node) if isinstance(r, ast.Return) and isinstance(r.value, ast.Call) and call_name(r.value) == 'slice']
    ctx.require(len(rets) >= 2, 'slice returns of LocMap.loc_to_iloc')
    ids = {id(r.value) for r in rets}
    se = SymEnv(f.node, watch=lambda x: id(x) in ids, max_worlds=512, keep_fact=lambda t: True).run()
    n = 0
    for r in rets:
        c = r.value
        worlds = se.at(c)
        key = f'LocMap.loc_to_iloc:{norm(c)[:40]}'
        n += 1
        bad = None
        for w in sorted(worlds):
            facts = se.facts(w)
            # the offset does not apply in this world
            off = [v for t, v in facts.items() if t in ('offset_apply', 'offset is not None', 'not offset is None')]
            off += [not v for t, v in facts.items() if t == 'offset is None']
            if off and not any(off):
                continue
            # a descending step is excluded by a test on the step
            if any(v is False for t, v in facts.items() if ' > 0' in t or 'step is None' in t) and not any(v is True for t, v in facts.items() if ' > 0' in t or 'step is None' in t):
                continue
            if any(isinstance(a, ast.Starred) for a in c.args) or len(c.args) < 2:
                bad = (w, 'the bounds are passed on as they come (`slice(*...)`): an open end stays None')
                break
            def explicit(e: ast.expr) -> bool:
                t = norm(e)
                # an expression over the offset that is not just the mapper's own result (which is None for an open end)
                if 'offset' in t and 'map_slice_args' not in t:
                    return True
                if facts.get(f'{t} is None') is False or facts.get(f'{t} is not None') is True:
                    return True
                # `<repl> if X is None else X` / `X if X is not None else <repl>`
                if isinstance(e, ast.IfExp) and isinstance(e.test, ast.Compare) and len(e.test.ops) == 1 and isinstance(e.test.comparators[0], ast.Constant) \
                        and e.test.comparators[0].value is None:
                    x = norm(e.test.left)
                    if isinstance(e.test.ops[0], ast.Is):
                        return norm(e.orelse) == x and explicit(e.body)
                    if isinstance(e.test.ops[0], ast.IsNot):
                        return norm(e.body) == x and explicit(e.orelse)
                return False
            for a in c.args[:2]:
                t = se.text(a, w)
                if explicit(se.subst(a, dict(w[0]))):
                    continue
                bad = (w, f'bound `{norm(a)}` = `{t[:60]}` may be None under the offset')
                break
            if bad:
                break
        if bad:
            ctx.bad(R, f, r, f'`{norm(r)[:60]}`: {bad[1]} — with an offset the slice then runs to the edge of the whole index, not of this sub-level', key=key)
        else:
            ctx.ok(R, f, r, f'{len(worlds)} path(s): every bound is explicit under the offset', key=key)
    ctx.require(n >= 2, 'slice returns')
