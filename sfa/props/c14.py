'''C14 Missing-value operations act per cell exactly as specified.'''
from sfa.report import Ctx
from sfa.rules import table

LEVEL_TEXT = (
    'Static decision of structural clauses of C14: (a) the dtype-kind constant sets and the dispatch of isna_array (inexact -> isnan, NaT kinds -> isnat, other non-object -> all False, object -> (x != x) | (x == None)). Not decided: binary_transition / slices_from_targets arithmetic and limit counting across blocks.')

CLAIM = dict(
    text=LEVEL_TEXT,
    technique='constant-table and dispatch-chain extraction',
    design_ref='DESIGN.md section 2.G and section 3 C14',
)


def run(ctx: Ctx) -> None:
    table.t3_kinds(ctx)
