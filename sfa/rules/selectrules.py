'''C04 rules: label/value pairing on extraction, inclusive label-slice stop, absent label raises,
loc routes delegate to iloc routes, bloc coordinate writer/reader agreement.'''
from __future__ import annotations

import ast
import typing as tp

from sfa import flow
from sfa.model import AnalysisError
from sfa.model import FuncInfo
from sfa.model import call_name
from sfa.model import kwarg
from sfa.model import norm
from sfa.model import walk_local
from sfa import roles
from sfa.report import Ctx
from sfa.rules import pair


def extraction_pairs(ctx: Ctx) -> None:
    R = 'E.pair[select]'
    ctx.rule(R, 'every extraction builds its result by selecting values and labels with the same key on each axis '
             '(untouched labels only on the null-key branch), and passes the name through', floor=8)
    prog = ctx.prog
    for cname, m, kind in (('Series', '_extract_iloc', 'Series'), ('Series', '_extract_loc', 'Series'), ('Frame', '_extract', 'Frame'),
                           ('Series', 'drop_duplicated', 'Series'), ('Frame', 'drop_duplicated', 'Frame'), ('Series', 'dropna', 'Series')):
        f = prog.method(cname, m, inherited=False)
        calls = pair.constructor_calls(f)
        ctx.require(len(calls) >= 1, f'{cname}.{m} constructs its result')
        for c in calls:
            pv = pair.site_provenance(f, c)
            if pv['data'].kind in ('unk', 'fresh') and m in ('_extract', 'dropna'):
                continue   # dimensionality-reducing returns of Frame._extract are covered by select-reduce below
            pair.check_site(ctx, R, f, c, kind, expect_name=(m != 'dropna' or True) and pv['name'].text != '<absent>')
    # Frame._extract: reductions to Series take the labels of the axis that survives and are named by the label selected on the other
    f = prog.method('Frame', '_extract', inherited=False)
    ex = roles.Expander(f.node)
    row_p, col_p = (f.params[1], f.params[2]) if len(f.params) >= 3 else ('row_key', 'column_key')
    n_red = 0
    for c in [n for n in walk_local(f.node) if isinstance(n, ast.Call) and norm(n.func) == 'Series']:
        n_red += 1
        idx = ex.expand(kwarg(c, 'index'))
        nm = ex.expand(kwarg(c, 'name'))
        key = f'_extract:Series#{n_red}'
        by_columns = all('self._columns' in t and 'self._index' not in t for t in idx)
        by_index = all('self._index' in t and 'self._columns' not in t for t in idx)
        good = (by_columns and nm == {f'self._index.values[{row_p}]'}) or (by_index and nm == {f'self._columns.values[{col_p}]'})
        (ctx.ok if good else ctx.bad)(R, f, c, f'reduction labelled by {"columns" if by_columns else "index"} and named by the label selected on the other axis' if good else
                                      f'a reduced selection is labelled index={sorted(idx)} with name={sorted(nm)}: the axis that survives and the label that becomes the name are crossed', key=key)
    ctx.require(n_red >= 6, 'Series reductions in Frame._extract')
    # Bus: frames and labels of the derived Bus are selected with one and the same positional key
    for cname, m, keytext in (('Bus', '_extract_iloc', 'key'), ('Bus', '_extract_loc', 'self._series._index._loc_to_iloc(key)')):
        f = prog.method(cname, m, inherited=False)
        ex = roles.Expander(f.node)
        first_prm = (prog.method('Series', '__init__', inherited=False).params + ['self', 'values'])[1]     # the data may be given by its keyword

        def data_of(c: ast.Call) -> tp.Optional[ast.expr]:
            return c.args[0] if c.args else kwarg(c, first_prm)
        ctor = [c for c in walk_local(f.node) if isinstance(c, ast.Call) and call_name(c) == 'Series' and data_of(c) is not None]
        problems = []
        if not ctor:
            problems.append('no Series is built for the derived Bus')
        for c in ctor:
            data = ex.expand(data_of(c))
            labels = ex.expand(kwarg(c, 'index'))
            if data != {f'self._series.values[{keytext}]'}:
                problems.append(f'frames are taken as {sorted(data)}')
            if labels != {f'self._series._index.iloc[{keytext}]'}:
                problems.append(f'labels are taken as {sorted(labels)}')
        (ctx.bad if problems else ctx.ok)(R, f, f.node, '; '.join(problems) + ': frames and labels are not selected by the same key' if problems else
                                          f'self._series.values[k] paired with self._series._index.iloc[k], k = {keytext}', key=f'{cname}.{m}')


def loc_delegates(ctx: Ctx) -> None:
    R = 'I.loc-delegates-to-iloc'
    ctx.rule(R, 'label selection is positional selection at the positions of the labels: every _extract_loc / _drop_loc / '
             'mask / assign loc route translates its key with the index\'s own _loc_to_iloc and hands the result to the iloc route', floor=10)
    prog = ctx.prog
    table = (
        ('Index', '_extract_loc', 'self._extract_iloc(self._loc_to_iloc(key))'),
        ('Index', '_drop_loc', 'self._drop_iloc(self._loc_to_iloc(key))'),
        ('IndexHierarchy', '_extract_loc', 'self._extract_iloc(self._loc_to_iloc(key))'),
        ('IndexHierarchy', '_drop_loc', 'self._drop_iloc(self._loc_to_iloc(key))'),
        ('Frame', '_extract_loc', 'self._extract(*self._compound_loc_to_iloc(key))'),
        ('Frame', '__getitem__', 'self._extract(*self._compound_loc_to_getitem_iloc(key))'),
        ('Series', '__getitem__', 'self._extract_loc(key)'),
        ('Bus', '__getitem__', 'self._extract_loc(key)'),
        ('Bus', '_drop_loc', 'self._drop_iloc(self._series._index._loc_to_iloc(key))'),
    )
    for cname, m, want in table:
        f = prog.method(cname, m, inherited=False)
        rets = [n for n in walk_local(f.node) if isinstance(n, ast.Return)]
        got = norm(rets[-1].value) if rets else ''
        (ctx.ok if got == want else ctx.unk if 'loc_to_iloc' in got or '_extract' in got else ctx.bad)(
            R, f, rets[-1] if rets else f.node, f'returns {got}', key=f'{cname}.{m}')
    # Frame._compound_loc_to_iloc: each axis key goes through its own axis (decided on what the returned pair is made from)
    f = prog.method('Frame', '_compound_loc_to_iloc', inherited=False)
    ex = roles.Expander(f.node)
    rets = [n for n in walk_local(f.node) if isinstance(n, ast.Return)]
    k = f.params[1] if len(f.params) > 1 else 'key'
    good = bool(rets)
    for r in rets:
        if not (isinstance(r.value, ast.Tuple) and len(r.value.elts) == 2):
            good = False
            continue
        row, col = ex.expand(r.value.elts[0]), ex.expand(r.value.elts[1])
        good = good and row and row <= {f'self._index._loc_to_iloc({k}[0])', f'self._index._loc_to_iloc({k})'} \
            and col and col <= {f'self._columns._loc_to_iloc({k}[1])', 'None'} and f'self._columns._loc_to_iloc({k}[1])' in col
    (ctx.ok if good else ctx.bad)(R, f, f.node, 'row key -> index, column key -> columns, returned in (row, column) order' if good else
                                  'the compound key is not translated axis by axis in (row, column) order', key='Frame._compound_loc_to_iloc')
    g = prog.method('Frame', '_compound_loc_to_getitem_iloc', inherited=False)
    ex = roles.Expander(g.node)
    rets = [n for n in walk_local(g.node) if isinstance(n, ast.Return)]
    k = g.params[1] if len(g.params) > 1 else 'key'
    good = bool(rets) and all(ex.expand(r.value) == {f'(None, self._columns._loc_to_iloc({k}))'} for r in rets)
    (ctx.ok if good else ctx.bad)(R, g, g.node, '__getitem__ keys select columns' if good else '__getitem__ key translation changed', key='Frame._compound_loc_to_getitem_iloc')
    sm = prog.method('Series', '_extract_loc', inherited=False)
    ex = roles.Expander(sm.node)
    k = sm.params[1] if len(sm.params) > 1 else 'key'
    subs = [x for x in walk_local(sm.node) if isinstance(x, ast.Subscript) and norm(x.value) in ('self.values', 'self._index.iloc')]
    good = len(subs) >= 2 and all(ex.expand(x.slice) == {f'self._index._loc_to_iloc({k})'} for x in subs)
    (ctx.ok if good else ctx.bad)(R, sm, sm.node, 'Series._extract_loc subscripts values and labels with its index\'s translation of the key' if good else
                                  'Series._extract_loc does not select values and labels at the positions its index gives for the key', key='Series._extract_loc')


def inclusive_stop(ctx: Ctx) -> None:
    R = 'I.inclusive-stop'
    ctx.rule(R, 'label slices include their stop label: in LocMap.map_slice_args, projected on field == SLICE_STOP_ATTR, every '
             'yielded position has had one added on every branch; slice_to_inclusive_slice adds one to a non-None stop; the '
             'no-map fast paths of Index route slices through it', floor=5)
    prog = ctx.prog
    f = prog.func('index.LocMap.map_slice_args')
    # locals by role: the slice field is the target of the loop over SLICE_ATTRS, the position is what the label_to_pos callable (first
    # parameter) returns into
    fld = [lp.target.id for lp in walk_local(f.node) if isinstance(lp, ast.For) and norm(lp.iter) == 'SLICE_ATTRS' and isinstance(lp.target, ast.Name)]
    posn = roles.assigned_from(f.node, lambda v: isinstance(v, ast.Call) and isinstance(v.func, ast.Name) and f.params and v.func.id == f.params[0])
    fnode = roles.canonical(f.node, {'field': fld[0] if fld else None, 'pos': posn})

    class C(flow.Client):
        '''state: frozenset of facts; 'adj' = pos was moved one position in the direction of the step (+ 1, or - 1 under a `step < 0` test: 'desc').'''

        def __init__(self):
            self.yields: tp.List[tp.Tuple[ast.AST, bool]] = []

        def join(self, a, b):
            return a & b

        def refine(self, atom, st, truth):
            t = norm(atom)
            # a test of the step's sign: on its true branch the slice descends and the inclusive stop is one *before*
            if truth and isinstance(atom, ast.Compare) and len(atom.ops) == 1 and isinstance(atom.ops[0], ast.Lt) and norm(atom.comparators[0]) == '0' \
                    and any(isinstance(x, ast.Attribute) and x.attr == 'step' for x in ast.walk(atom.left)):
                return st | {'desc'}
            # projection: field == SLICE_STOP_ATTR
            proj = {'field == SLICE_STOP_ATTR': True, 'field != SLICE_STOP_ATTR': False,
                    'field == SLICE_START_ATTR': False, 'field == SLICE_STEP_ATTR': False,
                    'field != SLICE_STEP_ATTR': True, 'field != SLICE_START_ATTR': True}
            if t in proj and proj[t] != truth:
                return None
            return st

        def on_stmt(self, s, st):
            if isinstance(s, ast.AugAssign) and norm(s.target) == 'pos' and isinstance(s.op, ast.Add):
                if norm(s.value) == '1':
                    return st | ({'adj'} if 'desc' not in st else set())
                return st      # offset added: keeps the fact
            if isinstance(s, ast.AugAssign) and norm(s.target) == 'pos' and isinstance(s.op, ast.Sub) and norm(s.value) == '1':
                return st | ({'adj'} if 'desc' in st else set())
            if isinstance(s, (ast.Assign, ast.AnnAssign)):
                tg = s.targets if isinstance(s, ast.Assign) else [s.target]
                if any(norm(t) == 'pos' for t in tg) and s.value is not None:
                    v = s.value
                    plus = isinstance(v, ast.BinOp) and isinstance(v.op, ast.Add) and norm(v.right) == '1'
                    # pos - 1, possibly `pos - 1 if pos > 0 else None`
                    minus = any(isinstance(x, ast.BinOp) and isinstance(x.op, ast.Sub) and norm(x.right) == '1' and norm(x.left) == 'pos' for x in ast.walk(v))
                    st = st - {'adj'}
                    if (plus and 'desc' not in st) or (minus and 'desc' in st):
                        st = st | {'adj'}
                    return st
            return st

        def on_yield(self, node, st):
            if isinstance(node, ast.Yield) and node.value is not None and norm(node.value) == 'pos':
                self.yields.append((node, 'adj' in st))
            return st
    c = C()
    flow.Engine(c).run(fnode.body, frozenset())
    ctx.require(len(c.yields) >= 2, 'map_slice_args yields positions on the stop projection')
    seen = set()
    for node, ok in c.yields:
        if (node.lineno, ok) in seen:
            continue
        seen.add((node.lineno, ok))
        key = f'yield@{norm(_enclosing_branch(fnode, node))[:50]}'
        (ctx.ok if ok else ctx.bad)(R, f, node, 'for the stop field the yielded position includes + 1 on every path' if ok else
                                    'on some path the stop position is yielded without + 1: a label slice excludes its stop label', key=key)
    g = prog.func('util.slice_to_inclusive_slice')
    import copy
    from sfa.model import _fold_if_assign
    gnode = copy.deepcopy(g.node)       # `if c: stop = a` / `else: stop = b` is the conditional expression
    _fold_if_assign(ast.Module(body=[gnode], type_ignores=[]))
    rets = [n for n in walk_local(gnode) if isinstance(n, ast.Return)]
    inl = roles.Inliner(gnode)
    kparam = g.params[0] if g.params else 'key'
    good = bool(rets)
    for r in rets:
        v = r.value
        if not (isinstance(v, ast.Call) and call_name(v) == 'slice' and len(v.args) >= 2):
            good = False
            continue
        stop = inl.expr(v.args[1])
        # None if key.stop is None else key.stop + 1 (+ offset)
        ok = isinstance(stop, ast.IfExp) and norm(stop.test) in (f'{kparam}.stop is None',) and isinstance(stop.body, ast.Constant) and stop.body.value is None \
            and _adds_one(stop.orelse, f'{kparam}.stop')
        ok = ok or (isinstance(stop, ast.IfExp) and norm(stop.test) in (f'{kparam}.stop is not None',) and isinstance(stop.orelse, ast.Constant) and stop.orelse.value is None
                    and _adds_one(stop.body, f'{kparam}.stop'))
        good = good and ok
    (ctx.ok if good else ctx.bad)(R, g, rets[0] if rets else g.node, 'stop = None if key.stop is None else key.stop + 1 (+ offset)' if good else
                                  'slice_to_inclusive_slice no longer adds one to the stop', key='slice_to_inclusive_slice')
    # fast paths
    for cname, m in (('Index', '_loc_to_iloc'), ('Index', 'loc_to_iloc')):
        h = prog.method(cname, m, inherited=False)
        branches = [n for n in walk_local(h.node) if isinstance(n, ast.If) and norm(n.test) in ('key.__class__ is slice', 'isinstance(key, slice)')]
        ctx.require(len(branches) >= 1, f'{cname}.{m} has its slice branch')
        for b in branches:
            calls = [x for s in b.body for x in ast.walk(s) if isinstance(x, ast.Call) and call_name(x) == 'slice_to_inclusive_slice']
            (ctx.ok if calls else ctx.bad)(R, h, b, 'slice keys on the no-map path go through slice_to_inclusive_slice' if calls else
                                           'a slice key on the no-map (auto-integer) path is used as is: its stop label is excluded', key=f'{cname}.{m}:slice-branch@{b.lineno - h.node.lineno > 40}')


def _adds_one(e: ast.expr, base: str) -> bool:
    '''e is a sum (any association / order) whose terms include `base` and the literal 1, and no subtraction.'''
    terms: tp.List[ast.expr] = []

    def flat(x: ast.expr) -> bool:
        if isinstance(x, ast.BinOp) and isinstance(x.op, ast.Add):
            return flat(x.left) and flat(x.right)
        if isinstance(x, ast.BinOp):
            return False
        terms.append(x)
        return True
    if not flat(e):
        return False
    ones = [t for t in terms if isinstance(t, ast.Constant) and t.value == 1]
    return len(ones) == 1 and any(norm(t) == base for t in terms) and not any(isinstance(t, ast.UnaryOp) for t in terms)


def _enclosing_branch(root: ast.AST, node: ast.AST) -> ast.AST:
    best = node
    for n in ast.walk(root):
        if isinstance(n, ast.If) and any(x is node for s in n.body for x in ast.walk(s)):
            best = n.test
    return best


def absent_label_raises(ctx: Ctx) -> None:
    R = 'I.absent-label-raises'
    ctx.rule(R, 'a label that is absent raises instead of selecting something else: in LocMap.loc_to_iloc every lookup outside '
             'the partial_selection branches is a subscript of the map (KeyError), the tolerant .get is handed only to '
             'map_slice_args where a None position raises LocInvalid, and partial_selection=True is passed only by IndexLevel.loc_to_iloc', floor=6)
    prog = ctx.prog
    f = prog.func('index.LocMap.loc_to_iloc')
    # lookups
    for n in walk_local(f.node):
        if isinstance(n, ast.If) and norm(n.test) == 'partial_selection':
            filt = [x for s in n.body for x in ast.walk(s) if isinstance(x, ast.comprehension) and any('in label_to_pos' in norm(i) for i in x.ifs)]
            (ctx.ok if filt else ctx.unk)(R, f, n, 'partial branch filters with `k in label_to_pos`', key='partial-branch')
    gets = [n for n in walk_local(f.node) if isinstance(n, ast.Attribute) and norm(n) == 'label_to_pos.get']
    for gnode in gets:
        # must be an argument of cls.map_slice_args
        ok = any(isinstance(c, ast.Call) and call_name(c) in ('cls.map_slice_args', 'LocMap.map_slice_args') and any(a is gnode for a in c.args)
                 for c in walk_local(f.node))
        (ctx.ok if ok else ctx.bad)(R, f, gnode, 'label_to_pos.get is used only by map_slice_args' if ok else
                                    'label_to_pos.get (None for an absent label) is used for a direct lookup', key='get-use')
    # non-partial lookups are subscripts
    subs = [n for n in walk_local(f.node) if isinstance(n, ast.Subscript) and norm(n.value) == 'label_to_pos']
    n_direct = 0
    for s in subs:
        n_direct += 1
    (ctx.ok if n_direct >= 4 else ctx.bad)(R, f, f.node, f'{n_direct} direct map subscripts (raise KeyError on an absent label)', key='direct-subscripts')
    # map_slice_args: a None position raises LocInvalid
    m = prog.func('index.LocMap.map_slice_args')
    lookup = m.params[0] if m.params else 'label_to_pos'
    posnames = set(roles.assigned_from_all(m.node, lambda v: isinstance(v, ast.Call) and isinstance(v.func, ast.Name) and v.func.id == lookup))
    checks = [n for n in walk_local(m.node) if isinstance(n, ast.If) and isinstance(n.test, ast.Compare) and len(n.test.ops) == 1 and isinstance(n.test.ops[0], ast.Is)
              and isinstance(n.test.left, ast.Name) and n.test.left.id in posnames and isinstance(n.test.comparators[0], ast.Constant) and n.test.comparators[0].value is None
              and any(isinstance(x, ast.Raise) and x.exc is not None and ('LocInvalid' in norm(x.exc) or 'LocEmpty' in norm(x.exc)) for x in ast.walk(n))]
    n_lookups = len([c for c in walk_local(m.node) if isinstance(c, ast.Call) and call_name(c) == lookup])
    # one of the lookups (coarser datetime start) falls back to a scan, which raises LocEmpty when nothing matches
    (ctx.ok if len(checks) >= n_lookups >= 2 else ctx.bad)(R, m, m.node, f'{n_lookups} lookups, {len(checks)} `pos is None` guards that raise' if len(checks) >= n_lookups
                                                           else f'{n_lookups} label lookups but only {len(checks)} `pos is None -> raise` guards: an absent slice bound yields None', key='slice-none-raises')
    # who may pass partial_selection=True
    n_sites = 0
    for g in prog.all_funcs():
        if isinstance(g.node, ast.Lambda) or getattr(g.node, '_sfa_fully_spliced', False):
            continue        # a private helper all of whose calls were spliced into the callers is judged there
        for c in walk_local(g.node):
            if isinstance(c, ast.Call) and kwarg(c, 'partial_selection') is not None:
                v = kwarg(c, 'partial_selection')
                n_sites += 1
                key = f'partial_selection@{g.qualname}:{norm(v)}'
                if isinstance(v, ast.Name) and v.id == 'partial_selection' and 'partial_selection' in g.params:
                    ctx.ok(R, g, c, 'pass-through of the caller\'s flag', key=key)
                elif isinstance(v, ast.Constant) and v.value is False:
                    ctx.ok(R, g, c, 'False', key=key)
                elif g.qualname == 'index_level.IndexLevel.loc_to_iloc':
                    ctx.ok(R, g, c, 'IndexLevel.loc_to_iloc: per-level list selectors match what each subtree holds', key=key)
                else:
                    ctx.bad(R, g, c, f'partial_selection={norm(v)} passed from {g.qualname}: absent labels are silently skipped on a flat index', key=key)
    ctx.require(n_sites >= 3, 'partial_selection call sites')


def bloc_coordinates(ctx: Ctx) -> None:
    R = 'H.bloc-coordinate-siblings'
    ctx.rule(R, 'the writer of bloc coordinates (TypeBlocks.extract_bloc) and their reader (_assign_from_bloc_by_coordinate) walk the '
             'blocks the same way: a 1-D block contributes (row, t_start), a 2-D block (row, t_start + col); t_start advances by the '
             'block width; extract_bloc pairs them with block[target] of the same target', floor=4)
    prog = ctx.prog
    w = prog.method('TypeBlocks', 'extract_bloc', inherited=False)
    r = prog.method('TypeBlocks', '_assign_from_bloc_by_coordinate', inherited=False)

    def canon(f: FuncInfo) -> ast.AST:
        # locals by role: the block is the target of the loop over self._blocks, the running offset is the local set to 0 before that
        # loop and advanced in it, the block end is the local assigned `offset + 1`
        rl: tp.Dict[str, tp.Optional[str]] = {}
        for holder in ast.walk(f.node):
            for field in ('body', 'orelse'):
                stmts = getattr(holder, field, None)
                if not isinstance(stmts, list):
                    continue
                for i, lp in enumerate(stmts):
                    if isinstance(lp, ast.For) and norm(lp.iter) == 'self._blocks' and isinstance(lp.target, ast.Name):
                        cs = roles.loop_counter(lp, stmts[:i])
                        if cs:
                            rl['t_start'] = cs[0]
                            rl['block'] = lp.target.id
                            rl['t_end'] = roles.assigned_from(lp, lambda v: isinstance(v, ast.BinOp) and isinstance(v.op, ast.Add) and norm(v.left) == cs[0]
                                                              and isinstance(v.right, ast.Constant) and v.right.value == 1)
        return roles.canonical(f.node, rl)
    wn, rn = canon(w), canon(r)
    nodes = {id(w): wn, id(r): rn}

    def coord_forms(f: FuncInfo) -> tp.Set[str]:
        # classes of coordinate pairs, independent of variable names: (x, t_start) and (x, t_start + y)
        out = set()
        for n in ast.walk(nodes[id(f)]):
            if isinstance(n, ast.Tuple) and len(n.elts) == 2 and 't_start' in norm(n.elts[1]) and isinstance(n.ctx, ast.Load):
                second = n.elts[1]
                if norm(second) == 't_start':
                    out.add('(row, offset)')
                elif isinstance(second, ast.BinOp) and isinstance(second.op, ast.Add) and 't_start' in (norm(second.left), norm(second.right)) \
                        and isinstance(second.left, ast.Name) and isinstance(second.right, ast.Name):
                    out.add('(row, offset + col)')
                else:
                    out.add(f'other:{norm(second)}')
        return out
    fw, fr = coord_forms(w), coord_forms(r)
    want = {'(row, offset)', '(row, offset + col)'}
    (ctx.ok if fw == want else ctx.bad)(R, w, w.node, f'coordinate forms written: {sorted(fw)}' if fw == want else
                                        f'extract_bloc writes coordinates {sorted(fw) or "without the block offset"}; expected {sorted(want)}: '
                                        'values of a 2-D block that is not the first block are paired with the wrong column label', key='writer-forms')
    (ctx.ok if fr == want else ctx.bad)(R, r, r.node, f'coordinate forms read: {sorted(fr)}' if fr == want else
                                        f'_assign_from_bloc_by_coordinate looks up {sorted(fr)}; expected {sorted(want)}', key='reader-forms')
    for f in (w, r):
        fn = nodes[id(f)]
        adv = [norm(a) for a in walk_local(fn) if isinstance(a, ast.Assign) and norm(a.targets[0]) == 't_start']
        ends = [norm(a) for a in walk_local(fn) if isinstance(a, ast.Assign) and norm(a.targets[0]) == 't_end']
        good = 't_start = t_end' in adv and 't_start = 0' in adv and 't_end = t_start + 1' in ends and 't_end = t_start + block.shape[1]' in ends
        # every path through the loop body that continues must advance the offset
        loops = [n for n in walk_local(fn) if isinstance(n, ast.For) and norm(n.iter) == 'self._blocks']
        cont_ok = True
        for lp in loops:
            for c in [x for x in ast.walk(lp) if isinstance(x, ast.Continue)]:
                # the statement before `continue` in its block must advance t_start
                for n in ast.walk(lp):
                    for field in ('body', 'orelse'):
                        b = getattr(n, field, None)
                        if isinstance(b, list) and c in b:
                            i = b.index(c)
                            if i == 0 or norm(b[i - 1]) != 't_start = t_end':
                                cont_ok = False
        (ctx.ok if good and cont_ok else ctx.bad)(R, f, f.node, 't_start advances by the block width on every iteration' if good and cont_ok else
                                                  'the running column offset t_start is not advanced by the block width on every path through the loop', key=f'{f.name}:offset')


def nomap_rejects_negative(ctx: Ctx) -> None:
    R = 'I.nomap-negative-label-raises'
    ctx.rule(R, 'sibling agreement of the two label-to-position routes of Index._loc_to_iloc: with a map an absent label raises (KeyError / LocInvalid); on the map-less '
             'route (auto-integer index: labels are the positions 0..n-1) the key is returned as a position, so a label above n-1 fails in NumPy, but a *negative* '
             'integer would be read from the end — each arm of that route that hands back integer labels (integer array, slice bounds, element, list) raises '
             'under a `< 0` test first', floor=4)
    prog = ctx.prog
    f = prog.func('index.Index._loc_to_iloc')
    branch = None
    for n in walk_local(f.node):
        if isinstance(n, ast.If) and '_map is None' in norm(n.test) and 'offset is None' in norm(n.test):
            branch = n
            break
    ctx.require(branch is not None, 'map-less, offset-less branch of Index._loc_to_iloc')

    def guards_negative(stmts: tp.Sequence[ast.stmt]) -> bool:
        for s in stmts:
            for i in ast.walk(s):
                if isinstance(i, ast.If) and any(isinstance(c, ast.Compare) and len(c.ops) == 1 and
                                                 ((isinstance(c.ops[0], ast.Lt) and isinstance(c.comparators[0], ast.Constant) and c.comparators[0].value == 0) or
                                                  (isinstance(c.ops[0], ast.Gt) and isinstance(c.left, ast.Constant) and c.left.value == 0))
                                                 for c in ast.walk(i.test)) \
                        and any(isinstance(x, ast.Raise) for b in i.body for x in ast.walk(b)):
                    return True
        return False
    # the class-dispatch chain
    arms: tp.List[tp.Tuple[str, tp.List[ast.stmt]]] = []
    node: tp.Optional[ast.stmt] = branch.body[0] if branch.body else None
    for s in branch.body:
        cur: tp.Optional[ast.stmt] = s
        while isinstance(cur, ast.If):
            arms.append((norm(cur.test), cur.body))
            cur = cur.orelse[0] if len(cur.orelse) == 1 else None
    wanted = {('ndarray',): 'integer array', ('slice',): 'slice bounds', ('INT_TYPES', 'np.integer', 'Integral', 'int)', 'int,'): 'element', ('list', 'KEY_ITERABLE'): 'list of labels'}
    # statements of the branch that belong to no arm (a catch-all after the dispatch)
    arm_ids = {id(x) for _t, b in arms for st in b for x in ast.walk(st)}
    tail = [st for st in branch.body if not isinstance(st, ast.If) and id(st) not in arm_ids]
    n = 0
    for markers, what in wanted.items():
        arm = [(t, b) for t, b in arms if any(mk in t for mk in markers)]
        key = f'Index._loc_to_iloc:no-map:{what}'
        n += 1
        if not arm and guards_negative(tail):
            ctx.ok(R, f, branch, f'{what}: no arm of its own; the catch-all after the dispatch rejects negative integers', key=key)
        elif not arm:
            ctx.bad(R, f, branch, f'the map-less route has no arm for the {what}: such a key is returned as it is, and a negative integer selects from the end', key=key)
        elif guards_negative(arm[0][1]):
            ctx.ok(R, f, arm[0][1][0], f'{what}: a negative integer raises', key=key)
        else:
            ctx.bad(R, f, arm[0][1][0], f'the {what} arm of the map-less route returns the key without rejecting negative integers: `-1` is not a label of an '
                    'auto-integer index but selects the last position', key=key)
    # the integer-array arm casts other kinds to int: the cast must be checked against the source (1.5 is not the label 1)
    arm = [(t, b) for t, b in arms if 'ndarray' in t]
    if arm:
        casts = [a for s in arm[0][1] for a in ast.walk(s) if isinstance(a, ast.Assign) and isinstance(a.value, ast.Call) and isinstance(a.value.func, ast.Attribute)
                 and a.value.func.attr == 'astype']
        returns_cast = [r for s in arm[0][1] for r in ast.walk(s) if isinstance(r, ast.Return) and isinstance(r.value, ast.Call) and isinstance(r.value.func, ast.Attribute)
                        and r.value.func.attr == 'astype']
        n += 1
        key = 'Index._loc_to_iloc:no-map:integer array:cast-checked'
        checked = any(isinstance(i, ast.If) and any(isinstance(x, ast.Raise) for b in i.body for x in ast.walk(b)) and
                      any(isinstance(c, ast.Compare) and len(c.ops) == 1 and isinstance(c.ops[0], (ast.Eq, ast.NotEq)) for c in ast.walk(i.test))
                      for s in arm[0][1] for i in ast.walk(s))
        if returns_cast or (casts and not checked):
            ctx.bad(R, f, (returns_cast or casts)[0], 'the integer-array arm casts a key of another kind to int and uses it unchecked: `[1.5]` selects the label 1', key=key)
        else:
            ctx.ok(R, f, arm[0][1][0], 'a cast key is compared with its source and a difference raises', key=key)
    ctx.require(n >= 4, 'arms of the map-less route')


def inclusive_stop_direction(ctx: Ctx) -> None:
    R = 'I.inclusive-stop-direction'
    ctx.rule(R, 'a label slice includes its stop label whatever the direction of the step: the iloc stop is one further *in the direction of the step*, so every place '
             'that adds one to a stop position (LocMap.map_slice_args on the stop field, util.slice_to_inclusive_slice) does so under a test of the sign of the step '
             '(and subtracts one on the other branch); an unconditional + 1 makes a descending label slice stop two labels early (`loc["c":"a":-1]` yields only c)', floor=2)
    from sfa.rules.blockrules import _enclosing_ifs
    prog = ctx.prog
    n = 0
    for qual in ('index.LocMap.map_slice_args', 'util.slice_to_inclusive_slice'):
        f = prog.func(qual)
        step_names = {a.targets[0].id for a in walk_local(f.node) if isinstance(a, ast.Assign) and isinstance(a.targets[0], ast.Name)
                      and any(isinstance(x, ast.Attribute) and x.attr == 'step' for x in ast.walk(a.value))}

        def tests_step(t: ast.expr) -> bool:
            return any((isinstance(x, ast.Attribute) and x.attr == 'step') or (isinstance(x, ast.Name) and x.id in step_names) for x in ast.walk(t))
        sites: tp.List[ast.AST] = []
        if qual.endswith('map_slice_args'):
            fld = [lp.target.id for lp in walk_local(f.node) if isinstance(lp, ast.For) and norm(lp.iter) == 'SLICE_ATTRS' and isinstance(lp.target, ast.Name)]
            ctx.require(bool(fld), 'map_slice_args loops over SLICE_ATTRS')
            stop_test = f'{fld[0]} == SLICE_STOP_ATTR'
            for s in walk_local(f.node):
                plus = (isinstance(s, ast.AugAssign) and isinstance(s.op, ast.Add) and norm(s.value) == '1') or \
                    (isinstance(s, ast.Assign) and isinstance(s.value, ast.BinOp) and isinstance(s.value.op, ast.Add) and norm(s.value.right) == '1')
                if plus and any(pol and norm(i.test) == stop_test for i, pol in _enclosing_ifs(f.node, s)):
                    sites.append(s)
        else:
            kparam = f.params[0] if f.params else 'key'
            for b in walk_local(f.node):
                if isinstance(b, ast.BinOp) and isinstance(b.op, ast.Add) and norm(b.right) == '1' and norm(b.left) == f'{kparam}.stop':
                    sites.append(b)
        for i_s, s in enumerate(sites):
            n += 1
            arm = 'datetime' if any(pol and 'datetime64' in norm(i.test) for i, pol in _enclosing_ifs(f.node, s)) else 'label'
            kind = 'aug' if isinstance(s, ast.AugAssign) else ('assign' if isinstance(s, ast.Assign) else 'stop-attr')
            key = f'{qual.split(".", 1)[1]}:stop+1:{kind}@{arm}'
            guarded = any(tests_step(i.test) for i, _p in _enclosing_ifs(f.node, s))
            # an IfExp around it whose test looks at the step
            guarded = guarded or any(isinstance(x, ast.IfExp) and tests_step(x.test) and any(y is s for y in ast.walk(x)) for x in walk_local(f.node))
            if guarded:
                ctx.ok(R, f, s, 'the + 1 is applied under a test of the step\'s sign', key=key)
            else:
                ctx.bad(R, f, s, f'`{norm(s)[:50]}` moves the stop position forward whatever the sign of the step: with a descending step the slice stops two labels '
                        'before its stop label instead of including it', key=key)
    ctx.require(n >= 2, 'places that make a label-slice stop inclusive')


def slice_bounds_offset(ctx: Ctx) -> None:
    R = 'I.slice-bounds-offset'
    ctx.rule(R, 'LocMap.map_slice_args serves an index that sits at an offset inside a hierarchy: projected on "the offset applies" and "the field is a bound" '
             '(start / stop, not the step), every position it yields has had the offset added on every path — exact labels, same-unit datetimes and '
             'coarser-unit datetimes alike; a branch that yields a position local to the sub-index selects rows of the first outer group', floor=2)
    prog = ctx.prog
    f = prog.func('index.LocMap.map_slice_args')
    fld = [lp.target.id for lp in walk_local(f.node) if isinstance(lp, ast.For) and norm(lp.iter) == 'SLICE_ATTRS' and isinstance(lp.target, ast.Name)]
    posn = roles.assigned_from(f.node, lambda v: isinstance(v, ast.Call) and isinstance(v.func, ast.Name) and f.params and v.func.id == f.params[0])
    # the flag "offset applies": a local assigned from a test of the offset parameter against None
    offp = [p for p in f.params if p == 'offset'] or f.params[-1:]
    flag = roles.assigned_from(f.node, lambda v: any(isinstance(x, ast.Name) and x.id == offp[0] for x in ast.walk(v)) and any(isinstance(x, ast.Constant) and x.value is None for x in ast.walk(v)))
    ctx.require(bool(fld) and posn is not None and flag is not None, 'map_slice_args: field loop, position local, offset flag')
    fnode = roles.canonical(f.node, {'field': fld[0], 'pos': posn, 'offset_apply': flag, 'offset': offp[0]})

    class C(flow.Client):
        def __init__(self):
            self.yields: tp.List[tp.Tuple[ast.AST, bool]] = []

        def join(self, a, b):
            return a & b

        def refine(self, atom, st, truth):
            t = norm(atom)
            if t == 'offset_apply' and not truth:
                return None         # scenario: the offset applies
            proj = {'field == SLICE_STEP_ATTR': False, 'field != SLICE_STEP_ATTR': True}
            if t in proj and proj[t] != truth:
                return None         # scenario: the field is a bound
            return st

        def on_stmt(self, s, st):
            if isinstance(s, ast.AugAssign) and norm(s.target) == 'pos' and isinstance(s.op, ast.Add):
                if norm(s.value) == 'offset':
                    return st | {'off'}
                return st
            if isinstance(s, (ast.Assign, ast.AnnAssign)):
                tg = s.targets if isinstance(s, ast.Assign) else [s.target]
                if any(norm(t) == 'pos' for t in tg) and s.value is not None:
                    v = s.value
                    keeps = any(isinstance(x, ast.Name) and x.id == 'pos' for x in ast.walk(v))         # pos = pos + 1 and the like
                    adds = any(isinstance(x, ast.BinOp) and isinstance(x.op, ast.Add) and 'offset' in (norm(x.left), norm(x.right)) for x in ast.walk(v))
                    if adds:
                        return st | {'off'}
                    return st if keeps else st - {'off'}
            return st

        def on_yield(self, node, st):
            if isinstance(node, ast.Yield) and node.value is not None and norm(node.value) == 'pos':
                self.yields.append((node, 'off' in st))
            return st
    c = C()
    flow.Engine(c).run(fnode.body, frozenset())
    ctx.require(len(c.yields) >= 2, 'map_slice_args yields positions for the bounds')
    seen = set()
    for node, ok in c.yields:
        k = (node.lineno, ok)
        if k in seen:
            continue
        seen.add(k)
        key = f'yield@{norm(_enclosing_branch(fnode, node))[:50]}'
        (ctx.ok if ok else ctx.bad)(R, f, node, 'the offset has been added on every path to this yield' if ok else
                                    'on some path a start / stop position is yielded without the offset although it applies: the slice addresses the first outer group', key=key)


def nomap_offset_membership(ctx: Ctx) -> None:
    R = 'I.nomap-offset-membership'
    ctx.rule(R, 'sibling agreement, map-less route *with an offset* (an auto-integer index as an inner level of a hierarchy — what Frame.from_concat_items of default-indexed '
             'frames builds): like LocMap.loc_to_iloc it must (a) raise for a key that is not one of its labels 0..n-1 in the element, list and integer-array arms '
             '(a range test with a raise) before adding the offset — otherwise the position of a label of the *next* group is returned, (b) honour partial_selection in '
             'the list and array arms (filter instead of raise), and (c) give a label slice explicit bounds (never hand back the helper\'s None ends)', floor=6)
    prog = ctx.prog
    f = prog.func('index.Index._loc_to_iloc')
    branch = None
    for n_ in walk_local(f.node):
        if isinstance(n_, ast.If) and '_map is None' in norm(n_.test) and 'offset is not None' in norm(n_.test):
            branch = n_
            break
    ctx.require(branch is not None, 'map-less branch with an offset in Index._loc_to_iloc')
    arms: tp.List[tp.Tuple[str, tp.List[ast.stmt]]] = []
    tail: tp.List[ast.stmt] = []
    for s in branch.body:
        # a class-dispatch arm tests the kind of the key (slice / ndarray / list); anything else belongs to the element path after the dispatch
        if isinstance(s, ast.If) and any(mk in norm(s.test) for mk in ('slice', 'ndarray', 'list', 'KEY_ITERABLE')):
            cur: tp.Optional[ast.stmt] = s
            while isinstance(cur, ast.If):
                arms.append((norm(cur.test), cur.body))
                cur = cur.orelse[0] if len(cur.orelse) == 1 else None
        else:
            tail.append(s)

    def range_raise(stmts: tp.Sequence[ast.stmt]) -> bool:
        '''a raise under a test that compares with 0 and with a size (two-sided range), or two one-sided tests'''
        lows = highs = False
        for s in stmts:
            for i in ast.walk(s):
                if isinstance(i, ast.If) and any(isinstance(x, ast.Raise) for b in i.body for x in ast.walk(b)):
                    for c in ast.walk(i.test):
                        if isinstance(c, ast.Compare):
                            txt = norm(c)
                            if '0' in [norm(c.left)] + [norm(x) for x in c.comparators]:
                                lows = True
                            if any(isinstance(o, (ast.Lt, ast.LtE, ast.Gt, ast.GtE)) for o in c.ops) and any(w in txt for w in ('size', 'len(', '__len__')):
                                highs = True
                        if isinstance(c, ast.Call) and isinstance(c.func, ast.Attribute) and c.func.attr == 'all' and isinstance(i.test, ast.UnaryOp):
                            lows = highs = True        # `if not valid.all(): raise`, valid a two-sided mask
        return lows and highs

    def consults_partial(stmts: tp.Sequence[ast.stmt]) -> bool:
        return any(isinstance(i, (ast.If, ast.IfExp)) and 'partial_selection' in norm(i.test) for s in stmts for i in ast.walk(s))
    n = 0
    checks = [(('slice',), 'slice'), (('ndarray',), 'integer array'), (('list', 'KEY_ITERABLE'), 'list of labels')]
    for markers, what in checks:
        arm = [(t, b) for t, b in arms if any(mk in t for mk in markers)]
        ctx.require(bool(arm), f'{what} arm of the map-less offset branch')
        body = arm[0][1]
        if what == 'slice':
            n += 1
            key = 'Index._loc_to_iloc:no-map+offset:slice'
            direct = [r for s in body for r in ast.walk(s) if isinstance(r, ast.Return) and isinstance(r.value, ast.Call) and call_name(r.value) == 'slice_to_inclusive_slice']
            explicit = [r for s in body for r in ast.walk(s) if isinstance(r, ast.Return) and isinstance(r.value, ast.Call) and call_name(r.value) == 'slice'
                        and all('offset' in norm(a) for a in r.value.args[:2])]
            if direct:
                ctx.bad(R, f, direct[0], f'`{norm(direct[0])[:60]}` hands back the helper\'s slice as it is: an open end (None) runs to the edge of the whole hierarchy', key=key)
            elif explicit:
                ctx.ok(R, f, explicit[0], 'an ascending label slice gets explicit bounds over the offset', key=key)
            else:
                ctx.unk(R, f, body[0], 'slice arm in an unrecognised form', key=key)
            continue
        for aspect, pred, msg in (('membership', range_raise, 'adds the offset to a key without a range test that raises: a label this sub-level does not hold is answered with the '
                                   'position of a label of the next group'),
                                  ('partial', consults_partial, 'ignores partial_selection: a list selector inside an HLoc that names a label absent from this sub-level must be '
                                   'filtered, not shifted into the next group')):
            n += 1
            key = f'Index._loc_to_iloc:no-map+offset:{what}:{aspect}'
            (ctx.ok if pred(body) else ctx.bad)(R, f, body[0], f'{what}: {aspect} handled' if pred(body) else f'the {what} arm {msg}', key=key)
    # element: the statements after the dispatch
    n += 1
    key = 'Index._loc_to_iloc:no-map+offset:element:membership'
    (ctx.ok if range_raise(tail) else ctx.bad)(R, f, tail[-1] if tail else branch, 'element: a range test raises before the offset is added' if range_raise(tail) else
                                               'the element arm returns `key + offset` unchecked: `HLoc[a, 5]` on a 3-label sub-level answers with a position in the next group', key=key)
    ctx.require(n >= 6, 'arms of the map-less offset branch')
