'''C06 rules: label alignment of binary operators (decided per path on the symbolic store), order-keeping shortcuts of the
set functions, and agreement of the 1-D / 2-D set-function siblings.'''
from __future__ import annotations

import ast
import typing as tp

from sfa.model import AnalysisError
from sfa.model import FuncInfo
from sfa.model import call_name
from sfa.model import kwarg
from sfa.model import norm
from sfa.model import walk_local
from sfa.report import Ctx
from sfa.symenv import SymEnv


def _root(e: tp.Optional[ast.AST]) -> tp.Optional[str]:
    '''Leftmost name of an attribute / call / subscript chain.'''
    while e is not None:
        if isinstance(e, ast.Name):
            return e.id
        if isinstance(e, ast.Attribute):
            e = e.value
        elif isinstance(e, ast.Call):
            e = e.func
        elif isinstance(e, ast.Subscript):
            e = e.value
        else:
            return None
    return None


def _unions(e: ast.AST) -> tp.Set[str]:
    return {norm(c) for c in ast.walk(e) if isinstance(c, ast.Call) and isinstance(c.func, ast.Attribute) and c.func.attr == 'union'
            and _root(c.func.value) == 'self' and c.args and _root(c.args[0]) == 'other'}


def _reindex_calls(e: ast.AST, who: str) -> tp.List[ast.Call]:
    return [c for c in ast.walk(e) if isinstance(c, ast.Call) and isinstance(c.func, ast.Attribute) and c.func.attr == 'reindex'
            and isinstance(c.func.value, ast.Name) and c.func.value.id == who]


def _label_args(c: ast.Call, positional_axis: str) -> tp.Dict[str, str]:
    out: tp.Dict[str, str] = {}
    if c.args:
        out[positional_axis] = norm(c.args[0])
    for k in c.keywords:
        if k.arg in ('index', 'columns'):
            out[k.arg] = norm(k.value)
    return out


def binary_alignment(ctx: Ctx) -> None:
    R = 'E.align[binary]'
    ctx.rule(R, 'on every path of Series/Frame._ufunc_binary_operator on which `other` is a labelled container not known to have equal labels, '
             'both operands are reindexed to one and the same union index (self\'s labels united with other\'s) on each aligned axis, that union '
             'labels the result on that axis, the other axis keeps self\'s labels, and the operator receives self\'s data as left operand and '
             'other\'s as right operand', floor=8)
    prog = ctx.prog
    n = 0
    for cname in ('Series', 'Frame'):
        f = prog.method(cname, '_ufunc_binary_operator', inherited=False)
        se = SymEnv(f.node, watch=lambda x: isinstance(x, ast.Return)).run()
        for node, worlds in se.all_sites():
            for w in sorted(worlds):
                facts = se.facts(w)
                if any(facts.get(k) for k in ("operator.__name__ == 'matmul'", "operator.__name__ == 'rmatmul'")):
                    continue
                call = se.subst(node.value, dict(w[0]))
                if not (isinstance(call, ast.Call) and norm(call.func) in ('self.__class__', cname)):
                    continue
                n += 1
                labelled = [k for k, v in facts.items() if v and k in ('isinstance(other, Series)', 'isinstance(other, Frame)')]
                known_equal = any(v and k.startswith('self._index.equals(other._index') for k, v in facts.items())
                path = ' & '.join(sorted(k for k, v in facts.items() if v and len(k) < 60)) or 'other unlabelled'
                key = f'{cname}:{path}'
                data = call.args[0] if call.args else None
                labels = {k.arg: norm(k.value) for k in call.keywords if k.arg in ('index', 'columns')}
                own = {'index': 'self._index', 'columns': 'self._columns'}
                problems: tp.List[str] = []
                us = _unions(call)
                positional_other = 'index'
                if labelled and not known_equal:
                    s_calls, o_calls = _reindex_calls(data, 'self'), _reindex_calls(data, 'other')
                    if not s_calls or not o_calls:
                        problems.append('the operands are not both reindexed: values are paired by position, not by label')
                    s_axes: tp.Dict[str, str] = {}
                    for c in s_calls:
                        s_axes.update(_label_args(c, 'index'))
                    o_targets: tp.Set[str] = set()
                    for c in o_calls:
                        o_targets |= set(_label_args(c, positional_other).values())
                    for ax, t in s_axes.items():
                        if t not in us:
                            problems.append(f'self is reindexed on {ax} to `{t[:50]}`, which is not the union of self\'s and other\'s labels')
                        elif not t.startswith(own[ax] + '.union('):
                            problems.append(f'the {ax} union `{t[:50]}` is not built from self\'s own {ax}')
                        if labels.get(ax) != t:
                            problems.append(f'the result\'s {ax} is `{labels.get(ax, "?")[:50]}` but the data were reindexed to `{t[:50]}`')
                    if s_axes and o_targets != set(s_axes.values()):
                        problems.append('self and other are reindexed to different label sets')
                    for ax, t in labels.items():
                        if ax not in s_axes and t != own[ax]:
                            problems.append(f'the result\'s {ax} is `{t[:50]}` although the data keep self\'s {ax}')
                else:
                    for ax, t in labels.items():
                        if t != own[ax]:
                            problems.append(f'the result\'s {ax} is `{t[:50]}` although the data are not reindexed')
                    if _reindex_calls(data, 'self') or _reindex_calls(data, 'other'):
                        pass        # harmless
                # operand order
                ops = [c for c in ast.walk(data) if isinstance(c, ast.Call) and (call_name(c) == 'apply_binary_operator' or (isinstance(c.func, ast.Attribute) and c.func.attr == '_ufunc_binary_operator'))] if data is not None else []
                if len(ops) != 1:
                    problems.append('the data are not the result of one operator application')
                else:
                    op = ops[0]
                    left = kwarg(op, 'values') if call_name(op) == 'apply_binary_operator' else op.func.value
                    right = kwarg(op, 'other')
                    if _root(left) != 'self':
                        problems.append(f'the left operand `{norm(left)[:40]}` is not self\'s data')
                    if right is None or _root(right) not in ('other', 'iterable_to_array_nd'):
                        problems.append(f'the right operand `{norm(right)[:40]}` is not other\'s data')
                    if norm(kwarg(op, 'operator')) != 'operator':
                        problems.append('the operator is not passed through')
                (ctx.bad if problems else ctx.ok)(R, f, node, '; '.join(problems) if problems else
                                                  (f'aligned on {sorted(us)}' if labelled and not known_equal else 'labels of self kept; no alignment needed'), key=key)
    ctx.require(n >= 8, 'result paths of the binary operator workers')


# ---------------------------------------------------------------------------------------
# set functions

_VOCAB = {
    'func == np.union1d': 'union', 'func == np.intersect1d': 'intersection', 'func == np.setdiff1d': 'difference',
    'len(array) == 0': 'array-empty', 'len(other) == 0': 'other-empty', 'assume_unique': 'unique',
    'assume_unique is True': 'unique', 'assume_unique == True': 'unique', 'bool(assume_unique)': 'unique',
    '(array == other).all(axis=None)': 'equal', 'array == other': 'equal',
}


def _shortcut_signature(ctx: Ctx, R: str, f: FuncInfo) -> tp.Set[tp.Tuple[str, tp.FrozenSet[str]]]:
    se = SymEnv(f.node, watch=lambda x: isinstance(x, ast.Return), max_worlds=1024).run()
    sig: tp.Set[tp.Tuple[str, tp.FrozenSet[str]]] = set()
    n = 0
    for node, worlds in se.all_sites():
        for w in sorted(worlds):
            v = se.subst(node.value, dict(w[0])) if node.value is not None else None
            t = norm(v) if v is not None else ''
            if t in ('array', 'other'):
                kind = t
            elif t.startswith('np.array(EMPTY_TUPLE'):
                kind = 'empty'
            else:
                continue            # a computed result, not a shortcut
            facts = se.facts(w)
            if any(k.startswith('~') or 'frozenset(' in k or 'sorted(' in k or '.kind ==' in k for k in facts):
                continue            # past the shortcut prefix: the result is computed from the two sets
            n += 1
            true = frozenset(_VOCAB[k] for k, val in facts.items() if val and k in _VOCAB)
            false = frozenset(_VOCAB[k] for k, val in facts.items() if not val and k in _VOCAB)
            ok = False
            if kind == 'other':
                ok = {'union', 'array-empty', 'unique'} <= true
            elif kind == 'array':
                ok = 'unique' in true and ({'union', 'other-empty'} <= true or {'difference', 'other-empty'} <= true or ('equal' in true and 'difference' in false))
            else:
                ok = ('intersection' in true and ('array-empty' in true or 'other-empty' in true)) or {'difference', 'array-empty'} <= true \
                    or ('equal' in true and 'difference' in true and 'unique' in true)
            # the equal-operands shortcut is what keeps the order of identical operands: it may be conditioned on uniqueness, equal size and
            # element-wise equality only — any further requirement (equal dtype, ...) makes identical operands lose their order when it fails
            if 'equal' in true and kind in ('array', 'empty'):
                allowed_extra = ('len(array) == len(other)', 'array.shape == other.shape', 'isinstance(array == other, np.ndarray)', 'isinstance(array == other, BOOL_TYPES)',
                                 'array.ndim == 2 and other.ndim == 2', 'array.ndim == 2', 'other.ndim == 2')
                extra = sorted(k for k, val in facts.items() if val and k not in _VOCAB and k not in allowed_extra and not k.startswith('~'))
                key2 = f'{f.name}:equal-shortcut-conditions@{"+".join(sorted(true))}'
                (ctx.ok if not extra else ctx.bad)(R, f, node, 'the equal-operands shortcut requires only uniqueness, equal size and element-wise equality' if not extra else
                                                   f'the equal-operands shortcut additionally requires {extra[:3]}: identical operands for which that fails are sorted instead of keeping their order', key=key2)
            key = f'{f.name}:return-{kind}@{"+".join(sorted(true))}'
            (ctx.ok if ok else ctx.bad)(R, f, node, f'returns {kind} under {sorted(true)}' if ok else
                                        f'returns {"an operand unchanged (" + kind + ")" if kind != "empty" else "an empty array"} under {sorted(true)} (not {sorted(false)}): '
                                        'that is not what the set operation prescribes for such operands, or the operand is not known to be duplicate-free', key=key)
            sig.add((kind, true - {'unique'} if kind == 'empty' else true))
    ctx.require(n >= 6, f'shortcut returns of {f.name}')
    return sig


def set_shortcuts(ctx: Ctx) -> None:
    R = 'I.set-shortcuts'
    ctx.rule(R, 'every early return of _ufunc_set_1d / _ufunc_set_2d that hands back an operand unchanged or an empty array does so only under the '
             'conditions set algebra allows (union with an empty side, difference by an empty set, equal operands, intersection with an empty side, ...), '
             'and an operand is handed back only when assume_unique holds; the 1-D and 2-D functions take the same shortcuts', floor=12)
    prog = ctx.prog
    f1 = prog.func('util._ufunc_set_1d')
    f2 = prog.func('util._ufunc_set_2d')
    s1 = _shortcut_signature(ctx, R, f1)
    s2 = _shortcut_signature(ctx, R, f2)
    same = s1 == s2
    (ctx.ok if same else ctx.bad)(R, f2, f2.node, f'{len(s1)} shortcut cases, identical in the 1-D and 2-D functions' if same else
                                  f'the 1-D and 2-D set functions disagree on their shortcuts: only 1-D {sorted((k, sorted(v)) for k, v in s1 - s2)}, only 2-D {sorted((k, sorted(v)) for k, v in s2 - s1)}', key='siblings')


def assume_unique_provenance(ctx: Ctx) -> None:
    R = 'I.assume-unique-provenance'
    ctx.rule(R, 'assume_unique=True reaches the set functions only with operands that are the values of index objects (self.values of an index, '
             'other.values under isinstance(other, IndexBase), parameters annotated as indices), or as the uniqueness flag computed by '
             'iterable_to_array_1d, or as a caller\'s own assume_unique passed through; raw arrays and converted iterables get False', floor=8)
    prog = ctx.prog
    n = 0
    for f in prog.all_funcs():
        if isinstance(f.node, ast.Lambda):
            continue
        calls = [c for c in walk_local(f.node) if isinstance(c, ast.Call) and kwarg(c, 'assume_unique') is not None]
        if not calls:
            continue
        callee_ok = [c for c in calls if not call_name(c).startswith('np.')]
        if not callee_ok:
            continue
        ids = {id(c) for c in callee_ok}
        se = SymEnv(f.node, watch=lambda x: id(x) in ids, max_worlds=1024).run()
        top = f
        while top.parent is not None:
            top = top.parent
        for c in callee_ok:
            worlds = se.at(c)
            for w in sorted(worlds):
                n += 1
                v = se.text(kwarg(c, 'assume_unique'), w)
                facts = se.facts(w)
                key = f'{f.qualname.split(".", 1)[1]}:{call_name(c)}:{v[:40]}'
                if v == 'False':
                    ctx.ok(R, f, c, 'assume_unique=False', key=key)
                elif v == 'assume_unique' and 'assume_unique' in f.params:
                    ctx.ok(R, f, c, 'the caller\'s own flag passed through', key=key)
                elif v.startswith('iterable_to_array_1d(') and v.endswith('[1]'):
                    ctx.ok(R, f, c, 'uniqueness flag computed by iterable_to_array_1d', key=key)
                elif v == 'array_is_unique and other_is_unique' and {'array_is_unique', 'other_is_unique'} <= set(f.params):
                    ctx.ok(R, f, c, 'conjunction of the caller\'s own per-operand flags', key=key)
                elif v == 'True':
                    ops = [se.text(a, w) for a in c.args[:2]]
                    if call_name(c) == 'partial':
                        # partial(ufunc_set_iter, ..., assume_unique=True): the operands are the elements of an Iterable[IndexBase] parameter
                        anns = [norm(top.param_annotation(p)) if top.param_annotation(p) is not None else '' for p in top.params]
                        good = any('IndexBase' in a for a in anns)
                        (ctx.ok if good else ctx.bad)(R, f, c, 'operands are the indices of an Iterable[IndexBase] parameter' if good else
                                                      'assume_unique=True is fixed for operands that are not known to be indices', key=key)
                        continue
                    bad = []
                    for o in ops:
                        base = o[:-len('.values')] if o.endswith('.values') else None
                        if base is None:
                            bad.append(o)
                        elif base == 'self' and top.cls is not None and any(k.name in ('IndexBase',) for k in top.cls.mro + [top.cls]):
                            pass
                        elif facts.get(f'isinstance({base}, IndexBase)') or facts.get(f'isinstance({base}, Index)'):
                            pass
                        elif base in top.params and top.param_annotation(base) is not None and 'Index' in norm(top.param_annotation(base)):
                            pass
                        elif base.startswith('reassigned('):
                            bad.append(o)
                        else:
                            bad.append(o)
                    (ctx.ok if not bad and len(ops) == 2 else ctx.bad)(R, f, c, f'both operands are index values: {ops}' if not bad and len(ops) == 2 else
                                                                     f'assume_unique=True with operand(s) {bad or ops} not known to be the values of an index: duplicates survive an order-keeping shortcut', key=key)
                else:
                    ctx.unk(R, f, c, f'assume_unique={v[:60]}', key=key)
    ctx.require(n >= 8, 'assume_unique call sites')


_AXIS_OF = {'_index': 'index', 'index': 'index', '_columns': 'columns', 'columns': 'columns'}


def axis_crossing(ctx: Ctx) -> None:
    R = 'I.axis-crossing'
    ctx.rule(R, 'wherever a container\'s own axis labels (x._index / x.index, x._columns / x.columns) are related — equals, union / intersection / '
             'difference / isin, IndexCorrespondence.from_correspondence, ==, !=, length comparison — to the `index` or `columns` parameter of the '
             'function, it is the parameter of the same axis: the alignment shortcuts of reindex and concatenation never compare the row labels with '
             'the requested columns or vice versa', floor=10)
    prog = ctx.prog
    n = 0
    for f in prog.all_funcs():
        if isinstance(f.node, ast.Lambda):
            continue
        top = f
        while top.parent is not None:
            top = top.parent
        params = set(top.params) | set(f.params)
        if not ({'index', 'columns'} & params):
            continue
        for c in walk_local(f.node):
            pairs: tp.List[tp.Tuple[ast.expr, ast.expr]] = []
            if isinstance(c, ast.Call) and isinstance(c.func, ast.Attribute) and c.func.attr in ('equals', 'union', 'intersection', 'difference', 'isin') and c.args:
                pairs.append((c.func.value, c.args[0]))
            if isinstance(c, ast.Call) and norm(c.func).endswith('from_correspondence') and len(c.args) == 2:
                pairs.append((c.args[0], c.args[1]))
            if isinstance(c, ast.Compare) and len(c.ops) == 1:
                pairs.append((c.left, c.comparators[0]))
            for a, b in pairs:
                for x, y in ((a, b), (b, a)):
                    xx = x.args[0] if isinstance(x, ast.Call) and norm(x.func) == 'len' and x.args else x
                    yy = y.args[0] if isinstance(y, ast.Call) and norm(y.func) == 'len' and y.args else y
                    if isinstance(xx, ast.Attribute) and xx.attr in _AXIS_OF and isinstance(yy, ast.Name) and yy.id in ('index', 'columns') and yy.id in params:
                        n += 1
                        good = _AXIS_OF[xx.attr] == yy.id
                        key = f'{f.qualname.split(".", 1)[1]}:{norm(c)[:60]}'
                        (ctx.ok if good else ctx.bad)(R, f, c, f'{norm(xx)} related to `{yy.id}`' if good else
                                                      f'`{norm(c)[:70]}` relates the {_AXIS_OF[xx.attr]} labels `{norm(xx)}` to the `{yy.id}` argument: the two axes are crossed, '
                                                      'so an alignment step is skipped or applied on the wrong axis', key=key)
    ctx.require(n >= 10, 'axis-relational sites')


def correspondence_guards(ctx: Ctx) -> None:
    R = 'I.correspondence-guard'
    ctx.rule(R, 'an IndexCorrespondence with no common labels carries iloc_src = iloc_dst = None (nothing to transfer): every read of X.iloc_src / X.iloc_dst / '
             'X.iloc_src_fancy() is reached only on paths on which X.has_common or X.is_subset is known true (per path, on the branch facts of the symbolic store); '
             'indexing with None would copy every source row into every destination row (values paired by position, not by label) or raise', floor=10)
    prog = ctx.prog
    n = 0
    for f in prog.all_funcs():
        if isinstance(f.node, ast.Lambda):
            continue
        reads = [a for a in walk_local(f.node) if isinstance(a, ast.Attribute) and a.attr in ('iloc_src', 'iloc_dst', 'iloc_src_fancy') and isinstance(a.value, ast.Name)
                 and isinstance(a.ctx, ast.Load)]
        if not reads or f.module.short == 'index_correspondence':
            continue
        ids = {id(a) for a in reads}
        se = SymEnv(f.node, watch=lambda x: id(x) in ids, max_worlds=1024, track=set(),
                    keep_fact=lambda t: t.endswith('.has_common') or t.endswith('.is_subset') or t.endswith(' is None') or t.endswith(' is not None')).run()
        for a in reads:
            x = a.value.id
            worlds = se.at(a)
            if not worlds:
                continue
            n += 1
            bad_worlds = [w for w in worlds if not (se.facts(w).get(f'{x}.has_common') is True or se.facts(w).get(f'{x}.is_subset') is True)]
            key = f'{f.qualname.split(".", 1)[1]}:{x}.{a.attr}@{_guard_sig(se, worlds, x)}'
            if not bad_worlds:
                ctx.ok(R, f, a, f'{x}.{a.attr} is read only where {x}.has_common / {x}.is_subset holds', key=key)
            else:
                fx = sorted(k for k, v in se.facts(sorted(bad_worlds)[0]).items() if len(k) < 50 and (v or k.startswith(x)))
                ctx.bad(R, f, a, f'{x}.{a.attr} is read on a path where {x} may have no common labels (facts on that path: {fx[:4]}): it is None there, so the '
                        'subscript selects / assigns every row at once — source rows land under labels they do not belong to (or the call raises)', key=key)
    ctx.require(n >= 10, 'reads of IndexCorrespondence positions')


def _guard_sig(se: SymEnv, worlds, x: str) -> str:
    sigs = set()
    for w in worlds:
        f = se.facts(w)
        sigs.add(('S' if f.get(f'{x}.is_subset') else '') + ('C' if f.get(f'{x}.has_common') else ''))
    return '|'.join(sorted(sigs))
