'''C06 Index set algebra and label alignment of binary operators.'''
from sfa.report import Ctx
from sfa.rules import table

LEVEL_TEXT = (
    'Static decision of structural clauses of C06: (b) the operator-dunder table of ContainerOperand (29 methods: each passes the like-named operator function, reflected forms swap operands and are named r<op>) and the operator names special-cased by apply_binary_operator are names that table produces, with operands in source order. Not decided: NumPy set-operation results, NaN labels, the values of op(a, b).')

CLAIM = dict(
    text=LEVEL_TEXT,
    technique='declarative operator-table extraction and comparison (every opcode has the right handler)',
    design_ref='DESIGN.md section 2.G and section 3 C06',
)


def run(ctx: Ctx) -> None:
    table.t1_operators(ctx)
