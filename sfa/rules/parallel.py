'''C18 rules: order-preserving executor primitives, single-pass label/result pairing, surfaced errors.'''
from __future__ import annotations

import ast
import typing as tp

from sfa.model import AnalysisError
from sfa.model import FuncInfo
from sfa.model import call_name
from sfa.model import kwarg
from sfa.model import norm
from sfa.model import walk_local
from sfa.report import Ctx

UNORDERED = ('as_completed', 'wait', 'imap_unordered', 'imap', 'apply_async', 'map_async', 'add_done_callback', 'starmap_async')
PARALLEL_SITES = ('node_iter.IterNodeDelegate._apply_iter_items_parallel', 'batch.Batch._apply_pool', 'batch.Batch._apply_pool_except',
                  'store_zip._StoreZip.read_many', 'store_zip._StoreZip.write')


def ordered_primitives(ctx: Ctx) -> None:
    R = 'I.parallel-ordered-primitives'
    ctx.rule(R, 'worker results are consumed only through order-preserving primitives: Executor.map (submission order) or futures '
             'read back in submission order; as_completed / wait / imap_unordered / callbacks do not occur in core; every pool is '
             'given the configured worker count and chunk size', floor=6)
    prog = ctx.prog
    n_names = 0
    for m in prog.modules.values():
        for n in ast.walk(m.tree):
            name = n.id if isinstance(n, ast.Name) else n.attr if isinstance(n, ast.Attribute) else None
            if isinstance(n, ast.alias):
                name = n.name.split('.')[-1]
            if name is None:
                continue
            n_names += 1
            if name in UNORDERED:
                ctx.bad(R, f'{m.short}.<module>', n if hasattr(n, 'lineno') else None, f'`{name}` yields results in completion order: labels zipped with them are shifted '
                        'whenever tasks finish out of order', key=f'{m.short}:{name}', file=m.relpath)
    fx = ast.parse('from concurrent.futures import as_completed\nfor f in as_completed(fs): pass')
    if not any(isinstance(n, ast.Name) and n.id in UNORDERED for n in ast.walk(fx)):
        raise AnalysisError('positive fixture of I.parallel-ordered-primitives no longer matches')
    ctx.ok(R, 'core.<all names>', None, f'{n_names} names scanned; none of {UNORDERED} (fixture matched)', key='no-unordered', file='static_frame/core')
    for qual in PARALLEL_SITES:
        f = prog.func(qual)
        maps = [c for c in ast.walk(f.node) if isinstance(c, ast.Call) and isinstance(c.func, ast.Attribute) and c.func.attr == 'map'
                and norm(c.func.value) == 'executor']
        submits = [c for c in ast.walk(f.node) if isinstance(c, ast.Call) and isinstance(c.func, ast.Attribute) and c.func.attr == 'submit']
        key = f'site:{qual.split(".", 1)[1]}'
        if maps:
            cs = kwarg(maps[0], 'chunksize')
            pools = [c for c in ast.walk(f.node) if isinstance(c, ast.Call) and kwarg(c, 'max_workers') is not None]
            good = cs is not None and not isinstance(cs, ast.Constant) and pools and not isinstance(kwarg(pools[0], 'max_workers'), ast.Constant)
            (ctx.ok if good else ctx.bad)(R, f, maps[0], f'executor.map(chunksize={norm(cs)}) in a pool with max_workers={norm(kwarg(pools[0], "max_workers")) if pools else "?"}' if good else
                                          'the pool ignores the configured worker count / chunk size', key=key)
        elif submits:
            # futures appended in submission order and read back by zipping with the labels
            appended = any(isinstance(c, ast.Call) and isinstance(c.func, ast.Attribute) and c.func.attr == 'append' and norm(c.func.value) == 'futures'
                           and c.args and c.args[0] is submits[0] for c in ast.walk(f.node))
            readback = any(isinstance(n, ast.For) and norm(n.iter) == 'zip(labels, futures)' for n in ast.walk(f.node))
            (ctx.ok if appended and readback else ctx.bad)(R, f, submits[0], 'futures are collected in submission order and read back with zip(labels, futures)' if appended and readback else
                                                           'futures are not read back in submission order', key=key)
        else:
            ctx.bad(R, f, f.node, 'no executor.map / submit found at a registered parallel site', key=key)


def single_pass_pairing(ctx: Ctx) -> None:
    R = 'I.parallel-label-pairing'
    ctx.rule(R, 'the label list zipped with worker results is appended to inside the very generator that yields the task arguments: '
             'one append of the iteration\'s own label before each yield, in every loop of the generator, and that same list is the '
             'one zipped with (or handed to the pool helper together with) the generator', floor=8)
    prog = ctx.prog
    n = 0
    for f in prog.all_funcs():
        if isinstance(f.node, ast.Lambda) or f.name != 'arg_gen' or f.parent is None:
            continue
        n += 1
        parent = f.parent
        loops = [x for x in walk_local(f.node) if isinstance(x, ast.For)]
        key = f'{parent.qualname.split(".", 1)[1]}.arg_gen@{f.node.lineno - parent.node.lineno}'
        problems = []
        lists: tp.Set[str] = set()
        if not loops:
            problems.append('no loop')
        for lp in loops:
            body = lp.body
            yields = [i for i, s in enumerate(body) if isinstance(s, ast.Expr) and isinstance(s.value, ast.Yield)]
            appends = [(i, s.value) for i, s in enumerate(body) if isinstance(s, ast.Expr) and isinstance(s.value, ast.Call)
                       and isinstance(s.value.func, ast.Attribute) and s.value.func.attr == 'append']
            if len(yields) != 1 or len(appends) != 1:
                problems.append(f'{len(appends)} append(s) for {len(yields)} yield(s) in one loop')
                continue
            if appends[0][0] > yields[0]:
                problems.append('the label is appended after the yield (the consumer may zip before it exists)')
            lab = appends[0][1].args[0] if appends[0][1].args else None
            tnames = [x.id for x in ast.walk(lp.target) if isinstance(x, ast.Name)]
            if not (isinstance(lab, ast.Name) and tnames and lab.id == tnames[0]):
                problems.append(f'the appended label `{norm(lab)}` is not the first element of the loop target `{norm(lp.target)}`')
            lists.add(norm(appends[0][1].func.value))
            # the yielded value must come from the same iteration (mentions a loop-target name)
            yv = body[yields[0]].value.value
            if not any(isinstance(x, ast.Name) and x.id in tnames for x in ast.walk(yv)):
                problems.append('the yielded argument does not come from the same iteration')
        if len(lists) == 1:
            lst = next(iter(lists))
            # the consumer: zip(lst, executor.map(..., arg_gen(), ...)) or self._apply_pool*(lst, arg_gen(), ...)
            uses = [c for c in ast.walk(parent.node) if isinstance(c, ast.Call) and any(isinstance(a, ast.Call) and norm(a.func) == 'arg_gen' for a in ast.walk(c))
                    and (call_name(c) == 'zip' or call_name(c).startswith('self._apply_pool'))]
            if not uses:
                problems.append('arg_gen() is not consumed together with its label list')
            for u in uses:
                if not (u.args and norm(u.args[0]) == lst):
                    problems.append(f'`{call_name(u)}` pairs the results with `{norm(u.args[0]) if u.args else "?"}` instead of `{lst}`')
            fresh = [a for a in walk_local(parent.node) if isinstance(a, ast.Assign) and norm(a.targets[0]) == lst and norm(a.value) == '[]']
            if len(fresh) != 1:
                problems.append(f'`{lst}` is not a fresh empty list of this call')
        elif len(lists) > 1:
            problems.append(f'labels are appended to different lists {sorted(lists)}')
        (ctx.bad if problems else ctx.ok)(R, f, f.node, '; '.join(problems) or f'one label append before each yield into `{next(iter(lists))}`, zipped with the generator\'s results', key=key)
    ctx.require(n >= 7, 'arg_gen generators at the parallel sites')
    # the pool helpers zip (labels, results) in that order
    for qual in ('batch.Batch._apply_pool', 'node_iter.IterNodeDelegate._apply_iter_items_parallel'):
        f = prog.func(qual)
        zips = [c for c in ast.walk(f.node) if isinstance(c, ast.Call) and call_name(c) == 'zip' and len(c.args) == 2
                and isinstance(c.args[1], ast.Call) and norm(c.args[1].func) == 'executor.map']
        good = bool(zips) and norm(zips[0].args[0]) in ('labels', 'func_keys')
        it_arg = zips[0].args[1].args[1] if zips and len(zips[0].args[1].args) > 1 else None
        (ctx.ok if good else ctx.bad)(R, f, zips[0] if zips else f.node, f'zip({norm(zips[0].args[0])}, executor.map(..., {norm(it_arg)}, ...))' if good else
                                      'labels are not zipped with executor.map results', key=f'zip:{qual.split(".", 1)[1]}')


def errors_surface(ctx: Ctx) -> None:
    R = 'I.parallel-errors-surface'
    ctx.rule(R, 'a failing task surfaces: no try/except encloses the consumption of worker results except in the *_except APIs, '
             'whose handler catches only the caller-supplied exception class and skips label and result together', floor=5)
    prog = ctx.prog
    for qual in PARALLEL_SITES:
        f = prog.func(qual)
        tries = [t for t in ast.walk(f.node) if isinstance(t, ast.Try)]
        key = f'try:{qual.split(".", 1)[1]}'
        if not tries:
            ctx.ok(R, f, f.node, 'no exception handler around result consumption', key=key)
            continue
        for t in tries:
            if qual.endswith('_apply_pool_except'):
                good = len(t.handlers) == 1 and norm(t.handlers[0].type) == 'exception' and len(t.body) == 1 and 'future.result()' in norm(t.body[0]) \
                    and len(t.handlers[0].body) == 1 and isinstance(t.handlers[0].body[0], ast.Continue)
                (ctx.ok if good else ctx.bad)(R, f, t, 'only the caller-supplied exception class is caught, around future.result() alone, and the label is skipped with it' if good else
                                              f'the handler catches `{norm(t.handlers[0].type) if t.handlers else "?"}` / does more than skip this label', key=key)
            else:
                ctx.bad(R, f, t, 'worker results are consumed inside a try/except: a failing task can be swallowed, leaving a shorter or shifted result', key=key)
    # sequential counterparts of the except APIs catch only `exception` too
    for m in ('apply_except', 'apply_items_except'):
        f = prog.method('Batch', m, inherited=False)
        hs = [h for t in ast.walk(f.node) if isinstance(t, ast.Try) for h in t.handlers]
        good = bool(hs) and all(norm(h.type) == 'exception' for h in hs)
        (ctx.ok if good else ctx.bad)(R, f, f.node, 'sequential form catches only the caller-supplied class' if good else 'sequential form catches more than the caller-supplied class', key=f'seq:{m}')


def config_alignment(ctx: Ctx) -> None:
    R = 'I.parallel-config-alignment'
    ctx.rule(R, 'StoreConfigMap rejects per-label worker settings that differ from the default (the pool is configured from the default '
             'config only): the four worker attributes are in _ALIGN_WITH_DEFAULT_ATTRS and the constructor loop raises; the zip store '
             'builds pools from config_map.default and both paths of read_many share one payload generator', floor=6)
    prog = ctx.prog
    k = prog.cls('StoreConfigMap')
    attrs = k.attrs.get('_ALIGN_WITH_DEFAULT_ATTRS')
    vals = [e.value for e in attrs.elts if isinstance(e, ast.Constant)] if isinstance(attrs, (ast.Tuple, ast.List)) else []
    for a in ('read_max_workers', 'read_chunksize', 'write_max_workers', 'write_chunksize'):
        (ctx.ok if a in vals else ctx.bad)(R, k.qualname, attrs, f'{a} must align with the default' if a in vals else
                                           f'{a} is not checked against the default config: a per-label value is silently ignored', key=f'align:{a}', file=k.module.relpath)
    init = k.methods['__init__']
    loop = [n for n in walk_local(init.node) if isinstance(n, ast.For) and norm(n.iter) == 'self._ALIGN_WITH_DEFAULT_ATTRS']
    good = bool(loop) and any(isinstance(x, ast.Raise) for x in ast.walk(loop[0])) and 'getattr(config, attr) != getattr(self._default, attr)' in norm(loop[0])
    (ctx.ok if good else ctx.bad)(R, init, loop[0] if loop else init.node, 'a differing attribute raises ErrorInitStoreConfig' if good else 'the alignment loop no longer raises', key='align:loop')
    rm = prog.func('store_zip._StoreZip.read_many')
    src = norm(rm.node)
    good = 'executor.map(self._payload_to_frame, gen(), chunksize=chunksize)' in src and 'yield from gen()' in src \
        and 'ProcessPoolExecutor(max_workers=config_map.default.read_max_workers)' in src and 'chunksize = config_map.default.read_chunksize' in src
    (ctx.ok if good else ctx.bad)(R, rm, rm.node, 'parallel and sequential read share gen(); pool built from config_map.default.read_*' if good else
                                  'read_many: parallel and sequential paths no longer share the payload generator / default worker settings', key='zip:read_many')
    payload_ok = 'name=label' in src and 'config=c.to_store_config_he()' in src and 'c: StoreConfig = config_map[label]' in src
    (ctx.ok if payload_ok else ctx.bad)(R, rm, rm.node, 'each payload carries its own label and that label\'s config', key='zip:read-payload')
    wr = prog.func('store_zip._StoreZip.write')
    src = norm(wr.node)
    good = 'executor.map(self._payload_to_bytes, gen(), chunksize=config_map.default.write_chunksize)' in src \
        and 'ProcessPoolExecutor(max_workers=config_map.default.write_max_workers)' in src and 'name=label' in src and 'config=config_map[label].to_store_config_he()' in src
    (ctx.ok if good else ctx.bad)(R, wr, wr.node, 'write: payload carries label and its config; pool from config_map.default.write_*' if good else
                                  'write: payload / pool configuration changed', key='zip:write')
