'''Family G — TABLE: sibling tables agree ("every opcode has the right handler").

Everything here is declarative extraction from the syntax tree followed by a set / map
comparison.  A vanished anchor raises AnalysisError (exit 2), never a silent pass.
'''
from __future__ import annotations

import ast
import typing as tp

from sfa.model import AnalysisError
from sfa.model import FuncInfo
from sfa.model import attr_chain
from sfa.model import call_name
from sfa.model import kwarg
from sfa.model import norm
from sfa.model import unparse
from sfa.model import walk_local
from sfa.report import Ctx


def _single_return_call(f: FuncInfo) -> tp.Optional[ast.Call]:
    '''The call in `return <call>` when the body is (docstring +) one return of a call.'''
    body = [s for s in f.node.body if not (isinstance(s, ast.Expr) and isinstance(s.value, ast.Constant)) and not isinstance(s, ast.Pass)]
    if len(body) == 1 and isinstance(body[0], ast.Return) and isinstance(body[0].value, ast.Call):
        return body[0].value
    return None


# ---------------------------------------------------------------------------------------
# T1 operator dunders

UNARY = ('__pos__', '__neg__', '__abs__', '__invert__')
BINARY = ('__add__', '__sub__', '__mul__', '__matmul__', '__truediv__', '__floordiv__', '__mod__',
          '__pow__', '__lshift__', '__rshift__', '__and__', '__xor__', '__or__', '__lt__', '__le__',
          '__eq__', '__ne__', '__gt__', '__ge__')
REFLECTED = ('__radd__', '__rsub__', '__rmul__', '__rmatmul__', '__rtruediv__', '__rfloordiv__')


def t1_operators(ctx: Ctx) -> None:
    R = 'G1.operator-table'
    ctx.rule(R, 'each operator dunder of ContainerOperand passes the like-named function of the '
             'operator module; each reflected dunder builds lambda rhs, lhs: op(lhs, rhs), names it '
             "'r' + op.__name__ and passes it; the names special-cased by apply_binary_operator are "
             'names this table produces', floor=29)
    prog = ctx.prog
    co = prog.cls('ContainerOperand')
    opmod = None
    for alias, (mod, name) in co.module.imports.items():
        if mod == 'operator' and name is None:
            opmod = alias
    ctx.require(opmod is not None, 'container.py imports the operator module')

    def op_name(e: ast.expr) -> tp.Optional[str]:
        ch = attr_chain(e)
        if ch and len(ch) == 2 and ch[0] == opmod:
            return ch[1]
        return None

    produced: tp.Set[str] = set()
    for name in UNARY + BINARY:
        f = co.methods.get(name)
        if f is None:
            raise AnalysisError(f'anchor vanished: ContainerOperand.{name}')
        call = _single_return_call(f)
        worker = '_ufunc_unary_operator' if name in UNARY else '_ufunc_binary_operator'
        if call is None or call_name(call) != f'self.{worker}':
            ctx.unk(R, f, f.node, f'body is not `return self.{worker}(...)`', key=name)
            continue
        arg = call.args[0] if (name in UNARY and call.args) else kwarg(call, 'operator')
        if arg is None and call.args:
            arg = call.args[0]
        got = op_name(arg) if arg is not None else None
        if got == name:
            if name in BINARY:
                other = kwarg(call, 'other')
                if not (isinstance(other, ast.Name) and other.id == f.params[1]):
                    ctx.bad(R, f, call, f'`other` argument is {unparse(other)}, expected the dunder\'s own operand', key=name)
                    continue
            ctx.ok(R, f, call, f'passes {opmod}.{name}', key=name)
            produced.add(name.strip('_'))
        else:
            ctx.bad(R, f, call, f'{name} passes {unparse(arg)} instead of {opmod}.{name}', key=name)

    for name in REFLECTED:
        f = co.methods.get(name)
        if f is None:
            raise AnalysisError(f'anchor vanished: ContainerOperand.{name}')
        base = '__' + name[3:]
        lam = None
        lam_var = None
        name_assign = None
        ret = None
        for s in f.node.body:
            if isinstance(s, ast.Assign) and isinstance(s.value, ast.Lambda) and isinstance(s.targets[0], ast.Name):
                lam, lam_var = s.value, s.targets[0].id
            elif isinstance(s, ast.Assign) and isinstance(s.targets[0], ast.Attribute) and s.targets[0].attr == '__name__':
                name_assign = s
            elif isinstance(s, ast.Return):
                ret = s
        if lam is None or ret is None or not isinstance(ret.value, ast.Call):
            ctx.unk(R, f, f.node, 'unrecognised reflected-operator form', key=name)
            continue
        problems = []
        params = [a.arg for a in lam.args.args]
        body = lam.body
        if not (isinstance(body, ast.Call) and op_name(body.func) == base and len(body.args) == 2
                and len(params) == 2
                and all(isinstance(a, ast.Name) for a in body.args)
                and [a.id for a in body.args] == [params[1], params[0]]):
            problems.append(f'lambda is `{unparse(lam)}`, expected (a, b) -> {opmod}.{base}(b, a)')
        if name_assign is None:
            problems.append('operator.__name__ is not set (apply_binary_operator dispatches on it)')
        else:
            v = name_assign.value
            okname = (isinstance(v, ast.BinOp) and isinstance(v.op, ast.Add)
                      and isinstance(v.left, ast.Constant) and v.left.value == 'r'
                      and isinstance(v.right, ast.Attribute) and v.right.attr == '__name__'
                      and op_name(v.right.value) == base)
            okname = okname or (isinstance(v, ast.Constant) and v.value == 'r' + base.strip('_'))
            if not okname:
                problems.append(f'__name__ is set to `{unparse(v)}`, expected "r" + {base}.__name__')
        call = ret.value
        oparg = kwarg(call, 'operator')
        if call_name(call) != 'self._ufunc_binary_operator' or not (
                isinstance(oparg, ast.Name) and oparg.id == lam_var):
            problems.append('the swapped lambda is not what is passed as operator=')
        other = kwarg(call, 'other')
        if not (isinstance(other, ast.Name) and other.id == f.params[1]):
            problems.append('`other` is not the dunder\'s own operand')
        if problems:
            ctx.bad(R, f, f.node, '; '.join(problems), key=name)
        else:
            ctx.ok(R, f, f.node, f'swapped {opmod}.{base}, named r{base.strip("_")}', key=name)
            produced.add('r' + base.strip('_'))

    # names dispatched on in apply_binary_operator
    abo = prog.func('container_util.apply_binary_operator')
    R2 = 'G1.operator-name-dispatch'
    ctx.rule(R2, 'every operator name compared against operator.__name__ in apply_binary_operator is a '
             'name produced by the dunder table, and the reflected names route operands swapped', floor=3)
    name_var = None
    for n in walk_local(abo.node):
        if isinstance(n, ast.Assign) and isinstance(n.value, ast.Attribute) and n.value.attr == '__name__' \
                and isinstance(n.targets[0], ast.Name):
            name_var = n.targets[0].id
    ctx.require(name_var is not None, 'apply_binary_operator reads operator.__name__')
    for n in walk_local(abo.node):
        if isinstance(n, ast.Compare) and isinstance(n.left, ast.Name) and n.left.id == name_var:
            for c in n.comparators:
                if isinstance(c, ast.Constant) and isinstance(c.value, str):
                    if c.value in produced:
                        ctx.ok(R2, abo, n, f'name {c.value!r} is produced by the dunder table', key=f'name:{c.value}')
                    else:
                        ctx.bad(R2, abo, n, f'name {c.value!r} is never produced by ContainerOperand (dead special case: string operands would take the generic path)', key=f'name:{c.value}')
    # operand order inside the string special-cases: add -> (values, other); radd -> (other, values)
    for n in walk_local(abo.node):
        if isinstance(n, ast.If):
            test = n.test
            names = [c.value for t in ast.walk(test) if isinstance(t, ast.Compare)
                     and isinstance(t.left, ast.Name) and t.left.id == name_var
                     for c in t.comparators if isinstance(c, ast.Constant)]
            if not names or not n.body or not isinstance(n.body[0], ast.Assign):
                continue
            call = n.body[0].value
            if not isinstance(call, ast.Call) or len(call.args) != 2:
                continue
            order = [unparse(a) for a in call.args]
            callee = call_name(call)
            if names == ['add']:
                good = order == ['values', 'other'] and callee.endswith('.add')
            elif names == ['radd']:
                good = order == ['other', 'values'] and callee.endswith('.add')
            elif set(names) == {'mul', 'rmul'}:
                good = set(order) == {'values', 'other'} and callee.endswith('.multiply')
            else:
                continue
            (ctx.ok if good else ctx.bad)(R2, abo, n.body[0], f'{names}: {callee}({", ".join(order)})', key=f'order:{"|".join(names)}')


# ---------------------------------------------------------------------------------------
# T2 reductions

_NAN_PAIR = {'sum': ('np.sum', 'np.nansum'), 'min': ('np.min', 'np.nanmin'), 'max': ('np.max', 'np.nanmax'),
             'mean': ('np.mean', 'np.nanmean'), 'median': ('np.median', 'np.nanmedian'),
             'std': ('np.std', 'np.nanstd'), 'var': ('np.var', 'np.nanvar'), 'prod': ('np.prod', 'np.nanprod'),
             'cumsum': ('np.cumsum', 'np.nancumsum'), 'cumprod': ('np.cumprod', 'np.nancumprod'),
             'all': ('ufunc_all', 'ufunc_nanall'), 'any': ('ufunc_any', 'ufunc_nanany')}
_COMPOSABLE_OK = {'all', 'any', 'min', 'max', 'sum', 'prod'}   # f(f(a), f(b)) == f(a ++ b)
_UNITY_FORBIDDEN = {'std', 'var', 'all', 'any'}                # f([x]) != x in general
_CUMULATIVE = {'cumsum', 'cumprod'}


def _ufunc_text(e: ast.expr) -> tp.Tuple[str, tp.Optional[ast.Call]]:
    '''np.std | partial(np.std, ddof=ddof) -> ('np.std', partial-call)'''
    if isinstance(e, ast.Call) and call_name(e) == 'partial' and e.args:
        return unparse(e.args[0]), e
    return unparse(e), None


def t2_reductions(ctx: Ctx) -> None:
    R = 'G2.reduction-table'
    ctx.rule(R, 'each reduction of ContainerOperand passes the X / nanX pair of its own name, passes '
             'axis and skipna through, sets composable only for decomposable functions, '
             'size_one_unity only where f([x]) == x, and cumulative functions use _ufunc_shape_skipna', floor=12)
    co = ctx.prog.cls('ContainerOperand')
    for name, (uf, ufs) in _NAN_PAIR.items():
        f = co.methods.get(name)
        if f is None:
            raise AnalysisError(f'anchor vanished: ContainerOperand.{name}')
        call = _single_return_call(f)
        if call is None:
            ctx.unk(R, f, f.node, 'body is not a single forwarding return', key=name)
            continue
        problems = []
        worker = 'self._ufunc_shape_skipna' if name in _CUMULATIVE else 'self._ufunc_axis_skipna'
        if call_name(call) != worker:
            problems.append(f'forwards to {call_name(call)}, expected {worker}')
        for p in ('axis', 'skipna'):
            v = kwarg(call, p)
            if not (isinstance(v, ast.Name) and v.id == p):
                problems.append(f'{p}= is `{unparse(v)}`, not passed through')
        a, pa = _ufunc_text(kwarg(call, 'ufunc')) if kwarg(call, 'ufunc') is not None else ('', None)
        b, pb = _ufunc_text(kwarg(call, 'ufunc_skipna')) if kwarg(call, 'ufunc_skipna') is not None else ('', None)
        if a != uf:
            problems.append(f'ufunc={a}, expected {uf}')
        if b != ufs:
            problems.append(f'ufunc_skipna={b}, expected {ufs}')
        if (pa is None) != (pb is None) or (pa is not None and pb is not None and
                                           [norm(k) for k in pa.keywords] != [norm(k) for k in pb.keywords]):
            problems.append('the two partials bind different arguments')
        if pa is not None:
            for k in pa.keywords:
                if not (isinstance(k.value, ast.Name) and k.value.id == k.arg and k.arg in f.params):
                    problems.append(f'partial binds {k.arg}={unparse(k.value)}, not the caller\'s {k.arg}')
        comp = kwarg(call, 'composable')
        if not isinstance(comp, ast.Constant) or not isinstance(comp.value, bool):
            problems.append('composable is not a Boolean literal')
        elif comp.value and name not in _COMPOSABLE_OK:
            problems.append(f'composable=True but {name} of per-block partial results is not {name} of the row')
        unity = kwarg(call, 'size_one_unity')
        if not isinstance(unity, ast.Constant) or not isinstance(unity.value, bool):
            problems.append('size_one_unity is not a Boolean literal')
        elif unity.value and name in _UNITY_FORBIDDEN:
            problems.append(f'size_one_unity=True but {name}([x]) is not x')
        if problems:
            ctx.bad(R, f, call, '; '.join(problems), key=name)
        else:
            ctx.ok(R, f, call, f'{uf}/{ufs} composable={comp.value} size_one_unity={unity.value}', key=name)

    # the logical helpers really are the all/any pairs with the skipna flag they advertise
    R2 = 'G2.logical-helpers'
    ctx.rule(R2, 'ufunc_all/any/nanall/nanany call _ufunc_logical_skipna with np.all / np.any and the '
             'skipna flag their name states, forwarding array, axis and out', floor=4)
    for fname, (uf, sk) in {'ufunc_all': ('np.all', False), 'ufunc_any': ('np.any', False),
                            'ufunc_nanall': ('np.all', True), 'ufunc_nanany': ('np.any', True)}.items():
        f = ctx.prog.func(f'util.{fname}')
        call = _single_return_call(f)
        if call is None or call_name(call) != '_ufunc_logical_skipna':
            ctx.unk(R2, f, f.node, 'unrecognised form', key=fname)
            continue
        got_uf = unparse(kwarg(call, 'ufunc'))
        got_sk = kwarg(call, 'skipna')
        fw = all(isinstance(kwarg(call, p), ast.Name) and kwarg(call, p).id == p for p in ('axis', 'out')) \
            and call.args and isinstance(call.args[0], ast.Name) and call.args[0].id == f.params[0]
        if got_uf == uf and isinstance(got_sk, ast.Constant) and got_sk.value is sk and fw:
            ctx.ok(R2, f, call, f'{uf}, skipna={sk}', key=fname)
        else:
            ctx.bad(R2, f, call, f'got ufunc={got_uf} skipna={unparse(got_sk)} forwarded={bool(fw)}; expected {uf}, {sk}', key=fname)


# ---------------------------------------------------------------------------------------
# T3 kind constants + isna_array dispatch

def _const_strs(ctx: Ctx, modname: str, name: str, depth: int = 0) -> tp.Optional[tp.FrozenSet[str]]:
    m = ctx.prog.module(modname)
    e = m.constants.get(name)
    if e is None:
        raise AnalysisError(f'anchor vanished: {modname}.{name}')
    return _eval_strs(ctx, modname, e, depth)


def _eval_strs(ctx: Ctx, modname: str, e: ast.expr, depth: int = 0) -> tp.Optional[tp.FrozenSet[str]]:
    if depth > 6:
        return None
    if isinstance(e, ast.Constant) and isinstance(e.value, str):
        return frozenset([e.value])
    if isinstance(e, (ast.Tuple, ast.List, ast.Set)):
        out: tp.Set[str] = set()
        for x in e.elts:
            s = _eval_strs(ctx, modname, x, depth + 1)
            if s is None:
                return None
            out |= s
        return frozenset(out)
    if isinstance(e, ast.Call) and call_name(e) in ('frozenset', 'set', 'tuple') and len(e.args) == 1:
        return _eval_strs(ctx, modname, e.args[0], depth + 1)
    if isinstance(e, ast.Name):
        m = ctx.prog.module(modname)
        if e.id in m.constants:
            return _eval_strs(ctx, modname, m.constants[e.id], depth + 1)
    return None


def t3_kinds(ctx: Ctx) -> None:
    R = 'G3.kind-constants'
    ctx.rule(R, 'DTYPE_INEXACT_KINDS = {f,c}; DTYPE_NAT_KINDS = {M,m}; DTYPE_STR_KINDS = {U,S}; '
             'DTYPE_INT_KINDS = {i,u} as sets', floor=4)
    util = ctx.prog.module('util')
    for name, want in (('DTYPE_INEXACT_KINDS', {'f', 'c'}), ('DTYPE_NAT_KINDS', {'M', 'm'}),
                       ('DTYPE_STR_KINDS', {'U', 'S'}), ('DTYPE_INT_KINDS', {'i', 'u'})):
        got = _const_strs(ctx, 'util', name)
        node = util.constants[name]
        if got is None:
            ctx.unk(R, 'util.<module>', node, f'{name} is not a literal collection', key=name, file=util.relpath)
        elif set(got) == want:
            ctx.ok(R, 'util.<module>', node, f'{name} == {sorted(want)}', key=name, file=util.relpath)
        else:
            ctx.bad(R, 'util.<module>', node, f'{name} == {sorted(got)}, expected {sorted(want)}', key=name, file=util.relpath)

    R2 = 'G3.isna-dispatch'
    ctx.rule(R2, 'isna_array dispatches inexact kinds to np.isnan, NaT kinds to np.isnat, every other '
             'non-object kind to an all-False array, and object arrays to (x != x) | (x == None)', floor=4)
    # finite case analysis, per dtype kind and per path (no dependence on how the dispatch is spelled: if / elif chain, early returns, locals):
    # for each of the eleven kinds the returns reachable under the kind tests are collected, with single-definition locals inlined
    from sfa import flow as _flow
    from sfa import roles as _roles
    from sfa.rules import narules as _na
    f = ctx.prog.func('util.isna_array')
    arr = f.params[0]
    table = _na._const_table(ctx.prog)
    kind_names = set(_roles.assigned_from_all(f.node, lambda v: isinstance(v, ast.Attribute) and v.attr == 'kind'))
    ctx.require(bool(kind_names), 'isna_array reads array.dtype.kind')
    inl = _roles.Inliner(f.node)
    ne = (f'np.not_equal({arr}, {arr})', f'{arr} != {arr}')
    eq = (f'np.equal({arr}, None)', f'{arr} == None')

    def shape_of(txt: str) -> str:
        if txt == f'np.isnan({arr})':
            return 'isnan'
        if txt == f'np.isnat({arr})':
            return 'isnat'
        if txt.replace(' ', '') in (f'np.full({arr}.shape,False,dtype=DTYPE_BOOL)', f'np.full({arr}.shape,False,dtype=bool)', f'np.full({arr}.shape,False)',
                                     f'np.full({arr}.shape,False,DTYPE_BOOL)', f'np.full(dtype=DTYPE_BOOL,fill_value=False,shape={arr}.shape)'):
            return 'all-false'
        t2 = txt.replace('(', '').replace(')', '')
        for n_ in ne:
            n2 = n_.replace('(', '').replace(')', '')
            if t2 == n2:
                return 'self-unequal'
            for e_ in eq:
                e2 = e_.replace('(', '').replace(')', '')
                if t2 in (f'{n2} | {e2}', f'{e2} | {n2}'):
                    return 'self-unequal-or-none'
        return 'other:' + txt[:50]
    want = {'f': {'isnan'}, 'c': {'isnan'}, 'M': {'isnat'}, 'm': {'isnat'}, 'O': {'self-unequal', 'self-unequal-or-none'}}
    groups = {'DTYPE_INEXACT_KINDS': 'fc', 'DTYPE_NAT_KINDS': 'Mm', 'non-object': 'biuSUV', 'object': 'O'}
    verdict: tp.Dict[str, tp.List[str]] = {}
    none_tested = False
    for k in 'biufcmMOSUV':

        class C(_flow.Client):
            def __init__(self):
                self.rets: tp.List[ast.Return] = []

            def join(self, a, b):
                return a

            def refine(self, atom, st, truth):
                v = _na._eval_kind_test(atom, kind_names, k, table)
                if v is not None and v != truth:
                    return None
                return st

            def on_return(self, s_, st):
                if s_.value is not None and not any(r is s_ for r in self.rets):
                    self.rets.append(s_)
        c = C()
        _flow.Engine(c).run(f.node.body, True)
        shapes = sorted({shape_of(norm(inl.expr(r.value))) for r in c.rets})
        verdict[k] = shapes
        if k == 'O' and 'self-unequal-or-none' in shapes:
            none_tested = True
    for label, kinds in groups.items():
        key = f'branch:{label}'
        bad = [(k, verdict[k]) for k in kinds if not verdict[k] or not set(verdict[k]) <= want.get(k, {'all-false'})]
        if bad:
            k, got = bad[0]
            ctx.bad(R2, f, f.node, f'for dtype kind {k!r} isna_array returns {got or "nothing"}; expected {sorted(want.get(k, {"all-false"}))}', key=key)
        elif label == 'object' and not none_tested:
            ctx.bad(R2, f, f.node, 'object branch never tests for None', key=key)
        else:
            ctx.ok(R2, f, f.node, f'kinds {kinds!r}: {verdict[kinds[0]]}', key=key)


def _inside(node: ast.AST, container: ast.AST) -> bool:
    return any(n is node for n in ast.walk(container))


# ---------------------------------------------------------------------------------------
# T4 sort kind constants

def t4_sortkind(ctx: Ctx) -> None:
    R = 'G4.sort-kind'
    ctx.rule(R, "DEFAULT_SORT_KIND and DEFAULT_STABLE_SORT_KIND are stable NumPy kinds ('mergesort' or 'stable')", floor=2)
    util = ctx.prog.module('util')
    for name in ('DEFAULT_SORT_KIND', 'DEFAULT_STABLE_SORT_KIND'):
        e = util.constants.get(name)
        if e is None:
            raise AnalysisError(f'anchor vanished: util.{name}')
        e2 = e
        if isinstance(e2, ast.Name):
            e2 = util.constants.get(e2.id, e2)
        if isinstance(e2, ast.Constant) and e2.value in ('mergesort', 'stable'):
            ctx.ok(R, 'util.<module>', e, f'{name} = {e2.value!r}', key=name, file=util.relpath)
        elif isinstance(e2, ast.Constant):
            ctx.bad(R, 'util.<module>', e, f'{name} = {e2.value!r} is not a stable sort kind', key=name, file=util.relpath)
        else:
            ctx.unk(R, 'util.<module>', e, f'{name} is not a literal', key=name, file=util.relpath)


# ---------------------------------------------------------------------------------------
# T5 StoreFilter

def t5_storefilter(ctx: Ctx) -> None:
    R = 'G5.storefilter-defaults'
    ctx.rule(R, 'every default from_X token written by StoreFilter is a member of the default to_X set '
             'that reads it back (exception: nat, whose to-set is deliberately empty)', floor=4)
    sf = ctx.prog.cls('StoreFilter')
    init = sf.methods.get('__init__')
    ctx.require(init is not None, 'StoreFilter.__init__')
    defaults: tp.Dict[str, tp.Optional[ast.expr]] = {p: init.param_default(p) for p in init.params}
    EXC = {'nat': 'store_filter.py comments the empty to_nat default: "do not assume there are NaTs"'}
    for p, d in sorted(defaults.items()):
        if not p.startswith('from_'):
            continue
        suffix = p[len('from_'):]
        to = defaults.get('to_' + suffix)
        if to is None:
            ctx.bad(R, init, init.node, f'{p} has no to_{suffix} counterpart', key=suffix)
            continue
        tos = _eval_strs(ctx, 'store_filter', to)
        if isinstance(to, ast.Call) and call_name(to) == 'frozenset' and to.args and unparse(to.args[0]) == 'EMPTY_TUPLE':
            tos = frozenset()
        if not (isinstance(d, ast.Constant) and (isinstance(d.value, str) or d.value is None)) or tos is None:
            ctx.unk(R, init, init.node, f'defaults of {p}/to_{suffix} are not literals', key=suffix)
            continue
        if d.value is None or d.value in tos:
            ctx.ok(R, init, d, f'{p}={d.value!r} in to_{suffix}={sorted(tos)}', key=suffix)
        elif suffix in EXC:
            ctx.ok(R, init, d, f'{p}={d.value!r} not in to_{suffix} — exception table: {EXC[suffix]}', key=suffix)
        else:
            ctx.bad(R, init, d, f'{p}={d.value!r} is not decoded by to_{suffix}={sorted(tos)}', key=suffix)

    R2 = 'G5.storefilter-pairs'
    ctx.rule(R2, 'each (predicate | value, self.from_X | self.to_X) pair of the four StoreFilter lookup '
             'tables pairs the predicate/value with the like-named token', floor=14)
    want = {'nan': ('isnan', 'np.not_equal(x, x)', 'np.nan'),
            'posinf': ('isposinf', 'np.equal(x, np.inf)', 'np.inf'),
            'neginf': ('isneginf', 'np.equal(x, -np.inf)', '-np.inf'),
            'none': ('', 'np.equal(x, None)', 'None'),
            'nat': ('isnat', '', 'NAT')}
    for s in walk_local(init.node):
        if not (isinstance(s, ast.Assign) and isinstance(s.targets[0], ast.Attribute)
                and s.targets[0].attr in ('_FLOAT_FUNC_TO_FROM', '_EQUAL_FUNC_TO_FROM', '_TYPE_TO_TO_SET', '_TYPE_TO_TO_TUPLE')):
            continue
        table = s.targets[0].attr
        if not isinstance(s.value, ast.Tuple):
            ctx.unk(R2, init, s, 'table is not a tuple literal', key=table)
            continue
        for pair in s.value.elts:
            if not (isinstance(pair, ast.Tuple) and len(pair.elts) == 2):
                ctx.unk(R2, init, pair, 'entry is not a pair', key=f'{table}:{norm(pair)}')
                continue
            left, right = pair.elts
            rtxt = norm(right)
            suffix = None
            for n in ast.walk(right):
                if isinstance(n, ast.Attribute) and isinstance(n.value, ast.Name) and n.value.id == 'self' \
                        and (n.attr.startswith('from_') or n.attr.startswith('to_')):
                    suffix = n.attr.split('_', 1)[1]
                    direction = n.attr.split('_', 1)[0]
            if suffix is None or suffix not in want:
                ctx.unk(R2, init, pair, 'right side names no from_/to_ slot', key=f'{table}:{norm(pair)}')
                continue
            ltxt = norm(left.body) if isinstance(left, ast.Lambda) else norm(left)
            pred, eqf, val = want[suffix]
            want_dir = 'from' if 'FROM' in table else 'to'
            if isinstance(left, ast.Lambda):
                # normalise the lambda's own parameter name to x
                pn = left.args.args[0].arg
                ltxt = norm(_rename(left.body, {pn: 'x'}))
                good = ltxt == eqf
            elif table == '_FLOAT_FUNC_TO_FROM':
                good = ltxt == f'np.{pred}'
            else:
                good = ltxt == val
            good = good and direction == want_dir
            (ctx.ok if good else ctx.bad)(R2, init, pair, f'{table}: {ltxt} <-> {rtxt}', key=f'{table}:{suffix}')


def _rename(node: ast.AST, mapping: tp.Dict[str, str]) -> ast.AST:
    import copy
    node = copy.deepcopy(node)
    for n in ast.walk(node):
        if isinstance(n, ast.Name) and n.id in mapping:
            n.id = mapping[n.id]
    return node


# ---------------------------------------------------------------------------------------
# T6 store decorators / mtime discipline

def t6_store(ctx: Ctx) -> None:
    prog = ctx.prog
    R = 'G6.store-decorators'
    ctx.rule(R, 'every override of read / read_many / labels in a Store subclass carries '
             'store_coherent_non_write and every write override carries store_coherent_write', floor=12)
    store = prog.cls('Store')
    subs = store.all_subclasses()
    ctx.require(len(subs) >= 5, 'at least 5 Store subclasses')
    for k in [store] + subs:
        for name, deco in (('read', 'store_coherent_non_write'), ('read_many', 'store_coherent_non_write'),
                           ('labels', 'store_coherent_non_write'), ('write', 'store_coherent_write')):
            f = k.methods.get(name)
            if f is None:
                continue
            abstract = _only_raises_not_implemented(f)
            if k is store and abstract:
                continue
            if deco in f.decorators:
                ctx.ok(R, f, f.node, f'@{deco}', key=f'{k.name}.{name}')
            elif abstract:
                ctx.ok(R, f, f.node, 'abstract (raises NotImplementedError)', key=f'{k.name}.{name}')
            elif k is store and name == 'read' and _delegates_to(f, 'read_many'):
                ctx.ok(R, f, f.node, 'delegates to the decorated read_many', key=f'{k.name}.{name}')
            else:
                ctx.bad(R, f, f.node, f'{k.name}.{name} touches the file without @{deco}: a stale or '
                        'replaced file would be read (or a write would not refresh the recorded mtime)', key=f'{k.name}.{name}')

    R2 = 'G6.decorator-shape'
    ctx.rule(R2, 'store_coherent_non_write checks coherence before calling the wrapped function; '
             'store_coherent_write refreshes the mtime after it; _mtime_coherent raises StoreFileMutation '
             'on both the changed and the vanished branch; _last_modified is written only by __init__ and _mtime_update', floor=5)
    nw = prog.func('store.store_coherent_non_write')
    w = prog.func('store.store_coherent_write')
    for dec, method, before in ((nw, '_mtime_coherent', True), (w, '_mtime_update', False)):
        wrappers = [n for n in dec.nested if n.name == 'wrapper']
        if not wrappers:
            ctx.unk(R2, dec, dec.node, 'no nested wrapper', key=dec.name)
            continue
        wr = wrappers[0]
        order = []
        for s in wr.node.body:
            for n in ast.walk(s):
                if isinstance(n, ast.Call):
                    cn = call_name(n)
                    if cn == f'self.{method}':
                        order.append('M')
                    elif cn == 'f':
                        order.append('F')
        good = order == (['M', 'F'] if before else ['F', 'M'])
        (ctx.ok if good else ctx.bad)(R2, wr, wr.node, f'call order {order} (M={method}, F=wrapped)', key=dec.name)
    mc = prog.method('Store', '_mtime_coherent')
    raises = [n for n in walk_local(mc.node) if isinstance(n, ast.Raise)]
    n_ok = sum(1 for r in raises if r.exc is not None and 'StoreFileMutation' in unparse(r.exc))
    top_if = next((s for s in mc.node.body if isinstance(s, ast.If)), None)
    both = False
    if top_if is not None and 'exists' in unparse(top_if.test):
        a = any(isinstance(n, ast.Raise) for s in top_if.body for n in ast.walk(s))
        b = any(isinstance(n, ast.Raise) for s in top_if.orelse for n in ast.walk(s))
        cmp_mtime = any(isinstance(n, ast.Compare) and 'getmtime' in unparse(n) and '_last_modified' in unparse(n)
                        and isinstance(n.ops[0], ast.NotEq) for s in top_if.body for n in ast.walk(s))
        both = a and b and cmp_mtime
    (ctx.ok if (both and n_ok >= 2) else ctx.bad)(
        R2, mc, mc.node, f'{n_ok} StoreFileMutation raises; changed-branch and vanished-branch both raise: {both}', key='_mtime_coherent')
    mu = prog.method('Store', '_mtime_update')
    sets = [n for n in walk_local(mu.node) if isinstance(n, ast.Assign) and norm(n.targets[0]) == 'self._last_modified']
    good = any('getmtime' in unparse(s.value) for s in sets)
    (ctx.ok if good else ctx.bad)(R2, mu, mu.node, '_mtime_update records os.path.getmtime', key='_mtime_update')
    writers = set()
    for f in prog.all_funcs():
        for n in walk_local(f.node):
            if isinstance(n, (ast.Assign, ast.AugAssign, ast.AnnAssign)):
                tgts = n.targets if isinstance(n, ast.Assign) else [n.target]
                for t in tgts:
                    if isinstance(t, ast.Attribute) and t.attr == '_last_modified':
                        writers.add(f.qualname)
    extra = writers - {'store.Store.__init__', 'store.Store._mtime_update'}
    (ctx.ok if not extra else ctx.bad)(R2, 'store.Store', store.node, f'writers of _last_modified: {sorted(writers)}',
                                       key='_last_modified-writers', file=store.module.relpath)


def _only_raises_not_implemented(f: FuncInfo) -> bool:
    body = [s for s in f.node.body if not (isinstance(s, ast.Expr) and isinstance(s.value, ast.Constant)) and not isinstance(s, ast.Pass)]
    return len(body) == 1 and isinstance(body[0], ast.Raise) and 'NotImplementedError' in unparse(body[0].exc)


def _delegates_to(f: FuncInfo, name: str) -> bool:
    return any(isinstance(n, ast.Call) and call_name(n) == f'self.{name}' for n in walk_local(f.node))


# ---------------------------------------------------------------------------------------
# T7 Batch forwards

_BATCH_ALIAS = {'T': 'transpose'}


def t7_batch(ctx: Ctx) -> None:
    R = 'G7.batch-forwards'
    ctx.rule(R, 'a Batch method that forwards through _apply_attr names the Frame attribute it is '
             'itself named after, forwards every one of its own parameters under the same name, and '
             'passes no keyword the Frame method does not accept', floor=30)
    prog = ctx.prog
    batch = prog.cls('Batch')
    frame = prog.cls('Frame')
    for name, f in batch.methods.items():
        calls = [n for n in walk_local(f.node) if isinstance(n, ast.Call) and call_name(n) == 'self._apply_attr']
        if not calls or name == '_apply_attr':
            continue
        for call in calls:
            attr = kwarg(call, 'attr')
            if not (isinstance(attr, ast.Constant) and isinstance(attr.value, str)):
                ctx.unk(R, f, call, 'attr is not a string literal', key=name)
                continue
            want = _BATCH_ALIAS.get(name, name)
            problems = []
            if attr.value != want:
                problems.append(f'forwards to Frame.{attr.value}, but the method is Batch.{name}')
            target = frame.lookup(attr.value)
            if target is None and attr.value not in frame.attrs:
                problems.append(f'Frame has no attribute {attr.value!r}')
            own = [p for p in f.params[1:] if not p.startswith('*')]
            passed: tp.Dict[str, ast.expr] = {k.arg: k.value for k in call.keywords if k.arg and k.arg != 'attr'}
            positional = [a for a in call.args]
            for p in own:
                v = passed.get(p)
                if v is None:
                    if any(isinstance(a, ast.Name) and a.id == p for a in positional):
                        continue
                    problems.append(f'parameter {p} is not forwarded')
                elif not (isinstance(v, ast.Name) and v.id == p):
                    problems.append(f'{p}= is passed `{unparse(v)}`')
            for k in passed:
                if k not in own:
                    problems.append(f'keyword {k} is not a parameter of Batch.{name}')
                if target is not None and k not in target.params and not any(p.startswith('**') for p in target.params):
                    problems.append(f'Frame.{attr.value} has no parameter {k}')
            if problems:
                ctx.bad(R, f, call, '; '.join(problems), key=name)
            else:
                ctx.ok(R, f, call, f'Batch.{name} -> Frame.{attr.value}({", ".join(own)})', key=name)


# ---------------------------------------------------------------------------------------
# T8 join dispatch

def t8_join(ctx: Ctx) -> None:
    R = 'G8.join-dispatch'
    ctx.rule(R, 'join_inner/left/right/outer pass the like-named Join member and forward every one of '
             'their own parameters by name; _join handles every member of Join and raises otherwise; '
             'the LEFT and RIGHT index branches are mirror images', floor=9)
    prog = ctx.prog
    join = prog.cls('Join')
    members = [k for k in join.attrs if k.isupper()]
    ctx.require(len(members) >= 4, 'Join enum has 4 members')
    frame = prog.cls('Frame')
    for m in members:
        name = f'join_{m.lower()}'
        f = frame.methods.get(name)
        if f is None:
            ctx.bad(R, 'frame.Frame', frame.node, f'no Frame.{name} for Join.{m}', key=name, file=frame.module.relpath)
            continue
        calls = [n for n in walk_local(f.node) if isinstance(n, ast.Call) and call_name(n) == 'self._join']
        if len(calls) != 1:
            ctx.unk(R, f, f.node, f'{len(calls)} calls of self._join', key=name)
            continue
        call = calls[0]
        problems = []
        jt = kwarg(call, 'join_type')
        if norm(jt) != f'Join.{m}':
            problems.append(f'passes join_type={norm(jt)}')
        for p in f.params[1:]:
            if p.startswith('*'):
                continue
            v = kwarg(call, p)
            if v is None:
                v = next((a for a in call.args if isinstance(a, ast.Name) and a.id == p), None)
            if not (isinstance(v, ast.Name) and v.id == p):
                problems.append(f'{p} is not forwarded under its own name (got `{unparse(v)}`)')
        (ctx.bad if problems else ctx.ok)(R, f, call, '; '.join(problems) or f'Join.{m}, all parameters forwarded', key=name)
    j = frame.methods.get('_join')
    ctx.require(j is not None, 'Frame._join')
    branches: tp.Dict[str, tp.List[ast.stmt]] = {}
    final_else = None
    for n in walk_local(j.node):
        if isinstance(n, ast.If) and isinstance(n.test, ast.Compare) and norm(n.test.left) == 'join_type' \
                and isinstance(n.test.ops[0], (ast.Is, ast.Eq)):
            tgt = norm(n.test.comparators[0])
            if tgt.startswith('Join.'):
                branches[tgt[5:]] = n.body
                if n.orelse and not (len(n.orelse) == 1 and isinstance(n.orelse[0], ast.If)):
                    final_else = n.orelse
    for m in members:
        if m in branches:
            ctx.ok(R, j, branches[m][0], f'_join has a branch for Join.{m}', key=f'_join:{m}')
        else:
            ctx.bad(R, j, j.node, f'_join has no branch for Join.{m}', key=f'_join:{m}')
    if final_else is not None and any(isinstance(s, ast.Raise) for s in final_else):
        ctx.ok(R, j, final_else[0], 'unknown join type raises', key='_join:else')
    else:
        ctx.bad(R, j, j.node, 'an unknown join type falls through silently', key='_join:else')
    if 'LEFT' in branches and 'RIGHT' in branches:
        from sfa.mirror import Mirror
        mr = Mirror(j.node, {'PairLeft': 'PairRight'}, reversed_tuple_callees=('PairLeft', 'PairRight'))
        if mr.check(branches['LEFT'], branches['RIGHT']):
            pairs = sorted(f'{a}<->{b}' for a, b in mr.map.items() if a != b)
            ctx.ok(R, j, branches['LEFT'][0], f'LEFT branch mirrored (left-sided <-> right-sided locals {pairs}, PairLeft<->PairRight, tuple order) equals RIGHT branch', key='_join:mirror')
        else:
            ctx.bad(R, j, branches['RIGHT'][0], f'LEFT and RIGHT branches are not mirror images: {mr.why}', key='_join:mirror')


def _mirror_text(stmts: tp.Sequence[ast.stmt]) -> str:
    import copy
    out = []
    for s in stmts:
        s = copy.deepcopy(s)
        for n in ast.walk(s):
            if isinstance(n, ast.Name):
                n.id = _swap_lr(n.id)
            elif isinstance(n, ast.Call) and isinstance(n.func, ast.Name) and n.func.id in ('PairLeft', 'PairRight'):
                if len(n.args) == 1 and isinstance(n.args[0], ast.Tuple) and len(n.args[0].elts) == 2:
                    n.args[0].elts.reverse()
        out.append(norm(s))
    return '\n'.join(out)


def _swap_lr(s: str) -> str:
    return (s.replace('left', '\0').replace('right', 'left').replace('\0', 'right')
             .replace('Left', '\0').replace('Right', 'Left').replace('\0', 'Right'))


# ---------------------------------------------------------------------------------------
# T9 _derive propagation

def t9_derive(ctx: Ctx, which: tp.Sequence[str] = ('Bus', 'Batch')) -> None:
    R = 'G9.derive-propagation'
    ctx.rule(R, 'Bus._derive passes store, config and max_persist from self; Batch._derive passes '
             'config, max_workers, chunksize and use_threads from self', floor=len(which))
    table = {'Bus': ('store', 'config', 'max_persist'),
             'Batch': ('config', 'max_workers', 'chunksize', 'use_threads')}
    for cname in which:
        f = ctx.prog.method(cname, '_derive', inherited=False)
        calls = [n for n in walk_local(f.node) if isinstance(n, ast.Call) and norm(n.func) in ('self.__class__', 'cls', cname)]
        if len(calls) != 1:
            ctx.unk(R, f, f.node, 'no single constructor call', key=cname)
            continue
        problems = []
        for p in table[cname]:
            v = kwarg(calls[0], p)
            if norm(v) != f'self._{p}':
                problems.append(f'{p}= is `{norm(v)}`, expected self._{p}')
        (ctx.bad if problems else ctx.ok)(R, f, calls[0], '; '.join(problems) or f'propagates {", ".join(table[cname])}', key=cname)
