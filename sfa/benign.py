'''Benign-edit fuzz (thorough tier): behaviour-preserving rewrites must never produce a violation.

For the functions in which a property's rules placed obligations, a scratch copy of static_frame/core is
rewritten with one of:
  rename   alpha-rename one local variable of one function (consistently, nested closures included);
  renameall  alpha-rename every local variable of one function at once;
  kwsort   reverse the keyword-argument order of every call in one function (keywords only; evaluation
           order of side-effect-free argument expressions is immaterial for the analysed code);
  pass     insert a `pass` statement at the top of one function body;
  swapeq   exchange the operands of every ==, !=, is, is not comparison of one function;
  ifnot    rewrite every two-branch `if a: X else: Y` of one function as `if not a: Y else: X`;
  annot    drop the annotations of annotated local assignments;
  msg      reword the message strings of raise statements.
The property's checks are then run on the copy.  A *new violation* is a false alarm of the rule and fails
the self-test; an ANALYSIS-ERROR (anchor not recognised any more) is counted separately as `refused` —
the check refuses to give a verdict rather than raising an alarm.
'''
from __future__ import annotations

import ast
import concurrent.futures
import importlib
import os
import random
import shutil
import tempfile
import typing as tp

from sfa.model import AnalysisError
from sfa.model import Program
from sfa.report import VIOLATED
from sfa.report import Ctx


def _violations(prop: str, repo: str) -> tp.Tuple[tp.Set[tp.Tuple[str, str, str]], tp.Set[str]]:
    mod = importlib.import_module(f'sfa.props.{prop.lower()}')
    prog = Program(repo)
    ctx = Ctx(prog, prop, 'quick')
    mod.run(ctx)
    funcs = {ob.func for ob in ctx.obs}
    return {ob.ident() for ob in ctx.obs if ob.status == VIOLATED}, funcs


class _Rename(ast.NodeTransformer):
    def __init__(self, old: str, new: str):
        self.old, self.new = old, new

    def visit_Name(self, node: ast.Name) -> ast.AST:
        if node.id == self.old:
            node.id = self.new
        return node


def _locals_of(fn: ast.AST) -> tp.List[str]:
    params = set()
    for n in ast.walk(fn):
        if isinstance(n, (ast.FunctionDef, ast.AsyncFunctionDef, ast.Lambda)):
            a = n.args
            for p in list(getattr(a, 'posonlyargs', [])) + a.args + a.kwonlyargs:
                params.add(p.arg)
            if a.vararg:
                params.add(a.vararg.arg)
            if a.kwarg:
                params.add(a.kwarg.arg)
    declared = set()
    for n in ast.walk(fn):
        if isinstance(n, (ast.Global, ast.Nonlocal)):
            declared |= set(n.names)
    nested_names = {n.name for n in ast.walk(fn) if isinstance(n, (ast.FunctionDef, ast.AsyncFunctionDef)) and n is not fn}
    stores = []
    for n in ast.walk(fn):
        if isinstance(n, ast.Name) and isinstance(n.ctx, ast.Store) and n.id not in params and n.id not in declared \
                and n.id not in nested_names and not n.id.startswith('__') and n.id not in stores:
            stores.append(n.id)
    return stores


def _find_function(tree: ast.Module, qual: str) -> tp.Optional[ast.AST]:
    parts = qual.split('.')[1:]
    parts = [p for p in parts if p != '<locals>']
    node: ast.AST = tree
    for p in parts[:2] if len(parts) > 2 else parts:
        found = None
        for ch in ast.iter_child_nodes(node):
            if isinstance(ch, (ast.FunctionDef, ast.AsyncFunctionDef, ast.ClassDef)) and ch.name == p:
                found = ch
                break
        if found is None:
            return None
        node = found
    return node if isinstance(node, (ast.FunctionDef, ast.AsyncFunctionDef)) else None


def _apply(kind: str, src: str, qual: str, rng: random.Random) -> tp.Optional[tp.Tuple[str, str]]:
    tree = ast.parse(src)
    fn = _find_function(tree, qual)
    if fn is None:
        return None
    if kind == 'rename':
        names = _locals_of(fn)
        if not names:
            return None
        old = rng.choice(names)
        new = old + '_rn'
        _Rename(old, new).visit(fn)
        what = f'{old} -> {new}'
    elif kind == 'renameall':
        names = _locals_of(fn)
        if not names:
            return None
        for old in names:
            _Rename(old, old + '_rn').visit(fn)
        what = f'{len(names)} locals'
    elif kind == 'swapeq':
        # exchange the operands of every symmetric comparison (==, !=, is, is not) in the function
        n = 0
        for c in ast.walk(fn):
            if isinstance(c, ast.Compare) and len(c.ops) == 1 and isinstance(c.ops[0], (ast.Eq, ast.NotEq, ast.Is, ast.IsNot)):
                c.left, c.comparators[0] = c.comparators[0], c.left
                n += 1
        if not n:
            return None
        what = f'{n} comparisons'
    elif kind == 'ifnot':
        # if a: X else: Y  ->  if not a: Y else: X   (two-branch ifs whose else is not an elif)
        n = 0
        for i in ast.walk(fn):
            if isinstance(i, ast.If) and i.orelse and not (len(i.orelse) == 1 and isinstance(i.orelse[0], ast.If)):
                i.test = ast.UnaryOp(op=ast.Not(), operand=i.test)
                i.body, i.orelse = i.orelse, i.body
                n += 1
        if not n:
            return None
        what = f'{n} ifs'
    elif kind == 'annot':
        # drop the annotation of annotated local assignments (x: T = v -> x = v)
        n = 0

        class T(ast.NodeTransformer):
            def visit_AnnAssign(self, node):
                nonlocal n
                if node.value is not None and isinstance(node.target, ast.Name):
                    n += 1
                    return ast.Assign(targets=[node.target], value=node.value)
                return node
        T().visit(fn)
        if not n:
            return None
        what = f'{n} annotations'
    elif kind == 'msg':
        # change every message string of raise statements
        n = 0
        for r in ast.walk(fn):
            if isinstance(r, ast.Raise) and isinstance(r.exc, ast.Call):
                for a in ast.walk(r.exc):
                    if isinstance(a, ast.Constant) and isinstance(a.value, str):
                        a.value = a.value + ' (reworded)'
                        n += 1
        if not n:
            return None
        what = f'{n} messages'
    elif kind == 'temp':
        # hoist one argument of a plain call statement into a fresh local assigned just before it (`r = f(a.b, k=c[i])` -> `_h = a.b; r = f(_h, k=c[i])`);
        # only statements whose value is one call without nested calls / conditionals / comprehensions: nothing evaluated can have a side effect or be skipped
        cands = []
        for holder in ast.walk(fn):
            if isinstance(holder, (ast.Lambda, ast.ListComp, ast.SetComp, ast.DictComp, ast.GeneratorExp)):
                continue
            for field in ('body', 'orelse', 'finalbody'):
                stmts = getattr(holder, field, None)
                if not isinstance(stmts, list):
                    continue
                for idx, st in enumerate(stmts):
                    if not (isinstance(st, (ast.Assign, ast.Expr, ast.Return)) and isinstance(getattr(st, 'value', None), ast.Call)):
                        continue
                    c = st.value
                    inner = [x for x in ast.walk(c) if x is not c]
                    if any(isinstance(x, (ast.Call, ast.IfExp, ast.BoolOp, ast.Lambda, ast.ListComp, ast.SetComp, ast.DictComp, ast.GeneratorExp, ast.Starred,
                                          ast.Yield, ast.YieldFrom, ast.Await, ast.NamedExpr)) for x in inner) or any(k.arg is None for k in c.keywords):
                        continue
                    for ai, a in enumerate(c.args):
                        if isinstance(a, (ast.Attribute, ast.Subscript, ast.BinOp, ast.Compare, ast.Tuple)):
                            cands.append((stmts, idx, c, 'arg', ai))
                    for ki, kw in enumerate(c.keywords):
                        if isinstance(kw.value, (ast.Attribute, ast.Subscript, ast.BinOp, ast.Compare, ast.Tuple)):
                            cands.append((stmts, idx, c, 'kw', ki))
        if not cands:
            return None
        stmts, idx, c, where, i = rng.choice(cands)
        name = '_hoisted'
        if where == 'arg':
            expr = c.args[i]
            c.args[i] = ast.Name(id=name, ctx=ast.Load())
        else:
            expr = c.keywords[i].value
            c.keywords[i].value = ast.Name(id=name, ctx=ast.Load())
        stmts.insert(idx, ast.Assign(targets=[ast.Name(id=name, ctx=ast.Store())], value=expr))
        what = f'hoisted {ast.unparse(expr)[:40]}'
    elif kind == 'kwsort':
        n = 0
        for c in ast.walk(fn):
            if isinstance(c, ast.Call) and len(c.keywords) > 1 and all(k.arg is not None for k in c.keywords):
                c.keywords = list(reversed(c.keywords))
                n += 1
        if not n:
            return None
        what = f'{n} calls'
    else:
        body = fn.body
        pos = 1 if body and isinstance(body[0], ast.Expr) and isinstance(getattr(body[0], 'value', None), ast.Constant) else 0
        body.insert(pos, ast.Pass())
        what = 'pass inserted'
    ast.fix_missing_locations(tree)
    return ast.unparse(tree), what


def _run_one(args) -> tp.Dict[str, tp.Any]:
    prop, repo, qual, kind, seed, base = args
    rng = random.Random(seed)
    mod_short = qual.split('.')[0]
    tmp = tempfile.mkdtemp(prefix='sfa-benign-')
    try:
        dst = os.path.join(tmp, 'static_frame')
        os.makedirs(os.path.join(dst, 'core'))
        shutil.copy(os.path.join(repo, 'static_frame', '__init__.py'), dst)
        src_core = os.path.join(repo, 'static_frame', 'core')
        for fn in os.listdir(src_core):
            if fn.endswith('.py'):
                shutil.copy(os.path.join(src_core, fn), os.path.join(dst, 'core'))
        path = os.path.join(dst, 'core', mod_short + '.py')
        if not os.path.exists(path):
            return {'id': f'{kind}:{qual}', 'status': 'inapplicable'}
        with open(path, encoding='utf-8') as f:
            src = f.read()
        r = _apply(kind, src, qual, rng)
        if r is None:
            return {'id': f'{kind}:{qual}', 'status': 'inapplicable'}
        new_src, what = r
        with open(path, 'w', encoding='utf-8') as f:
            f.write(new_src)
        ident = f'{kind}:{qual}:{what}'
        try:
            found, _ = _violations(prop, tmp)
        except AnalysisError as e:
            return {'id': ident, 'status': 'refused', 'why': str(e)[:200]}
        new = found - base
        if new:
            return {'id': ident, 'status': 'false-alarm', 'why': str(sorted(new)[:2])[:300]}
        return {'id': ident, 'status': 'silent'}
    finally:
        shutil.rmtree(tmp, ignore_errors=True)


def run_for_property(prop: str, repo: str, seed: int = 0, budget: int = 48, jobs: int = 16) -> tp.Dict[str, tp.Any]:
    base, funcs = _violations(prop, repo)
    cands = sorted(q for q in funcs if '.' in q and '<' not in q.split('.')[0] and not q.endswith('>') and 'core.<' not in q)
    rng = random.Random(seed * 7919 + sum(map(ord, prop)))
    rng.shuffle(cands)
    # every function the rules looked at gets the all-locals alpha-renaming (up to a cap); the other edit kinds are sampled
    sweep = [(prop, repo, q, 'renameall', rng.randrange(1 << 30), frozenset(base)) for q in cands[:int(os.environ.get('SFA_BENIGN_SWEEP', '96'))]]
    work = []
    for i, q in enumerate(cands):
        for kind in ('rename', 'kwsort', 'pass', 'swapeq', 'ifnot', 'annot', 'msg', 'temp'):
            work.append((prop, repo, q, kind, rng.randrange(1 << 30), frozenset(base)))
    rng.shuffle(work)
    work = sweep + work[:budget]
    results = []
    if work:
        with concurrent.futures.ProcessPoolExecutor(max_workers=min(jobs, len(work))) as ex:
            results = list(ex.map(_run_one, work))
    out = {
        'edits': len(results),
        'silent': sum(1 for r in results if r['status'] == 'silent'),
        'refused': [f'{r["id"]}: {r.get("why", "")}' for r in results if r['status'] == 'refused'],
        'inapplicable': sum(1 for r in results if r['status'] == 'inapplicable'),
        'false_alarms': [f'{r["id"]}: {r.get("why", "")}' for r in results if r['status'] == 'false-alarm'],
    }
    print(f'  benign fuzz: {out["edits"]} behaviour-preserving edits — {out["silent"]} silent, {len(out["refused"])} refused (analysis error), '
          f'{out["inapplicable"]} inapplicable, {len(out["false_alarms"])} FALSE ALARMS')
    for fa in out['false_alarms'][:10]:
        print(f'    benign FALSE ALARM {fa}')
    return out


# ---------------------------------------------------------------------------------------
# corpus of behaviour-preserving refactorings written by independent authors (benign_refactors/*.diff): each patch that still applies to the tree under
# analysis is applied to a scratch copy; the property's check must report nothing new and must not refuse the tree

def _corpus_one(args) -> tp.Dict[str, tp.Any]:
    import subprocess
    prop, repo, patch, base = args
    tmp = tempfile.mkdtemp(prefix='sfa-corpus-')
    try:
        dst = os.path.join(tmp, 'static_frame')
        os.makedirs(os.path.join(dst, 'core'))
        shutil.copy(os.path.join(repo, 'static_frame', '__init__.py'), dst)
        src_core = os.path.join(repo, 'static_frame', 'core')
        for fn in os.listdir(src_core):
            if fn.endswith('.py'):
                shutil.copy(os.path.join(src_core, fn), os.path.join(dst, 'core'))
        r = subprocess.run(['patch', '-p1', '-s', '-f', '-i', patch], cwd=tmp, stdout=subprocess.PIPE, stderr=subprocess.STDOUT, text=True)
        ident = os.path.basename(patch)
        if r.returncode:
            return {'id': ident, 'status': 'inapplicable'}
        try:
            found, _ = _violations(prop, tmp)
        except AnalysisError as e:
            return {'id': ident, 'status': 'refused', 'why': str(e)[:200]}
        new = found - base
        if new:
            return {'id': ident, 'status': 'false-alarm', 'why': str(sorted(new)[:2])[:300]}
        return {'id': ident, 'status': 'silent'}
    finally:
        shutil.rmtree(tmp, ignore_errors=True)


def run_corpus(prop: str, repo: str, jobs: int = 16) -> tp.Dict[str, tp.Any]:
    here = os.path.dirname(os.path.dirname(os.path.abspath(__file__)))
    patches = sorted(os.path.join(here, 'benign_refactors', f) for f in os.listdir(os.path.join(here, 'benign_refactors')) if f.endswith('.diff')) \
        if os.path.isdir(os.path.join(here, 'benign_refactors')) else []
    base, _funcs = _violations(prop, repo)
    results = []
    if patches:
        with concurrent.futures.ProcessPoolExecutor(max_workers=min(jobs, len(patches))) as ex:
            results = list(ex.map(_corpus_one, [(prop, repo, p, frozenset(base)) for p in patches]))
    out = {
        'patches': len(patches),
        'applied': sum(1 for r in results if r['status'] != 'inapplicable'),
        'silent': sum(1 for r in results if r['status'] == 'silent'),
        'alarms': [f'{r["id"]}: {r.get("why", "")}' for r in results if r['status'] in ('false-alarm', 'refused')],
    }
    print(f'  refactor corpus: {out["patches"]} behaviour-preserving patches by independent authors — {out["applied"]} apply, {out["silent"]} silent, {len(out["alarms"])} ALARMS')
    for a in out['alarms'][:10]:
        print(f'    corpus ALARM {a}')
    return out
