#!/usr/bin/env python3
'''Rewrite the obligation table of DESIGN.md §8.1 from the output of `./check all --tier quick` (given as a file).'''
import re
import sys

out = open(sys.argv[1]).read().splitlines()
rows = {}
cur = None
for ln in out:
    m = re.match(r'^(C\d\d) \[quick\]', ln)
    if m:
        cur = m.group(1)
        rows[cur] = []
        continue
    m = re.match(r'^  ([A-Za-z0-9][^:]*): (\d+) obligations, (\d+) discharged, (\d+) undecided, (\d+) violated', ln)
    if m and cur:
        rule, n, _d, u, v = m.group(1), int(m.group(2)), int(m.group(3)), int(m.group(4)), int(m.group(5))
        extra = []
        if u:
            extra.append(f'{u} undecided')
        if v:
            extra.append(f'{v} known finding' + ('s' if v > 1 else ''))
        rows[cur].append(f'{rule} {n}' + (f' ({", ".join(extra)})' if extra else ''))
p = '/verif/DESIGN.md'
s = open(p).read().split('\n')
i = next(k for k, l in enumerate(s) if l.startswith('| id | rules (obligations) |'))
j = i + 2
while s[j].startswith('| C'):
    j += 1
new = [f'| {pid} | ' + ' · '.join(rows[pid]) + ' |' for pid in sorted(rows)]
assert len(new) == 20, len(new)
s[i + 2:j] = new
open(p, 'w').write('\n'.join(s))
print('rewrote', len(new), 'rows')
