'''C15 Axis reductions equal the independent per-column / per-row computation.'''
from sfa.report import Ctx
from sfa.rules import flowmisc
from sfa.rules import narules
from sfa.rules import forwardrules
from sfa.rules import axisrules
from sfa.rules import blockrules
from sfa.rules import table

LEVEL_TEXT = (
    'Static decision of structural clauses of C15: (a) the reduction table of ContainerOperand (12 methods): each passes the X / nanX ufunc pair of its own name, '
    'forwards axis and skipna, sets composable only for decomposable functions and size_one_unity only where f([x]) == x; the logical helpers bind np.all / np.any '
    'with the skipna flag their name states; (b) per path (symbolic store): a Frame reduction along axis 0 is labelled by the columns and along axis 1 by the index '
    '(_ufunc_axis_skipna, count, loc/iloc_min/max), loc_min/max read the labels of the reduced axis at the positions of the like-named arg-extreme over self.values '
    'with the caller\'s axis and skipna, the arg-extreme helpers bind np.argmin/np.nanargmin (max likewise), every parameter reaches TypeBlocks.ufunc_axis_skipna under '
    'its own name, cumulative forms keep both label sets; (c) per path of util.ufunc_axis_skipna the skipna flag selects the NaN-aware ufunc and its absence the plain '
    'one, with the caller\'s axis and out (datetime branch excepted, as documented in the code); (d) block-layout independence: a per-block cast guarded by a test on the '
    'block\'s dimensionality has a sibling cast on the other layout. Option forwarding: in every reduction worker each call to a resolved callee that accepts a parameter named like one of the function\'s own parameters passes it on (confirmed exceptions listed in sfa/rules/forwardrules.py). Finite case analysis over the eleven dtype kinds: in isna_array, _ufunc_logical_skipna and the arg-extreme helpers no return is reachable for a kind that can hold a missing value (f, c, M, m, O) before a missing-value predicate was consulted. Sibling defaults: a parameter taken by the same-named method of several container classes has the same default in each (confirmed exceptions listed in sfa/rules/forwardrules.py). Out parameter: every value-return of a reduction helper that takes `out=` forwards `out` or has stored into it (the block-wise reducer drops the return value for 2-D blocks). Not decided: every numeric result, NumPy\'s own NaN propagation, overflow of composable axis-1 reductions.')

CLAIM = dict(
    text=LEVEL_TEXT,
    technique='per-path symbolic-store dataflow of result labels / forwarded parameters / flag-selected callee + reduction-table comparison + layout-guard sibling rule',
    design_ref='DESIGN.md section 2.G and section 3 C15',
)


def run(ctx: Ctx) -> None:
    table.t2_reductions(ctx)
    axisrules.axis_labels(ctx)
    axisrules.skipna_dispatch(ctx)
    blockrules.layout_independent_casts(ctx)
    forwardrules.forwarding(ctx, modules=None, prefixes=('_ufunc', 'loc_min', 'loc_max', 'iloc_min', 'iloc_max', 'cov', 'cumsum', 'cumprod', 'ufunc'), suffix='reduce', floor=54, what='reduction worker')
    narules.nullable_kinds(ctx)
    forwardrules.sibling_defaults(ctx, prefixes=('_ufunc', 'loc_min', 'loc_max', 'iloc_min', 'iloc_max', 'cov', 'cumsum', 'cumprod', 'ufunc', 'sum', 'mean', 'min', 'max', 'std', 'var', 'median', 'prod', 'all', 'any'), suffix='reduce', floor=8)
    flowmisc.out_parameter_written(ctx)
