'''C13 rules: grouping partitions the container by construction; labels and data are sliced by one selection.'''
from __future__ import annotations

import ast
import typing as tp

from sfa.model import AnalysisError
from sfa.model import FuncInfo
from sfa.model import call_name
from sfa.model import kwarg
from sfa.model import norm
from sfa.model import walk_local
from sfa import roles
from sfa.report import Ctx

GROUP_SITES = (
    ('type_blocks.TypeBlocks.group', None),
    ('series.Series._axis_group_items', 'self.values'),
    ('series.Series._axis_group_labels_items', None),
    ('frame.Frame._axis_group_labels_items', None),
)


def partition_by_construction(ctx: Ctx) -> None:
    R = 'I.group-partition'
    ctx.rule(R, 'in every mask-based group iterator the member selection of group idx is `locations == idx`, with (groups, locations) '
             'taken from one array_to_groups_and_locations call and idx from enumerate(groups): each position belongs to exactly the group '
             'of its own value, every group is visited once, and the yielded key is that group\'s own element', floor=8)
    prog = ctx.prog
    for qual, src in GROUP_SITES:
        f = prog.func(qual)
        unp = [a for a in walk_local(f.node) if isinstance(a, ast.Assign) and isinstance(a.targets[0], ast.Tuple) and isinstance(a.value, ast.Call)
               and call_name(a.value) == 'array_to_groups_and_locations']
        key = qual.split('.', 1)[1]
        if len(unp) != 1:
            ctx.bad(R, f, f.node, f'{len(unp)} array_to_groups_and_locations calls: groups and locations may come from different calls', key=f'{key}:one-call')
            continue
        gname, lname = (norm(e) for e in unp[0].targets[0].elts)
        ctx.ok(R, f, unp[0], f'({gname}, {lname}) from one call over `{norm(unp[0].value.args[0])[:40]}`', key=f'{key}:one-call')
        loops = [n for n in walk_local(f.node) if isinstance(n, ast.For) and isinstance(n.iter, ast.Call) and call_name(n.iter) == 'enumerate']
        if not loops or any(norm(lp_.iter.args[0]) != gname or len(lp_.iter.args) != 1 or kwarg(lp_.iter, 'start') is not None for lp_ in loops):
            ctx.bad(R, f, loops[0] if loops else f.node, f'the group loop is not `for idx, g in enumerate({gname})`', key=f'{key}:enumerate')
            continue
        # one loop, or one per axis branch: each is checked
        for lp in loops:
            sfx = '' if len(loops) == 1 else '@' + _branch_test(f.node, lp)
            iname, gvar = (norm(e) for e in lp.target.elts)
            # the member selection: the one local of the loop body that every yield of this loop slices with (by role: a local assigned in
            # the loop and used inside the yielded expressions)
            assigned = [a for a in ast.walk(lp) if isinstance(a, ast.Assign) and isinstance(a.targets[0], ast.Name)]
            in_yield = {x.id for y in ast.walk(lp) if isinstance(y, ast.Yield) for x in ast.walk(y) if isinstance(x, ast.Name)}
            cand = [a for a in assigned if a.targets[0].id in in_yield and any(isinstance(x, ast.Name) and x.id in (lname, iname) for x in ast.walk(a.value))]
            sels = cand if cand else [a for a in assigned if isinstance(a.value, ast.Compare)]
            if not sels:
                # the selection written in place inside the yielded expression (no local of its own)
                inline = [c for y in ast.walk(lp) if isinstance(y, ast.Yield) for c in ast.walk(y) if isinstance(c, ast.Compare)
                          and any(isinstance(x, ast.Name) and x.id in (lname, iname) for x in ast.walk(c))]
                sels = [ast.Assign(targets=[ast.Name(id='_', ctx=ast.Store())], value=c, lineno=c.lineno, col_offset=c.col_offset) for c in inline]
            good = len(sels) == 1 and norm(sels[0].value) in (f'{lname} == {iname}', f'{iname} == {lname}')
            (ctx.ok if good else ctx.bad)(R, f, sels[0] if sels else lp, f'selection = {lname} == {iname}' if good else
                                          f'members of group {iname} are selected by `{norm(sels[0].value) if sels else "?"}` instead of `{lname} == {iname}`: rows land in another group or in several', key=f'{key}:selection{sfx}')
            # groups may be re-wrapped (tuple(...)) but never re-ordered / filtered between the call and the loop
            redefs = [a for a in walk_local(f.node) if isinstance(a, ast.Assign) and norm(a.targets[0]) in (gname, lname) and a is not unp[0]]
            bad_redef = [a for a in redefs if not (isinstance(a.value, ast.Call) and call_name(a.value) in ('array2d_to_tuples',) and norm(a.value.args[0]) in (gname, f'{gname}.T'))]
            (ctx.ok if not bad_redef else ctx.bad)(R, f, bad_redef[0] if bad_redef else lp, 'groups / locations are not reordered or filtered before the loop' if not bad_redef else
                                                   f'`{norm(bad_redef[0])[:60]}` changes groups/locations after they were computed together', key=f'{key}:no-reorder{sfx}')
            # the yielded key is the loop's own group element
            ys = [y for y in ast.walk(lp) if isinstance(y, ast.Yield) and isinstance(y.value, ast.Tuple)]
            good = bool(ys) and all(norm(y.value.elts[0]) == gvar for y in ys)
            (ctx.ok if good else ctx.bad)(R, f, ys[0] if ys else lp, f'each group is labelled by its own key `{gvar}`' if good else 'a group is not labelled by its own key', key=f'{key}:key{sfx}')
        if src is not None:
            good = norm(unp[0].value.args[0]) == src
            (ctx.ok if good else ctx.bad)(R, f, unp[0], f'grouping values are {src}' if good else f'grouping values are {norm(unp[0].value.args[0])}', key=f'{key}:source')


def group_pairs(ctx: Ctx) -> None:
    R = 'E.pair[group]'
    ctx.rule(R, 'each group container selects labels and data with the same selection (rows: index[selection] with row_key=selection, '
             'columns: columns[selection] with column_key=selection) and keeps the other axis whole; Series groups go through _extract_iloc(selection)', floor=8)
    prog = ctx.prog
    f = prog.method('Frame', '_axis_group_labels_items', inherited=False)
    for c in [c for c in walk_local(f.node) if isinstance(c, ast.Call) and norm(c.func) == 'self.__class__']:
        idx, cols = kwarg(c, 'index'), kwarg(c, 'columns')
        data = c.args[0] if c.args else kwarg(c, 'data')
        # the data argument's latest definition before this call
        tbv = data
        if isinstance(data, ast.Name):
            tb_defs = [a for a in walk_local(f.node) if isinstance(a, ast.Assign) and isinstance(a.targets[0], ast.Name) and a.targets[0].id == data.id and a.lineno < c.lineno]
            tbv = tb_defs[-1].value if tb_defs else data
        shape = _pair_shape(tbv, idx, cols)
        (ctx.ok if shape else ctx.bad)(R, f, c, f'{shape}: labels and data sliced by the same selection, other axis whole' if shape else
                                       f'group container pairs data `{norm(tbv)}` with index `{norm(idx)}` and columns `{norm(cols)}`: labels and data are not sliced by the same selection / axis',
                                       key=f'_axis_group_labels_items:{_branch_test(f.node, c)}')
    g = prog.method('Frame', '_axis_group_iloc_items', inherited=False)
    loops = [n for n in walk_local(g.node) if isinstance(n, ast.For) and isinstance(n.iter, ast.Call) and call_name(n.iter) == 'self._blocks.group']
    ctx.require(len(loops) == 1 and isinstance(loops[0].target, ast.Tuple) and len(loops[0].target.elts) == 3 and all(isinstance(e, ast.Name) for e in loops[0].target.elts),
                'Frame._axis_group_iloc_items unpacks (group, selection, blocks) from TypeBlocks.group')
    gname, sname, tname = (e.id for e in loops[0].target.elts)
    it = loops[0].iter
    good = norm(kwarg(it, 'axis')) == 'axis' and norm(kwarg(it, 'key')) == 'key'
    (ctx.ok if good else ctx.bad)(R, g, it, 'TypeBlocks.group receives the caller\'s axis and key', key='_axis_group_iloc_items:forward')
    for c in [c for c in ast.walk(loops[0]) if isinstance(c, ast.Call) and norm(c.func) == 'self.__class__']:
        idx, cols, data = norm(kwarg(c, 'index')), norm(kwarg(c, 'columns')), norm(c.args[0]) if c.args else ''
        under = _branch_test(loops[0], c)
        rows = idx == f'self._index[{sname}]' and cols == 'self._columns' and under == 'axis == 0'
        colsel = idx == 'self._index' and cols == f'self._columns[{sname}]' and under == 'axis == 1'
        (ctx.ok if (rows or colsel) and data == tname else ctx.bad)(R, g, c, f'axis {under[-1:]}: data = the group\'s blocks; labels sliced by the group\'s selection' if (rows or colsel) and data == tname else
                                                                    f'under `{under}` the group pairs data `{data}` with index `{idx}` / columns `{cols}`', key=f'_axis_group_iloc_items:{under}')
        # the yielded key is the group's own key
    ys = [y for y in ast.walk(loops[0]) if isinstance(y, ast.Yield) and isinstance(y.value, ast.Tuple)]
    good = bool(ys) and all(norm(y.value.elts[0]) == gname for y in ys)
    (ctx.ok if good else ctx.bad)(R, g, ys[0] if ys else g.node, 'each group is labelled by its own key', key='_axis_group_iloc_items:key')
    # TypeBlocks.group yields the selection it extracted with
    t = prog.func('type_blocks.TypeBlocks.group')
    ys = [y for y in walk_local(t.node) if isinstance(y, ast.Yield) and isinstance(y.value, ast.Tuple) and len(y.value.elts) == 3]
    ctx.require(len(ys) == 2, 'TypeBlocks.group yields (group, selection, blocks) per axis')
    for y in ys:
        sel, ext = y.value.elts[1], y.value.elts[2]
        under = _branch_test(t.node, y)
        kw = 'row_key' if under == 'axis == 0' else 'column_key' if under == 'axis == 1' else None
        good = isinstance(sel, ast.Name) and kw is not None and isinstance(ext, ast.Call) and call_name(ext) == 'self._extract' and not ext.args \
            and len(ext.keywords) == 1 and ext.keywords[0].arg == kw and norm(ext.keywords[0].value) == sel.id
        (ctx.ok if good else ctx.bad)(R, t, y, f'{under}: yields the selection together with the blocks extracted by it' if good else
                                      f'under `{under}` TypeBlocks.group yields `{norm(sel)}` with `{norm(ext)}`: the caller slices labels with a different selection than the data', key=f'TypeBlocks.group:{under}')
    # what is grouped: axis 0 groups by the key columns, axis 1 by the key rows
    calls = [c for c in walk_local(t.node) if isinstance(c, ast.Call) and call_name(c) == 'array_to_groups_and_locations' and c.args]
    src_ok = False
    if len(calls) == 1 and isinstance(calls[0].args[0], ast.Name):
        sdefs = [a for a in walk_local(t.node) if isinstance(a, ast.Assign) and norm(a.targets[0]) == calls[0].args[0].id]
        got = {(_branch_test(t.node, a), norm(a.value)) for a in sdefs}
        src_ok = got == {('axis == 0', 'self._extract_array(column_key=key)'), ('axis == 1', 'self._extract_array(row_key=key)')}
    (ctx.ok if src_ok else ctx.bad)(R, t, t.node, 'axis 0 groups by the key columns, axis 1 by the key rows' if src_ok else 'the grouping values are not the key columns (axis 0) / key rows (axis 1)', key='TypeBlocks.group:source')
    for m in ('_axis_group_items', '_axis_group_labels_items'):
        sm = prog.method('Series', m, inherited=False)
        ys = [y for y in walk_local(sm.node) if isinstance(y, ast.Yield)]
        good = bool(ys)
        for y in ys:
            v = y.value
            ok = isinstance(v, ast.Tuple) and len(v.elts) == 2 and isinstance(v.elts[1], ast.Call) and call_name(v.elts[1]) == 'self._extract_iloc' and len(v.elts[1].args) == 1 \
                and isinstance(v.elts[1].args[0], (ast.Name, ast.Compare))
            if ok and isinstance(v.elts[1].args[0], ast.Name):
                # the argument is the loop's member selection (a local assigned in the enclosing loop from a comparison)
                nm = v.elts[1].args[0].id
                ok = any(isinstance(a, ast.Assign) and isinstance(a.targets[0], ast.Name) and a.targets[0].id == nm and isinstance(a.value, ast.Compare) for a in walk_local(sm.node))
            good = good and ok
        (ctx.ok if good else ctx.bad)(R, sm, ys[0] if ys else sm.node, 'members extracted with _extract_iloc(selection) (labels and values together)' if good else
                                      'Series group members are not extracted with the selection', key=f'Series.{m}')


def _pair_shape(data: tp.Optional[ast.expr], idx: tp.Optional[ast.expr], cols: tp.Optional[ast.expr]) -> str:
    '''"rows" when data = self._blocks._extract(row_key=S), index = self._index[S], columns = self._columns (one and the same S);
    "columns" for the mirror image; "" otherwise.'''
    if not (isinstance(data, ast.Call) and call_name(data) == 'self._blocks._extract' and not data.args and len(data.keywords) == 1):
        return ''
    kw = data.keywords[0]
    sel = norm(kw.value)
    if kw.arg == 'row_key' and norm(idx) == f'self._index[{sel}]' and norm(cols) == 'self._columns':
        return 'rows'
    if kw.arg == 'column_key' and norm(cols) == f'self._columns[{sel}]' and norm(idx) == 'self._index':
        return 'columns'
    return ''


def _branch_test(root: ast.AST, node: ast.AST) -> str:
    best = ''
    for n in ast.walk(root):
        if isinstance(n, ast.If) and any(x is node for s in n.body for x in ast.walk(s)):
            best = norm(n.test)
    return best


def sort_fast_path(ctx: Ctx) -> None:
    R = 'I.group-sort-fast-path'
    ctx.rule(R, 'the sort-and-slice group path sorts with the default stable kind (no kind override), slices labels and blocks with the '
             'same slice, labels each run by its first value, advances the run start to the transition, and emits the final run', floor=6)
    prog = ctx.prog
    f = prog.method('Frame', '_axis_group_sort_items', inherited=False)
    # locals by role
    rl: tp.Dict[str, tp.Optional[str]] = {
        'frame_sorted': roles.assigned_from(f.node, lambda v: isinstance(v, ast.Call) and call_name(v) == 'self.sort_values'),
        'transitions': roles.assigned_from(f.node, lambda v: any(isinstance(c, ast.Call) and call_name(c) == 'np.flatnonzero' for c in ast.walk(v))),
        'group_values': roles.assigned_from(f.node, lambda v: isinstance(v, ast.Call) and call_name(v).endswith('._extract_array')),
        'slc': roles.assigned_from(f.node, lambda v: isinstance(v, ast.Call) and call_name(v) == 'slice'),
    }
    for i, st in enumerate(f.node.body):
        if isinstance(st, ast.For) and isinstance(st.iter, ast.Name) and st.iter.id == rl['transitions'] and isinstance(st.target, ast.Name):
            rl['t'] = st.target.id
            cs = roles.loop_counter(st, f.node.body[:i])
            rl['start'] = cs[0] if cs else None
    fs = rl['frame_sorted']
    rl['index'] = roles.assigned_from(f.node, lambda v: isinstance(v, ast.Attribute) and isinstance(v.value, ast.Name) and v.value.id == fs and v.attr in ('index', 'columns'))
    forig = f
    fnode = roles.canonical(f.node, rl)

    class _F:      # the canonical copy, presented like a FuncInfo where the rules below need .node
        node = fnode
    sv = [c for c in walk_local(fnode) if isinstance(c, ast.Call) and call_name(c) == 'self.sort_values']
    ctx.require(len(sv) == 1, '_axis_group_sort_items sorts once')
    good = kwarg(sv[0], 'kind') is None and kwarg(sv[0], 'ascending') is None and norm(sv[0].args[0]) == 'key' and norm(kwarg(sv[0], 'axis')) == 'not axis'
    (ctx.ok if good else ctx.bad)(R, f, sv[0], 'sort_values(key, axis=not axis) with the default stable kind, ascending' if good else
                                  f'`{norm(sv[0])}`: the group path overrides kind / direction or sorts another key — members lose their original relative order', key='sort')
    loops = [n for n in walk_local(fnode) if isinstance(n, ast.For) and norm(n.iter) == 'transitions']
    ctx.require(len(loops) == 1, 'run loop over transitions')
    body = [norm(s) for s in loops[0].body]
    hname = [nf.name for nf in f.nested if any(isinstance(c, ast.Call) and norm(c.func) == 'Frame' for c in walk_local(nf.node))]
    hname = hname[0] if hname else 'extract_frame'
    want = ['slc = slice(start, t)', f'yield (group_values[start], {hname}(slc, index[slc]))', 'start = t']
    good = body == want
    (ctx.ok if good else ctx.bad)(R, f, loops[0], 'each run [start, t) is labelled by group_values[start] and slices blocks and labels with the same slc' if good else
                                  f'run loop body is {body}', key='run-loop')
    # final run
    after = [norm(s) for s in fnode.body[fnode.body.index(loops[0]) + 1:]] if loops[0] in fnode.body else []
    good = after == [f'yield (group_values[start], {hname}(slice(start, None), index[start:]))']
    (ctx.ok if good else ctx.bad)(R, f, loops[0], 'the last run [start, end) is emitted with matching slices' if good else f'after the loop: {after}', key='final-run')
    tr = [a for a in walk_local(fnode) if isinstance(a, ast.Assign) and norm(a.targets[0]) == 'transitions']
    good = bool(tr) and norm(tr[0].value) == 'np.flatnonzero(group_values != np.roll(group_values, 1))[1:]'
    (ctx.ok if good else ctx.unk)(R, f, tr[0] if tr else f.node, 'transitions = positions where a value differs from its predecessor (wrap-around entry dropped)', key='transitions')
    ef = [nf for nf in f.nested if any(isinstance(c, ast.Call) and norm(c.func) == 'Frame' for c in walk_local(nf.node))]
    ctx.require(len(ef) == 1, 'frame-extracting helper')
    efn = [n for n in ast.walk(fnode) if isinstance(n, ast.FunctionDef) and n.name == ef[0].name and n is not fnode]
    calls = [c for c in walk_local(efn[0]) if isinstance(c, ast.Call) and norm(c.func) == 'Frame']
    kparam, iparam = (ef[0].params + ['key', 'index'])[:2]
    for c in calls:
        data, idx, cols = norm(c.args[0]), norm(kwarg(c, 'index')), norm(kwarg(c, 'columns'))
        rows = data == f'frame_sorted._blocks._extract(row_key={kparam})' and idx == iparam and cols == 'self._columns'
        colsel = data == f'frame_sorted._blocks._extract(column_key={kparam})' and cols == iparam and idx == 'self._index'
        (ctx.ok if rows or colsel else ctx.bad)(R, ef[0], c, f'data {data}; index {idx}; columns {cols}' if rows or colsel else
                                                f'extract_frame pairs `{data}` with index `{idx}` / columns `{cols}`', key=f'extract_frame:{"rows" if "row_key" in data else "cols"}')
    gv = [norm(a.value) for a in walk_local(fnode) if isinstance(a, ast.Assign) and norm(a.targets[0]) == 'group_values']
    good = gv == ['frame_sorted._blocks._extract_array(column_key=iloc_key)', 'frame_sorted._blocks._extract_array(row_key=iloc_key)']
    (ctx.ok if good else ctx.bad)(R, f, f.node, 'group values and labels are read from the sorted frame' if good else f'group values: {gv}', key='values-from-sorted')


def group_key_fallback(ctx: Ctx) -> None:
    R = 'I.group-key-fallback'
    ctx.rule(R, 'sibling agreement of the two attempts of util.array_to_groups_and_locations: when values are not comparable the grouping is repeated on a string form of the '
             'same array; the fallback must stay a one-to-one image of the key rows — the same array under an elementwise conversion (`array.astype(str)`), uniqued along '
             'the same axis as the first attempt; reducing a key row to one string (join / concatenation) or dropping the axis merges distinct keys into one group', floor=1)
    prog = ctx.prog
    f = prog.func('util.array_to_groups_and_locations')
    tries = [t for t in walk_local(f.node) if isinstance(t, ast.Try)]
    ctx.require(len(tries) == 1 and tries[0].handlers, 'array_to_groups_and_locations retries under an except handler')
    t = tries[0]

    def uniques(stmts: tp.Sequence[ast.stmt]) -> tp.List[ast.Call]:
        return [c for s in stmts for c in ast.walk(s) if isinstance(c, ast.Call) and call_name(c) == 'np.unique']
    first = uniques(t.body)
    second = [c for h in t.handlers for c in uniques(h.body)]
    ctx.require(len(first) == 1 and len(second) >= 1, 'one np.unique per attempt')
    arr = f.params[0]
    inl = roles.Inliner(f.node)
    for i_c, c in enumerate(second):
        key = f'array_to_groups_and_locations:fallback#{i_c}'
        a0 = inl.expr(c.args[0]) if c.args else None
        # <array>.astype(<type>) of the parameter itself
        elementwise = isinstance(a0, ast.Call) and isinstance(a0.func, ast.Attribute) and a0.func.attr == 'astype' and norm(a0.func.value) == arr
        same_axis = norm(kwarg(c, 'axis')) == norm(kwarg(first[0], 'axis'))
        # the axis variable is not rebound inside the handler
        ax = kwarg(first[0], 'axis')
        rebound = isinstance(ax, ast.Name) and any(isinstance(s, ast.Assign) and any(isinstance(x, ast.Name) and x.id == ax.id for x in s.targets) for h in t.handlers for b in h.body for s in ast.walk(b))
        if elementwise and same_axis and not rebound:
            ctx.ok(R, f, c, f'the fallback uniques `{norm(a0)}` along the same axis as the first attempt', key=key)
        else:
            why = (f'uniques `{norm(a0)[:50]}` (not an elementwise image of `{arr}`)' if not elementwise else
                   ('along another axis than the first attempt' if not same_axis else 'after rebinding the axis'))
            ctx.bad(R, f, c, f'the string fallback {why}: distinct key rows can receive the same group id (members no longer share the key that labels the group)', key=key)
