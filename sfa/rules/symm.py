'''Family H — SYMM: equals / __eq__ / __hash__ are symmetric in their operands and consistent.'''
from __future__ import annotations

import ast
import copy
import typing as tp

from sfa.model import AnalysisError
from sfa.model import FuncInfo
from sfa.model import Resolver
from sfa.model import call_name
from sfa.model import kwarg
from sfa.model import norm
from sfa.model import unparse
from sfa.model import walk_local
from sfa.report import Ctx

EQUALS_CLASSES = ('TypeBlocks', 'Index', 'IndexLevel', 'IndexHierarchy', 'Series', 'Frame', 'Bus')
HE_CLASSES = ('SeriesHE', 'FrameHE')
OPTIONS = ('compare_name', 'compare_dtype', 'compare_class', 'skipna')


def _side(name: str) -> tp.Optional[str]:
    if name == 'self' or name.endswith('_self'):
        return 'self'
    if name == 'other' or name.endswith('_other'):
        return 'other'
    return None


def _swap_name(name: str) -> str:
    if name == 'self':
        return 'other'
    if name == 'other':
        return 'self'
    if name.endswith('_self'):
        return name[:-5] + '_other'
    if name.endswith('_other'):
        return name[:-6] + '_self'
    return name


def _swap(e: ast.AST) -> ast.AST:
    e = copy.deepcopy(e)
    for n in ast.walk(e):
        if isinstance(n, ast.Name):
            n.id = _swap_name(n.id)
    return e


def _strip_us(e: ast.AST) -> ast.AST:
    '''x._name -> x.name : the public property and the slot denote the same value.'''
    e = copy.deepcopy(e)
    for n in ast.walk(e):
        if isinstance(n, ast.Attribute) and n.attr.startswith('_') and not n.attr.startswith('__'):
            n.attr = n.attr[1:]
    return e


class _Locals:
    '''Single-assignment locals of one function, for resolving which side an expression is rooted in.'''

    def __init__(self, f: FuncInfo):
        self.defs: tp.Dict[str, tp.List[ast.expr]] = {}
        for n in walk_local(f.node):
            if isinstance(n, ast.Assign):
                for t in n.targets:
                    if isinstance(t, ast.Name):
                        self.defs.setdefault(t.id, []).append(n.value)

    def sides(self, e: ast.AST, _depth: int = 0) -> tp.Set[str]:
        out: tp.Set[str] = set()
        for n in ast.walk(e):
            if isinstance(n, ast.Name):
                s = _side(n.id)
                if s and not (n.id in self.defs and n.id not in ('self', 'other')):
                    out.add(s)
                elif n.id in self.defs and _depth < 6:
                    for d in self.defs[n.id]:
                        out |= self.sides(d, _depth + 1)
        return out

    def root(self, e: ast.expr, _depth: int = 0) -> ast.expr:
        '''e with every local that has exactly one (non self-referential) definition replaced by that definition: the test is then
        stated over self / other directly and does not depend on what the intermediate locals are called.'''
        loc = self

        class T(ast.NodeTransformer):
            def visit_Name(self, node: ast.Name) -> ast.AST:
                if isinstance(node.ctx, ast.Load) and node.id not in ('self', 'other') and _depth < 6:
                    ds = loc.defs.get(node.id, [])
                    if len(ds) == 1 and not any(isinstance(x, ast.Name) and x.id == node.id for x in ast.walk(ds[0])):
                        return loc.root(copy.deepcopy(ds[0]), _depth + 1)
                return node
        return T().visit(copy.deepcopy(e))

    def unswappable(self, e: ast.expr) -> tp.List[str]:
        '''Locals left in e that are rooted in one operand but whose mirror cannot be named (no _self/_other convention).'''
        out = []
        for n in ast.walk(e):
            if isinstance(n, ast.Name) and n.id in self.defs and n.id not in ('self', 'other') and _side(n.id) is None and len(self.sides(n)) == 1:
                out.append(n.id)
        return out

    def mentions_isna(self, e: ast.AST, _depth: int = 0) -> bool:
        for n in ast.walk(e):
            if isinstance(n, ast.Call):
                cn = call_name(n)
                if cn == 'isna_array' or cn.endswith('.isna') or cn.endswith('isna_array'):
                    return True
            if isinstance(n, ast.Name) and n.id in self.defs and _depth < 6:
                if any(self.mentions_isna(d, _depth + 1) for d in self.defs[n.id]):
                    return True
        return False


def _canon(e: ast.AST) -> str:
    '''Canonical text with commutative forms ordered.'''
    if isinstance(e, ast.BoolOp):
        parts = sorted(_canon(v) for v in e.values)
        return ('(' + (' and ' if isinstance(e.op, ast.And) else ' or ').join(parts) + ')')
    if isinstance(e, ast.UnaryOp) and isinstance(e.op, ast.Not):
        return 'not ' + _canon(e.operand)
    if isinstance(e, ast.Compare) and len(e.ops) == 1 and isinstance(e.ops[0], (ast.Eq, ast.NotEq, ast.Is, ast.IsNot)):
        a, b = sorted([_canon(e.left), _canon(e.comparators[0])])
        return f'({a} {type(e.ops[0]).__name__} {b})'
    if isinstance(e, ast.BinOp) and isinstance(e.op, (ast.BitAnd, ast.BitOr, ast.BitXor)):
        a, b = sorted([_canon(e.left), _canon(e.right)])
        return f'({a} {type(e.op).__name__} {b})'
    if isinstance(e, ast.Call) and isinstance(e.func, ast.Attribute) and e.func.attr == 'equals' and len(e.args) == 1:
        # nested equals is itself obliged to be symmetric (H1-H3 on the callee): treat as commutative
        a, b = sorted([_canon(e.func.value), _canon(e.args[0])])
        kws = ','.join(sorted(norm(k) for k in e.keywords))
        return f'equals({a}, {b}; {kws})'
    return norm(e)


def h_equals(ctx: Ctx) -> None:
    prog = ctx.prog
    res = Resolver(prog)
    H1 = 'H1.both-missing-mask'
    H2 = 'H2.symmetric-tests'
    H2b = 'H2.option-gating'
    H3 = 'H3.option-forwarding'
    H4 = 'H4.identity-shortcut'
    ctx.rule(H1, 'the both-missing mask of every equals is a conjunction of exactly one missing-value term '
             'rooted in self and one rooted in other, and is applied only under `if skipna`', floor=3)
    ctx.rule(H2, 'every test that decides the result of equals is invariant under exchanging self and other '
             '(commutative forms normalised; isinstance(other, OwnClass) is the class gate)', floor=25)
    ctx.rule(H2b, 'comparisons of name / dtype / class are conjoined with compare_name / compare_dtype / compare_class', floor=12)
    ctx.rule(H3, 'nested equals calls compare the same component of both operands and forward every option the '
             'callee accepts, by the same name, unmodified', floor=9)
    ctx.rule(H4, 'equals returns True early only under id(other) == id(self) (possibly conjoined with the method\'s own Boolean options)', floor=7)
    H6 = 'H6.two-sided-memo'
    ctx.rule(H6, 'a set/dict local of an equals method that is consulted with `in` to skip a comparison is keyed on an expression rooted in both '
             'self and other', floor=1)

    for cname in EQUALS_CLASSES:
        k = prog.cls(cname)
        f = k.methods.get('equals')
        if f is None:
            raise AnalysisError(f'anchor vanished: {cname}.equals')
        loc = _Locals(f)

        # ---- H1
        masks = []
        for n in walk_local(f.node):
            if isinstance(n, ast.BinOp) and isinstance(n.op, ast.BitAnd) \
                    and loc.mentions_isna(n.left) and loc.mentions_isna(n.right):
                masks.append(n)
        for m in masks:
            ls, rs = loc.sides(m.left), loc.sides(m.right)
            if len(ls) == 1 and len(rs) == 1 and ls != rs:
                ctx.ok(H1, f, m, f'left rooted in {sorted(ls)}, right rooted in {sorted(rs)}', key='mask')
            elif not ls or not rs:
                ctx.unk(H1, f, m, f'cannot root the operands (left {sorted(ls)}, right {sorted(rs)})', key='mask')
            else:
                ctx.bad(H1, f, m, f'both-missing mask combines {sorted(ls)} with {sorted(rs)}: a value missing on one '
                        'side only is treated as equal, so a.equals(b) != b.equals(a)', key='mask')
            # applied only under `if skipna`
            gated = _under_test(f.node, m, lambda t: 'skipna' in {x.id for x in ast.walk(t) if isinstance(x, ast.Name)})
            (ctx.ok if gated else ctx.bad)(H1, f, m, 'mask is built under `if skipna`' if gated else
                                           'mask is applied even when skipna is False', key='mask-gate')

        # ---- H2 / H2b / H4
        for n in walk_local(f.node):
            tests: tp.List[ast.expr] = []
            if isinstance(n, ast.If) and _decides(n):
                tests.append(n.test)
            elif isinstance(n, (ast.While, ast.IfExp)):
                tests.append(n.test)
            for t in tests:
                _check_test(ctx, H2, H2b, f, k, t, loc)
        for n in walk_local(f.node):
            if isinstance(n, ast.Return) and isinstance(n.value, ast.Constant) and n.value.value is True:
                tests = _enclosing_tests(f.node, n)
                if not tests:
                    continue  # final `return True` after all tests
                def _identity(t: ast.expr) -> bool:
                    # id(a) == id(b) or `a is b` between the two operands
                    return 'id(' in norm(t) or any(isinstance(c, ast.Compare) and len(c.ops) == 1 and isinstance(c.ops[0], (ast.Is, ast.IsNot))
                                                   and {norm(c.left), norm(c.comparators[0])} == {'self', 'other'} for c in ast.walk(t))
                id_tests = [t for t, pol in tests if _identity(t)]
                if id_tests:
                    t = id_tests[0]
                    # the identity test itself, possibly conjoined with the method's own Boolean options (`skipna and id(other) == id(self)`)
                    conj = list(t.values) if isinstance(t, ast.BoolOp) and isinstance(t.op, ast.And) else [t]
                    ident = [x for x in conj if _identity(x) or isinstance(x, ast.Compare)]
                    rest = [x for x in conj if x not in ident]
                    good = len(ident) == 1 and _canon(ident[0]) in ('(id(other) Eq id(self))', '(other Is self)') \
                        and all(isinstance(x, ast.Name) and x.id in f.params for x in rest)
                    (ctx.ok if good else ctx.bad)(H4, f, t, f'identity shortcut test `{norm(t)}`', key='identity')
        # assignments of comparison results (eq = self.values == other.values)
        for n in walk_local(f.node):
            if isinstance(n, ast.Assign) and isinstance(n.value, ast.Compare):
                _check_compare(ctx, H2, f, n.value, loc)

        # ---- H6: a memo that lets a comparison be skipped is keyed on both operands
        for n in walk_local(f.node):
            if isinstance(n, ast.Compare) and len(n.ops) == 1 and isinstance(n.ops[0], (ast.In, ast.NotIn)) and isinstance(n.comparators[0], ast.Name):
                cont = n.comparators[0].id
                is_memo = any((isinstance(dv, ast.Call) and call_name(dv) in ('set', 'dict')) or isinstance(dv, (ast.Set, ast.Dict))
                              for dv in loc.defs.get(cont, []))
                if not is_memo:
                    continue
                ks = loc.sides(n.left)
                if len(ks) == 2:
                    ctx.ok(H6, f, n, f'memo `{cont}` is keyed on both operands ({norm(n.left)})', key=f'memo:{cont}')
                elif len(ks) == 1:
                    ctx.bad(H6, f, n, f'memo `{cont}` is keyed on {sorted(ks)} only: an equality established against one partner is reused for a '
                            'different partner, so equals can answer True for unequal operands (and a.equals(b) != b.equals(a))', key=f'memo:{cont}')
                else:
                    ctx.unk(H6, f, n, f'cannot root the memo key `{norm(n.left)}`', key=f'memo:{cont}')

        # ---- H3
        for n in walk_local(f.node):
            if isinstance(n, ast.Call) and isinstance(n.func, ast.Attribute) and n.func.attr == 'equals':
                recv = n.func.value
                if not n.args:
                    ctx.unk(H3, f, n, 'equals call without positional operand')
                    continue
                arg = n.args[0]
                rs, as_ = loc.sides(recv), loc.sides(arg)
                key = f'nested:{norm(recv)}'
                recv_r, arg_r = loc.root(recv), loc.root(arg)
                if loc.unswappable(recv_r) or loc.unswappable(arg_r):
                    ctx.unk(H3, f, n, f'the mirror of {loc.unswappable(recv_r) + loc.unswappable(arg_r)} cannot be named', key=key)
                    continue
                if len(rs) == 1 and len(as_) == 1 and rs != as_:
                    a = _canon(_strip_us(_swap(recv_r)))
                    b = _canon(_strip_us(arg_r))
                    if a != b:
                        ctx.bad(H3, f, n, f'compares {norm(recv)} with {norm(arg)} — different components of the two operands', key=key)
                        continue
                elif rs == as_ and len(rs) == 1:
                    ctx.bad(H3, f, n, f'compares {norm(recv)} with {norm(arg)} — both rooted in {sorted(rs)}', key=key)
                    continue
                else:
                    ctx.unk(H3, f, n, f'cannot root receiver/argument ({sorted(rs)} / {sorted(as_)})', key=key)
                    continue
                passed: tp.Dict[str, ast.expr] = {kw.arg: kw.value for kw in n.keywords if kw.arg}
                for kw in n.keywords:
                    if kw.arg is None and isinstance(kw.value, ast.Name):
                        for d in loc.defs.get(kw.value.id, []):
                            if isinstance(d, ast.Call) and call_name(d) == 'dict':
                                passed.update({x.arg: x.value for x in d.keywords if x.arg})
                            elif isinstance(d, ast.Dict):
                                for kk, vv in zip(d.keys, d.values):
                                    if isinstance(kk, ast.Constant):
                                        passed[kk.value] = vv
                quality, targets = res.resolve_call(f, n)
                targets = [t for t in targets if t.name == 'equals' and not _abstract(t)]
                problems = []
                undecided = []
                for opt in OPTIONS:
                    if opt not in f.params:
                        continue
                    v = passed.get(opt)
                    if v is not None:
                        if not (isinstance(v, ast.Name) and v.id == opt):
                            problems.append(f'{opt}= is passed `{unparse(v)}`, not the caller\'s own {opt}')
                    else:
                        acc = [t for t in targets if opt in t.params]
                        if targets and not acc:
                            continue  # callee does not take this option
                        if quality in ('exact', 'cha') and acc:
                            problems.append(f'{opt} is accepted by {acc[0].qualname} but not forwarded (the default is used instead)')
                        elif acc and len(acc) == len(targets):
                            problems.append(f'{opt} is accepted by every equals implementation but not forwarded')
                        else:
                            undecided.append(opt)
                if problems:
                    ctx.bad(H3, f, n, '; '.join(problems), key=key)
                elif undecided:
                    ctx.unk(H3, f, n, f'callee unresolved; cannot tell whether it accepts {undecided}', key=key)
                else:
                    ctx.ok(H3, f, n, f'{norm(recv)} vs {norm(arg)}; options forwarded: {sorted(o for o in passed if o in OPTIONS)} ({quality})', key=key)


def _decides(n: ast.If) -> bool:
    '''An if-statement decides the result when a return / break / continue hangs off it.'''
    for s in list(n.body) + list(n.orelse):
        for x in ast.walk(s):
            if isinstance(x, (ast.Return, ast.Break, ast.Continue)):
                return True
    return False


def _abstract(f: FuncInfo) -> bool:
    body = [s for s in f.node.body if not (isinstance(s, ast.Expr) and isinstance(s.value, ast.Constant))]
    return len(body) == 1 and isinstance(body[0], ast.Raise)


def _atoms(t: ast.expr) -> tp.List[ast.expr]:
    if isinstance(t, ast.BoolOp):
        out = []
        for v in t.values:
            out.extend(_atoms(v))
        return out
    if isinstance(t, ast.UnaryOp) and isinstance(t.op, ast.Not):
        return _atoms(t.operand)
    return [t]


def _check_compare(ctx: Ctx, rule: str, f: FuncInfo, c: ast.Compare, loc: _Locals) -> None:
    if len(c.ops) != 1:
        return
    l, r = c.left, c.comparators[0]
    ls, rs = loc.sides(l), loc.sides(r)
    if not ls and not rs:
        return
    key = f'cmp:{norm(c)}'
    l, r = loc.root(l), loc.root(r)
    if loc.unswappable(l) or loc.unswappable(r):
        ctx.unk(rule, f, c, f'the mirror of {loc.unswappable(l) + loc.unswappable(r)} cannot be named', key=key)
    elif len(ls) == 1 and len(rs) == 1 and ls != rs:
        a, b = _canon(_strip_us(_swap(l))), _canon(_strip_us(r))
        if a == b:
            ctx.ok(rule, f, c, f'`{norm(l)}` vs the same expression over the other operand', key=key)
        else:
            ctx.unk(rule, f, c, f'`{norm(l)}` and `{norm(r)}` are different expressions over the two operands', key=key)
    elif ls == rs and len(ls) == 1 and ls:
        ctx.bad(rule, f, c, f'compares `{norm(l)}` with `{norm(r)}`: both sides are rooted in {sorted(ls)}, '
                'so the operand on the other side is never consulted', key=key)


def _check_test(ctx: Ctx, H2: str, H2b: str, f: FuncInfo, k, t: ast.expr, loc: _Locals) -> None:
    own_classes = {c.name for c in k.mro} | {k.name}
    # drop the class gate isinstance(other, K)
    def prune(e: ast.expr) -> tp.Optional[ast.expr]:
        if isinstance(e, ast.BoolOp):
            vals = [p for p in (prune(v) for v in e.values) if p is not None]
            if not vals:
                return None
            if len(vals) == 1:
                return vals[0]
            return ast.BoolOp(op=e.op, values=vals)
        if isinstance(e, ast.UnaryOp) and isinstance(e.op, ast.Not):
            p = prune(e.operand)
            return None if p is None else ast.UnaryOp(op=ast.Not(), operand=p)
        if isinstance(e, ast.Call) and call_name(e) == 'isinstance' and len(e.args) == 2 \
                and isinstance(e.args[0], ast.Name) and e.args[0].id == 'other' \
                and isinstance(e.args[1], ast.Name) and e.args[1].id in own_classes:
            return None
        return e
    pt = prune(t)
    if pt is None:
        ctx.ok(H2, f, t, 'class gate isinstance(other, OwnClass)', key=f'test:{norm(t)}')
        return
    sides = loc.sides(pt)
    pt = loc.root(pt)
    if sides and loc.unswappable(pt):
        ctx.unk(H2, f, t, f'the mirror of {loc.unswappable(pt)} cannot be named: symmetry of this test is not decided', key=f'test:{norm(t)}')
    elif sides:
        if _canon(pt) == _canon(_swap(pt)):
            ctx.ok(H2, f, t, 'test is invariant under self<->other', key=f'test:{norm(t)}')
        else:
            # look at the individual comparisons to name the culprit
            culprit = False
            for a in _atoms(pt):
                if isinstance(a, ast.Compare):
                    before = len(ctx.obs)
                    _check_compare(ctx, H2, f, a, loc)
                    if any(o.status == 'violated' for o in ctx.obs[before:]):
                        culprit = True
            if not culprit:
                one_sided = [a for a in _atoms(pt) if len(loc.sides(a)) == 1]
                if one_sided and all(not isinstance(a, ast.Compare) or loc.sides(a.left) != loc.sides(a.comparators[0]) or True for a in one_sided):
                    # an asymmetric test made only of one-sided atoms (e.g. self.x is None without the mirror)
                    names = {norm(a) for a in one_sided}
                    swapped = {norm(_swap(a)) for a in one_sided}
                    if names != swapped:
                        ctx.bad(H2, f, t, f'test `{norm(t)}` consults {sorted(names - swapped)} on one operand only', key=f'test:{norm(t)}')
                    else:
                        ctx.unk(H2, f, t, 'test is not syntactically symmetric', key=f'test:{norm(t)}')
                else:
                    ctx.unk(H2, f, t, 'test is not syntactically symmetric', key=f'test:{norm(t)}')
    # option gating
    gate = {'name': 'compare_name', 'dtype': 'compare_dtype', 'dtypes': 'compare_dtype', '__class__': 'compare_class'}
    names_in_test = {x.id for x in ast.walk(t) if isinstance(x, ast.Name)}
    for a in _atoms(t):
        if not isinstance(a, ast.Compare):
            continue
        attrs = set()
        for side in (a.left, a.comparators[0]):
            if isinstance(side, ast.Attribute):
                attrs.add(side.attr.lstrip('_') if not side.attr.startswith('__') else side.attr)
        for at in attrs:
            opt = gate.get(at)
            if opt is None or opt not in f.params:
                continue
            conj = isinstance(t, ast.BoolOp) and isinstance(t.op, ast.And) and any(
                isinstance(v, ast.Name) and v.id == opt for v in t.values)
            if conj:
                ctx.ok(H2b, f, t, f'{at} comparison is gated by {opt}', key=f'gate:{at}')
            elif opt in names_in_test:
                ctx.unk(H2b, f, t, f'{opt} occurs in the test but not as a top-level conjunct', key=f'gate:{at}')
            else:
                ctx.bad(H2b, f, t, f'{at} is compared unconditionally: equals is no longer indifferent to {at} when {opt} is False', key=f'gate:{at}')


def _enclosing_tests(root: ast.AST, target: ast.AST) -> tp.List[tp.Tuple[ast.expr, bool]]:
    '''[(test, polarity)] of the if-statements enclosing target (innermost last).'''
    path: tp.List[tp.Tuple[ast.expr, bool]] = []

    def rec(node: ast.AST, acc: tp.List[tp.Tuple[ast.expr, bool]]) -> bool:
        if node is target:
            path.extend(acc)
            return True
        if isinstance(node, ast.If):
            for s in node.body:
                if rec(s, acc + [(node.test, True)]):
                    return True
            for s in node.orelse:
                if rec(s, acc + [(node.test, False)]):
                    return True
            return False
        for ch in ast.iter_child_nodes(node):
            if isinstance(ch, (ast.FunctionDef, ast.Lambda, ast.ClassDef)) and ch is not root:
                continue
            if rec(ch, acc):
                return True
        return False
    rec(root, [])
    return path


def _under_test(root: ast.AST, target: ast.AST, pred: tp.Callable[[ast.expr], bool]) -> bool:
    return any(pol and pred(t) for t, pol in _enclosing_tests(root, target))


def h_he(ctx: Ctx) -> None:
    H5 = 'H5.hash-contract'
    ctx.rule(H5, 'SeriesHE/FrameHE.__eq__ is equals(other, compare_name=True, compare_dtype=False, '
             'compare_class=False, skipna=True); __ne__ is its negation; __hash__ reads only labels / '
             'name / shape (never values, dtypes or class) and hashes the label objects themselves, not a conversion of them (tolist / astype / str ...)', floor=6)
    prog = ctx.prog
    want = {'compare_name': True, 'compare_dtype': False, 'compare_class': False, 'skipna': True}
    for cname in HE_CLASSES:
        k = prog.cls(cname)
        eq = k.methods.get('__eq__')
        ne = k.methods.get('__ne__')
        hs = k.methods.get('__hash__')
        if eq is None or ne is None or hs is None:
            raise AnalysisError(f'anchor vanished: {cname}.__eq__/__ne__/__hash__')
        rets = [n for n in walk_local(eq.node) if isinstance(n, ast.Return)]
        call = rets[0].value if len(rets) == 1 and isinstance(rets[0].value, ast.Call) else None
        if call is None or call_name(call) != 'self.equals':
            ctx.unk(H5, eq, eq.node, '__eq__ is not a single `return self.equals(...)`', key=f'{cname}.__eq__')
        else:
            problems = []
            if not (call.args and isinstance(call.args[0], ast.Name) and call.args[0].id == eq.params[1]):
                problems.append('the operand passed to equals is not the __eq__ argument')
            for opt, val in want.items():
                v = kwarg(call, opt)
                target = k.lookup('equals')
                default = target.param_default(opt) if target else None
                eff = v if v is not None else default
                if not (isinstance(eff, ast.Constant) and eff.value is val):
                    problems.append(f'{opt} is effectively {unparse(eff)}, expected {val}')
            (ctx.bad if problems else ctx.ok)(H5, eq, call, '; '.join(problems) or 'equals with name=True dtype=False class=False skipna=True', key=f'{cname}.__eq__')
        rets = [n for n in walk_local(ne.node) if isinstance(n, ast.Return)]
        txt = norm(rets[0].value) if len(rets) == 1 else ''
        other = ne.params[1] if len(ne.params) > 1 else 'other'
        good = txt in (f'not self.__eq__({other})', f'not self == {other}', f'not (self == {other})')
        (ctx.ok if good else ctx.bad)(H5, ne, ne.node, f'__ne__ returns `{txt}`', key=f'{cname}.__ne__')
        # hash inputs
        allowed = {'index', 'columns', '_index', '_columns', '_hash', 'name', '_name', 'shape'}
        forbidden_anywhere = {'dtype', 'dtypes', '__class__', '_blocks', '_dtypes'}
        problems = []
        reads = set()
        for n in walk_local(hs.node):
            if isinstance(n, ast.Attribute):
                ch = []
                m: ast.AST = n
                while isinstance(m, ast.Attribute):
                    ch.append(m.attr)
                    m = m.value
                if isinstance(m, ast.Name) and m.id == 'self':
                    ch.reverse()
                    reads.add('.'.join(ch))
                    if ch[0] not in allowed:
                        problems.append(f'reads self.{ch[0]}')
                    for c in ch:
                        if c in forbidden_anywhere:
                            problems.append(f'reads {c} (equal containers may differ in it)')
        # the hashed elements are the very label objects equals compares: no conversion in between.  tolist() / astype / item / str ... map labels that
        # compare equal (datetime64 of different units, NumPy vs Python scalars of differing width) to values that do not, which breaks a == b => hash(a) == hash(b)
        CONVERTERS = {'tolist', 'astype', 'item', 'str', 'repr', 'format', 'round', 'int', 'float', 'bytes', 'tobytes', 'tostring', 'view', 'map', 'dumps'}
        NEUTRAL = {'hash', 'tuple', 'hasattr', 'len', 'frozenset', 'zip', 'chain', 'list', 'iter', 'setattr', 'getattr'}
        unknown_calls = []
        for n in walk_local(hs.node):
            if isinstance(n, ast.Call):
                nm = n.func.attr if isinstance(n.func, ast.Attribute) else n.func.id if isinstance(n.func, ast.Name) else '?'
                if nm in CONVERTERS:
                    problems.append(f'hashes labels through `{nm}()`: a conversion under which labels that compare equal can become unequal')
                elif nm not in NEUTRAL:
                    unknown_calls.append(nm)
        if unknown_calls and not problems:
            ctx.unk(H5, hs, hs.node, f'hash inputs pass through {sorted(set(unknown_calls))}: whether equal labels stay equal under it is not decided', key=f'{cname}.__hash__:calls')
        # keep only maximal chains for the report
        (ctx.bad if problems else ctx.ok)(H5, hs, hs.node, '; '.join(sorted(set(problems))) or f'hash inputs: {sorted(r for r in reads if not any(o != r and o.startswith(r + ".") for o in reads))}', key=f'{cname}.__hash__')
