'''C02 Index: unique labels, exact label-to-position bijection.'''
from sfa.report import Ctx
from sfa.rules import recache

LEVEL_TEXT = (
    'Static decision of structural clauses of C02. (c) Coherence after growth: every read of the lazily rebuilt '
    'Index._labels/_positions and ArrayGO._array anywhere in core is dominated by the staleness guard '
    '(forward must-dataflow over every path of every function, with ensures-fresh summaries and interprocedural '
    'requires-fresh propagation for private readers). A read without the guard serves the pre-growth arrays after an '
    'append, which breaks the label<->position bijection for that method on a grown index. Not decided: correctness '
    'of the AutoMap hash map, NaN/float label equality, offset arithmetic of IndexLevel.leaf_loc_to_iloc.')

CLAIM = dict(
    text=LEVEL_TEXT,
    technique='typestate dataflow on lazy-cache freshness (dominance of the staleness guard over every read) with function summaries',
    design_ref='DESIGN.md section 2.B and section 3 C02',
)


def run(ctx: Ctx) -> None:
    recache.check(ctx, 'Index', floor_reads=36)
    recache.check(ctx, 'ArrayGO', floor_reads=5)
