'''C07 No lossy coercion when values of different types meet.'''
from sfa.report import Ctx
from sfa.rules import flowmisc
from sfa.rules import alignrules
from sfa.rules import resolve

LEVEL_TEXT = (
    'Static decision of the routing clause of C07: every site that merges typed data goes through the dtype resolver before writing. '
    'F1: each of ~100 arrays that receive an in-place store was allocated with a dtype able to hold the stored values — a copy of '
    'existing data only on the `src.dtype == resolved` branch of the copy-or-astype idiom (resolved = resolve_dtype(value dtype, '
    'src.dtype)), astype / np.empty / np.full targets name a resolver-derived, constant or same-source dtype, full_for_fill resolves '
    'by itself; F2: every np.concatenate writes into an out= array of a resolved dtype, or joins operands already cast to the row '
    'dtype, or is reached only with equal-dtype groups, and no np.hstack/vstack/append/insert/stack touches data; F3: in resolve_dtype '
    'every np.result_type is dominated by a same-family guard or by the negative guard returning object for str / bool / datetime / '
    'timedelta / object mixes (must-dataflow over the guard atoms); TypeBlocks.append widens the row dtype to object on mismatch; '
    'prepare_iter_for_array forces object on each mixing flag. Reindex with a fill value: per path, IndexCorrespondence.iloc_src / iloc_dst are read only where has_common / is_subset holds, so labels absent from the source receive the fill value, never another row\'s values. Dtype accumulators: a per-key dtype map filled in a loop merges repeated keys with the resolver, and a dtype that types an array built from a loop-filled list is only widened inside that loop (pivot_stack / pivot_unstack column dtypes). Derived flags: a local recording a fact about an array (any / all / sum / len) is not tested after that array was changed in place (a block is passed through untouched exactly when the narrowed mask is empty). Fill arrays: util.full_for_fill (behind reindex, shift and the aligned axis of concatenation) types its array by resolving the target dtype with the dtype of the fill element on every path. Type tests: a class taken with type(v) is never tested by `in` against a tuple holding an abstract NumPy scalar class (equality never matches np.float64 / np.int64). Not decided: numeric promotion inside NumPy (ints above 2**53 to float, '
    'int64+uint64), string width arithmetic of np.result_type — the dtype product is runtime data.')

CLAIM = dict(
    text=LEVEL_TEXT,
    technique='def-use of store targets against the resolver idiom + concatenate operand classification + guard dominance in the resolver',
    design_ref='DESIGN.md section 2.F and section 3 C07',
)


def run(ctx: Ctx) -> None:
    resolve.f1_merge_stores(ctx)
    resolve.f1_resolver_coverage(ctx)
    resolve.f1_resolver_operand(ctx)
    resolve.f2_concatenations(ctx)
    resolve.f3_resolver_shape(ctx)
    resolve.f1_dtype_accumulators(ctx)
    resolve.f1_loop_dtype_carried(ctx)
    alignrules.correspondence_guards(ctx)
    flowmisc.stale_derived_flag(ctx)
    resolve.f1_full_for_fill(ctx)
    resolve.type_membership_by_subclass(ctx)
