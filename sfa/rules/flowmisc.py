'''Family I — single-purpose rules (dialect agreement, dtype-specifier lint, parallel primitives, ...).'''
from __future__ import annotations

import ast
import typing as tp

from sfa import flow
from sfa.model import AnalysisError
from sfa.model import FuncInfo
from sfa.model import attr_chain
from sfa.model import call_name
from sfa.model import kwarg
from sfa.model import norm
from sfa.model import walk_local
from sfa import roles
from sfa.report import Ctx


# ---------------------------------------------------------------------------------------
def dtype_specifier_lint(ctx: Ctx) -> None:
    R = 'I.dtype-specifier'
    ctx.rule(R, 'no dtype= argument in core is the class np.dtype itself (NumPy >= 2 rejects it as a specifier); '
             'TypeBlocks.dtypes is on the path of Frame.dtypes and of every multi-row IndexHierarchy extraction', floor=1)
    prog = ctx.prog
    n = 0
    hits = 0
    for f in prog.all_funcs():
        if isinstance(f.node, ast.Lambda):
            continue
        for c in walk_local(f.node):
            if isinstance(c, ast.Call):
                d = kwarg(c, 'dtype')
                if d is None:
                    continue
                n += 1
                ch = attr_chain(d)
                if ch and ch[-1] == 'dtype' and ch[0] in ('np', 'numpy') and len(ch) == 2:
                    hits += 1
                    ctx.bad(R, f, c, f'`{norm(c)[:80]}` passes the class np.dtype as dtype specifier: TypeError under NumPy 2', key=f'{f.name}:{norm(c)[:80]}')
    fixture = ast.parse('a = np.array(x, dtype=np.dtype)').body[0].value
    ch = attr_chain(kwarg(fixture, 'dtype'))
    if not (ch and ch[-1] == 'dtype' and len(ch) == 2):
        raise AnalysisError('positive fixture of I.dtype-specifier no longer matches')
    if n < 100:
        raise AnalysisError(f'only {n} dtype= call sites found in core (expected > 100)')
    ctx.ok(R, 'core.<all calls>', None, f'{n} calls passing dtype= examined, {hits} pass np.dtype itself (fixture matched)', key='all-dtype-kw', file='static_frame/core')
    # the anchor itself
    f = prog.cls('TypeBlocks').methods.get('dtypes')
    ctx.require(f is not None, 'TypeBlocks.dtypes')
    calls = [c for c in walk_local(f.node) if isinstance(c, ast.Call) and call_name(c) in ('np.array', 'np.empty', 'np.fromiter')]
    ok_spec = [c for c in calls if norm(kwarg(c, 'dtype')) in ('DTYPE_OBJECT', 'object', 'np.object_')]
    (ctx.ok if ok_spec else ctx.unk)(R, f, f.node, 'TypeBlocks.dtypes builds an object array of dtype objects' if ok_spec else
                                     'TypeBlocks.dtypes: unrecognised construction', key='TypeBlocks.dtypes')


# ---------------------------------------------------------------------------------------
def dialect_agreement(ctx: Ctx) -> None:
    R = 'I.csv-dialect-agreement'
    ctx.rule(R, 'every row written by Frame.to_delimited passes a csv.writer configured with the delimiter and quote character, '
             'so every row source of Frame.from_delimited must pass a csv.reader configured with the same two parameters; '
             'to_csv/from_csv and to_tsv/from_tsv pass the same delimiter constant to the shared workers', floor=6)
    prog = ctx.prog
    frame = prog.cls('Frame')
    td = frame.methods.get('to_delimited')
    fd = frame.methods.get('from_delimited')
    if td is None or fd is None:
        raise AnalysisError('anchor vanished: Frame.to_delimited / from_delimited')
    writers = [c for c in walk_local(td.node) if isinstance(c, ast.Call) and call_name(c) == 'csv.writer']
    ctx.require(len(writers) == 1, 'Frame.to_delimited builds one csv.writer')
    w = writers[0]
    good = norm(kwarg(w, 'delimiter')) == 'delimiter' and norm(kwarg(w, 'quotechar')) == 'quote_char'
    (ctx.ok if good else ctx.bad)(R, td, w, 'csv.writer(delimiter=delimiter, quotechar=quote_char)' if good else
                                  f'csv.writer is configured with delimiter={norm(kwarg(w, "delimiter"))} quotechar={norm(kwarg(w, "quotechar"))}', key='writer')
    rows_via_writer = all(any(isinstance(x, ast.Call) and norm(x.func).endswith('.writerow') for x in ast.walk(s))
                          for s in walk_local(td.node) if isinstance(s, ast.For) and '_to_str_records' in norm(s.iter))
    (ctx.ok if rows_via_writer else ctx.bad)(R, td, td.node, 'every record is emitted through writerow', key='writer-rows')
    # row sources of the reader
    sources = [nf for nf in fd.nested if nf.name == 'file_like']
    ctx.require(len(sources) >= 1, 'from_delimited defines its row source(s)')
    for i, src in enumerate(sources):
        for y in [n for n in walk_local(src.node) if isinstance(n, (ast.Yield, ast.YieldFrom))]:
            # the loop that produces the yielded row
            loop = None
            for lp in walk_local(src.node):
                if isinstance(lp, ast.For) and any(x is y for b in lp.body for x in ast.walk(b)):
                    loop = lp
            # what is iterated, by role: a file opened in this function (with ... as <name>), or the parameter handed in
            what_iter = norm(loop.iter)[:60] if loop is not None else norm(y)[:40]
            if loop is not None and isinstance(loop.iter, ast.Name):
                opened = {it.optional_vars.id for wth in ast.walk(src.node) if isinstance(wth, ast.With) for it in wth.items if isinstance(it.optional_vars, ast.Name)}
                if loop.iter.id in opened:
                    what_iter = 'opened-file'
            key = f'reader-source[{i}]:{what_iter}'
            if loop is not None and isinstance(loop.iter, ast.Call) and call_name(loop.iter) == 'csv.reader':
                c = loop.iter
                good = norm(kwarg(c, 'delimiter')) == 'delimiter' and norm(kwarg(c, 'quotechar')) == 'quote_char'
                (ctx.ok if good else ctx.bad)(R, src, loop, 'rows come from csv.reader(delimiter=delimiter, quotechar=quote_char)' if good else
                                              f'csv.reader configured with delimiter={norm(kwarg(c, "delimiter"))} quotechar={norm(kwarg(c, "quotechar"))}: '
                                              'reader and writer dialects differ', key=key)
            else:
                ctx.bad(R, src, loop if loop is not None else y, 'raw lines are yielded without csv.reader: quoting applied by the csv.writer on export '
                        '(a cell containing the quote character, the delimiter or a newline) is never undone on import', key=key)
    # wrappers pass matching constants
    pairs = {}
    for name in ('to_csv', 'from_csv', 'to_tsv', 'from_tsv'):
        f = frame.methods.get(name)
        if f is None:
            raise AnalysisError(f'anchor vanished: Frame.{name}')
        consts = [norm(kwarg(c, 'delimiter')) for c in walk_local(f.node) if isinstance(c, ast.Call) and kwarg(c, 'delimiter') is not None]
        pairs[name] = consts
    for a, b in (('to_csv', 'from_csv'), ('to_tsv', 'from_tsv')):
        good = len(set(pairs[a])) == 1 and set(pairs[a]) == set(pairs[b]) and all(x.startswith("'") for x in pairs[a])
        (ctx.ok if good else ctx.bad)(R, frame.methods[a], frame.methods[a].node, f'{a} and {b} pass delimiter {pairs[a]} / {pairs[b]}', key=f'wrappers:{a}')


def accumulator_consistency(ctx: Ctx, only: tp.Optional[tp.Sequence[str]] = None) -> None:
    R = 'I.accumulator-update-consistency'
    ctx.rule(R, 'contradiction rule (Engler et al.): within one loop, the paths that update the same cell `A[i]` of a carried array or mapping '
             'agree on how it is updated — all accumulate (`+=`) or all (re)define (`=` of a non-constant); a loop in which one path '
             'accumulates a running count and a sibling path overwrites it holds two contradictory beliefs about what the cell means '
             '(resets to a constant are a separate, accepted form)', floor=1 if only else 8)
    prog = ctx.prog
    n = 0
    for f in prog.all_funcs():
        if isinstance(f.node, ast.Lambda):
            continue
        if only is not None and not any(f.qualname.startswith(o) for o in only):
            continue
        for lp in walk_local(f.node):
            if not isinstance(lp, (ast.For, ast.While)):
                continue
            ups: tp.Dict[str, tp.List[tp.Tuple[str, ast.stmt]]] = {}
            for s in ast.walk(lp):
                if isinstance(s, ast.AugAssign) and isinstance(s.target, ast.Subscript):
                    ups.setdefault(norm(s.target), []).append(('accumulate', s))
                elif isinstance(s, ast.Assign) and isinstance(s.targets[0], ast.Subscript) and not isinstance(s.value, ast.Constant):
                    ups.setdefault(norm(s.targets[0]), []).append(('define', s))
            # only the innermost loop that contains all the updates of a cell is the instance
            for cell, lst in ups.items():
                if len(lst) < 2:
                    continue
                inner = [x for x in ast.walk(lp) if isinstance(x, (ast.For, ast.While)) and x is not lp and all(any(y is s for y in ast.walk(x)) for _k, s in lst)]
                if inner:
                    continue
                n += 1
                kinds = {k for k, _s in lst}
                key = f'{f.name}:{cell}@loop#{sum(1 for x in walk_local(f.node) if isinstance(x, (ast.For, ast.While)) and x.lineno <= lp.lineno)}'
                if len(kinds) == 1:
                    ctx.ok(R, f, lst[0][1], f'{len(lst)} updates of `{cell}`, all `{next(iter(kinds))}`', key=key)
                else:
                    odd = [s for k, s in lst if k == 'define']
                    ctx.bad(R, f, odd[0], f'`{cell}` is accumulated on one path of the loop and overwritten (`{norm(odd[0])[:70]}`) on another: the carried value means '
                            'two different things, one of the paths loses (or double-counts) what was carried in', key=key)
    ctx.require(n >= (1 if only else 8), 'loops with several updates of one cell')


# ---------------------------------------------------------------------------------------
# symbolic cell counts (linear forms over one symbol)

class _Lin:
    '''a * D + b, D = the index depth.'''

    def __init__(self, a: int = 0, b: int = 0):
        self.a, self.b = a, b

    def __add__(self, o: '_Lin') -> '_Lin':
        return _Lin(self.a + o.a, self.b + o.b)

    def __sub__(self, o: '_Lin') -> '_Lin':
        return _Lin(self.a - o.a, self.b - o.b)

    def scale(self, k: int) -> '_Lin':
        return _Lin(self.a * k, self.b * k)

    def __eq__(self, o: object) -> bool:
        return isinstance(o, _Lin) and (self.a, self.b) == (o.a, o.b)

    def __repr__(self) -> str:
        if self.a == 0:
            return str(self.b)
        return (f'{self.a}*' if self.a != 1 else '') + 'depth' + (f' {"+" if self.b > 0 else "-"} {abs(self.b)}' if self.b else '')


def _lin_of(e: ast.expr, depth_names: tp.Set[str], depth_proxies: tp.Set[str]) -> tp.Optional[_Lin]:
    if isinstance(e, ast.Constant) and isinstance(e.value, int) and not isinstance(e.value, bool):
        return _Lin(0, e.value)
    if isinstance(e, ast.UnaryOp) and isinstance(e.op, ast.USub):
        v = _lin_of(e.operand, depth_names, depth_proxies)
        return v.scale(-1) if v is not None else None
    if isinstance(e, ast.Name) and e.id in depth_names:
        return _Lin(1, 0)
    if isinstance(e, ast.Call) and call_name(e) == 'len' and e.args and isinstance(e.args[0], ast.Name) and e.args[0].id in depth_proxies:
        return _Lin(1, 0)
    if isinstance(e, ast.BinOp) and isinstance(e.op, (ast.Add, ast.Sub)):
        a, b = _lin_of(e.left, depth_names, depth_proxies), _lin_of(e.right, depth_names, depth_proxies)
        if a is None or b is None:
            return None
        return a + b if isinstance(e.op, ast.Add) else a - b
    return None


def _iter_count(it: ast.expr, depth_names: tp.Set[str], depth_proxies: tp.Set[str]) -> tp.Optional[_Lin]:
    '''Number of items an iterable yields, as a linear form in the depth.'''
    if isinstance(it, ast.Call) and call_name(it) == 'range':
        if len(it.args) == 1:
            return _lin_of(it.args[0], depth_names, depth_proxies)
        if len(it.args) == 2:
            a, b = _lin_of(it.args[0], depth_names, depth_proxies), _lin_of(it.args[1], depth_names, depth_proxies)
            return b - a if a is not None and b is not None else None
        return None
    if isinstance(it, ast.Name) and it.id in depth_proxies:
        return _Lin(1, 0)
    if isinstance(it, ast.Subscript) and isinstance(it.value, ast.Name) and it.value.id in depth_proxies and not isinstance(it.slice, ast.Slice):
        return _Lin(1, 0)          # one row of the 2-D label array: depth cells
    if isinstance(it, (ast.Tuple, ast.List)):
        return _Lin(0, len(it.elts))
    return None


def _cells_added(stmts: tp.Sequence[ast.stmt], row: str, depth_names: tp.Set[str], depth_proxies: tp.Set[str]) -> tp.Optional[_Lin]:
    '''Cells appended to `row` by a statement list (if/else branches must agree), None when not countable.'''
    total = _Lin(0, 0)
    for s in stmts:
        if isinstance(s, ast.Expr) and isinstance(s.value, ast.Call) and isinstance(s.value.func, ast.Attribute) and norm(s.value.func.value) == row:
            c = s.value
            if c.func.attr == 'append':
                total = total + _Lin(0, 1)
            elif c.func.attr == 'extend' and c.args:
                a = c.args[0]
                if isinstance(a, (ast.GeneratorExp, ast.ListComp)) and len(a.generators) == 1 and not a.generators[0].ifs:
                    k = _iter_count(a.generators[0].iter, depth_names, depth_proxies)
                else:
                    k = _iter_count(a, depth_names, depth_proxies)
                if k is None:
                    return None
                total = total + k
            else:
                return None
        elif isinstance(s, ast.For):
            k = _iter_count(s.iter, depth_names, depth_proxies)
            per = _cells_added(s.body, row, depth_names, depth_proxies)
            if k is None or per is None or per.a != 0 or s.orelse:
                return None
            total = total + k.scale(per.b)
        elif isinstance(s, ast.If):
            a = _cells_added(s.body, row, depth_names, depth_proxies)
            b = _cells_added(s.orelse, row, depth_names, depth_proxies)
            if a is None or b is None or not (a == b):
                return None
            total = total + a
        elif isinstance(s, (ast.Pass, ast.Assign, ast.AnnAssign)):
            continue
        else:
            return None
    return total


def record_width(ctx: Ctx) -> None:
    R = 'I.record-width'
    ctx.rule(R, 'every record Frame._to_str_records emits has the same width: under include_index each header row opens with exactly `index depth` cells on every one '
             'of its branches (index names / columns name / blanks) and each data row opens with exactly `index depth` index cells — counted symbolically as linear '
             'forms in the depth (append = 1, extend over range(a, b) = b - a, a loop over range(n) = n x its body); a header one cell short shifts every column label', floor=4)
    f = ctx.prog.method('Frame', '_to_str_records', inherited=False)
    depth_names = set(roles.assigned_from_all(f.node, lambda v: isinstance(v, ast.Attribute) and v.attr == 'depth'))
    depth_proxies = set(roles.assigned_from_all(f.node, lambda v: isinstance(v, ast.Attribute) and v.attr in ('names', 'values') and isinstance(v.value, ast.Name)
                                                and v.value.id in set(roles.assigned_from_all(f.node, lambda w: norm(w) == 'self._index')) | {'index'}))
    ctx.require(bool(depth_names), '_to_str_records reads the index depth')
    rows = set(roles.assigned_from_all(f.node, lambda v: isinstance(v, ast.List) and not v.elts))
    n = 0
    for i in ast.walk(f.node):
        if not (isinstance(i, ast.If) and norm(i.test) == 'include_index'):
            continue
        for row in rows:
            # an if / elif / else chain directly under `if include_index:` whose every branch appends to `row`
            chain = [s for s in i.body if isinstance(s, ast.If)]
            for ch in chain:
                branches: tp.List[tp.Tuple[str, tp.Sequence[ast.stmt]]] = []
                cur: tp.Optional[ast.If] = ch
                while cur is not None:
                    branches.append((norm(cur.test), cur.body))
                    if len(cur.orelse) == 1 and isinstance(cur.orelse[0], ast.If):
                        cur = cur.orelse[0]
                    else:
                        if cur.orelse:
                            branches.append(('else', cur.orelse))
                        cur = None
                if not any(row in norm(ast.Module(body=list(b), type_ignores=[])) for _t, b in branches):
                    continue
                for test, body in branches:
                    cnt = _cells_added(body, row, depth_names, depth_proxies)
                    n += 1
                    key = f'_to_str_records:{test[:30]}'
                    # `if index_depth == 1: row.append(x)` contributes 1 = depth under its own guard
                    single = any(test == f'{d} == 1' for d in depth_names)
                    if cnt is None:
                        ctx.unk(R, f, body[0], f'cell count of the `{test}` branch is not a linear form', key=key)
                    elif cnt == _Lin(1, 0) or (single and cnt == _Lin(0, 1)):
                        ctx.ok(R, f, body[0], f'the `{test}` branch opens the row with {cnt} cell(s) = the index depth', key=key)
                    else:
                        ctx.bad(R, f, body[0], f'the `{test}` branch opens the row with {cnt} cells, not with as many as the index has depths: the rest of the row is shifted '
                                'against the data rows, so labels and values no longer line up on import', key=key)
    ctx.require(n >= 4, 'row-opening branches of _to_str_records')


# names that existed in NumPy 1.x and are gone from the NumPy 2.x this checkout is pinned to (release notes of 2.0 - 2.5: expired deprecations and removals)
NUMPY_REMOVED = {
    'in1d': 'np.isin', 'product': 'np.prod', 'cumproduct': 'np.cumprod', 'sometrue': 'np.any', 'alltrue': 'np.all', 'row_stack': 'np.vstack',
    'float_': 'np.float64', 'complex_': 'np.complex128', 'unicode_': 'np.str_', 'string_': 'np.bytes_', 'NaN': 'np.nan', 'Inf': 'np.inf', 'Infinity': 'np.inf',
    'PINF': 'np.inf', 'NINF': '-np.inf', 'round_': 'np.round', 'asfarray': 'np.asarray(dtype=float)', 'find_common_type': 'np.result_type', 'cast': 'np.asarray',
    'obj2sctype': None, 'issubclass_': None, 'msort': 'np.sort(axis=0)', 'trapz': 'np.trapezoid', 'issctype': None, 'sctype2char': None, 'maximum_sctype': None,
    'set_string_function': None, 'source': None, 'who': None, 'safe_eval': None, 'mat': 'np.asmatrix', 'Inf': 'np.inf', 'longfloat': 'np.longdouble',
    'singlecomplex': 'np.complex64', 'cfloat': 'np.complex128', 'clongfloat': 'np.clongdouble', 'longcomplex': 'np.clongdouble', 'nbytes': None, 'byte_bounds': None,
    'compare_chararrays': None, 'deprecate': None, 'disp': None, 'fastCopyAndTranspose': None, 'get_array_wrap': None, 'recfromcsv': None, 'recfromtxt': None,
}


def numpy_removed_api(ctx: Ctx) -> None:
    R = 'I.numpy-removed-api'
    ctx.rule(R, 'configured generic check: no attribute of the `np` / `numpy` module that was removed from the NumPy 2.x line this checkout runs on (np.in1d, np.product, '
             'np.float_, ...) is referenced in core — such a reference raises AttributeError on the path that reaches it, whatever the inputs', floor=1)
    n = 0
    for m in ctx.prog.modules.values():
        for a in ast.walk(m.tree):
            if isinstance(a, ast.Attribute) and isinstance(a.value, ast.Name) and a.value.id in ('np', 'numpy'):
                n += 1
                if a.attr in NUMPY_REMOVED:
                    alt = NUMPY_REMOVED[a.attr]
                    ctx.bad(R, f'{m.short}.<module>', a, f'`np.{a.attr}` does not exist in the pinned NumPy: every call that reaches it raises AttributeError'
                            + (f' (use {alt})' if alt else ''), key=f'{m.short}:np.{a.attr}', file=m.relpath)
    fixture = ast.parse('func = np.in1d if array.ndim == 1 else np.isin')
    if not any(isinstance(a, ast.Attribute) and a.attr in NUMPY_REMOVED for a in ast.walk(fixture)):
        raise AnalysisError('positive fixture of I.numpy-removed-api no longer matches')
    ctx.ok(R, 'core.<all np attributes>', None, f'{n} references to attributes of np scanned; none is in the removed-API table (fixture matched)', key='scan', file='static_frame/core')


FLOOR_OHT = 2


def optional_hashable_tests(ctx: Ctx, kinds: tp.Sequence[str] = ('Hashable',)) -> None:
    R = 'I.optional-hashable-identity-test'
    ctx.rule(R, 'a parameter that takes a label (annotated tp.Hashable) and defaults to None is told apart from "not given" by identity '
             '(`p is None` / `p is not None`), never by truthiness: 0, "", False and () are legitimate labels, and a truthiness test silently treats them as absent '
             '(`relabel_level_add(index=0)` adds nothing; a Quilt over a Bus label 0 loses that level)', floor=FLOOR_OHT)
    prog = ctx.prog
    n = 0
    for f in prog.all_funcs():
        if isinstance(f.node, ast.Lambda):
            continue
        a = f.node.args
        allargs = a.posonlyargs + a.args + a.kwonlyargs
        defaults = [None] * (len(a.posonlyargs + a.args) - len(a.defaults)) + list(a.defaults) + list(a.kw_defaults)
        cand: tp.Set[str] = set()
        for arg, d in zip(allargs, defaults):
            ann = norm(arg.annotation) if arg.annotation is not None else ''
            if isinstance(d, ast.Constant) and d.value is None and any(kd in ann for kd in kinds) \
                    and not any(w in ann for w in ('Iterable', 'Callable', 'Mapping', 'Sequence', 'Iterator', 'List', 'Tuple[')):
                cand.add(arg.arg)
        if not cand:
            continue
        # a test counts while the name still holds the argument: up to (and including) the first statement that rebinds it
        first_rebind: tp.Dict[str, int] = {}
        for s in walk_local(f.node):
            if isinstance(s, (ast.Assign, ast.AugAssign)):
                for t in (s.targets if isinstance(s, ast.Assign) else [s.target]):
                    if isinstance(t, ast.Name) and t.id in cand:
                        first_rebind[t.id] = min(first_rebind.get(t.id, 10 ** 9), s.end_lineno or s.lineno)
        for node in walk_local(f.node):
            if not hasattr(node, 'lineno'):
                continue
            atoms: tp.List[ast.expr] = []
            if isinstance(node, (ast.If, ast.IfExp, ast.While)):
                atoms.append(node.test)
            elif isinstance(node, ast.BoolOp):
                atoms.extend(node.values)
            elif isinstance(node, ast.UnaryOp) and isinstance(node.op, ast.Not):
                atoms.append(node.operand)
            elif isinstance(node, ast.Compare) and len(node.ops) == 1 and isinstance(node.ops[0], (ast.Is, ast.IsNot)) and isinstance(node.left, ast.Name) \
                    and node.left.id in cand and isinstance(node.comparators[0], ast.Constant) and node.comparators[0].value is None \
                    and node.lineno <= first_rebind.get(node.left.id, 10 ** 9):
                n += 1
                ctx.ok(R, f, node, f'`{norm(node)}`', key=f'{f.qualname.split(".", 1)[1]}:{node.left.id}:identity')
                continue
            for t in atoms:
                if isinstance(t, ast.Name) and t.id in cand and node.lineno <= first_rebind.get(t.id, 10 ** 9):
                    n += 1
                    ctx.bad(R, f, node, f'`{t.id}` (a label / name, default None) is tested by truthiness in `{norm(node)[:70]}`: the labels 0, "", False are treated as not given',
                            key=f'{f.qualname.split(".", 1)[1]}:{t.id}:truthiness')
    ctx.require(n >= FLOOR_OHT, "tests of optional label / name parameters")


# (function, option): generators / functions whose every produced value depends on the option (confirmed by reading)
OPTION_CONSULTED = (
    ('type_blocks.TypeBlocks.axis_values', 'reverse', 'IndexHierarchy.__reversed__ and the reverse column iterator of Frame rely on it for every block layout'),
)


def option_consulted(ctx: Ctx) -> None:
    R = 'I.option-consulted'
    ctx.rule(R, 'an option that decides the order / form of everything a routine produces is consulted on every path that produces something: for each listed '
             '(function, option) every `yield` / value `return` is reached only after a test of the option (or the option is handed on in the producing call); a fast '
             'path that yields before looking at the option serves one layout in the default order whatever was asked (reversed() of a hierarchy over one 2-D block)', floor=1)
    prog = ctx.prog
    n = 0
    for qual, opt, _why in OPTION_CONSULTED:
        f = prog.func(qual)
        ctx.require(opt in f.params, f'{qual} takes `{opt}`')

        def mentions(e: ast.AST) -> bool:
            return any(isinstance(x, ast.Name) and x.id == opt for x in ast.walk(e))

        class C(flow.Client):
            for_at_least_once = True

            def __init__(self):
                self.bad: tp.List[ast.AST] = []

            def join(self, a, b):
                return a and b

            def refine(self, atom, st, truth):
                return True if mentions(atom) else st

            def on_expr(self, node, st):
                if isinstance(node, (ast.Yield, ast.YieldFrom)) and not st and not (node.value is not None and mentions(node.value)):
                    self.bad.append(node)
                return st

            def on_yield(self, node, st):
                if not st and not (getattr(node, 'value', None) is not None and mentions(node.value)):
                    if not any(b is node for b in self.bad):
                        self.bad.append(node)
                return st

            def on_return(self, s, st):
                if not st and getattr(s, 'value', None) is not None and not mentions(s.value):
                    self.bad.append(s)
        c = C()
        flow.Engine(c).run(f.node.body, False)
        n += 1
        key = f'{qual.split(".", 1)[1]}:{opt}'
        if c.bad:
            ctx.bad(R, f, c.bad[0], f'`{norm(c.bad[0])[:60]}` produces values on a path that never looked at `{opt}`: callers asking for the other setting get this one', key=key)
        else:
            ctx.ok(R, f, f.node, f'every producing path consults `{opt}`', key=key)
    ctx.require(n >= 1, 'option-consulted table')


def stale_derived_flag(ctx: Ctx, modules: tp.Sequence[str] = ('type_blocks', 'frame', 'series', 'util', 'container_util')) -> None:
    R = 'I.derived-flag-fresh'
    ctx.rule(R, 'a local that records a fact about an array (`A.any()`, `A.all()`, `A.sum()`, `len(A)`, `A.size`) still describes that array where it is tested: between the '
             'capture and the test the array is not changed in place (`A &= ...`, `A |= ...`, `A[...] = ...`) nor narrowed by rebinding (`A = A & ...`); a flag captured before the mask is '
             'narrowed decides with the old contents (a block is re-typed although nothing is written into it)', floor=10)
    prog = ctx.prog
    n = 0
    for f in prog.all_funcs():
        if isinstance(f.node, ast.Lambda) or f.module.short not in modules:
            continue
        stmts = [s for s in walk_local(f.node) if isinstance(s, ast.stmt)]
        for a in stmts:
            if not (isinstance(a, ast.Assign) and len(a.targets) == 1 and isinstance(a.targets[0], ast.Name)):
                continue
            v = a.value
            arr = None
            if isinstance(v, ast.Call) and isinstance(v.func, ast.Attribute) and v.func.attr in ('any', 'all', 'sum') and isinstance(v.func.value, ast.Name) and not v.args:
                arr = v.func.value.id
            elif isinstance(v, ast.Call) and call_name(v) == 'len' and v.args and isinstance(v.args[0], ast.Name):
                arr = v.args[0].id
            elif isinstance(v, ast.Attribute) and v.attr in ('size',) and isinstance(v.value, ast.Name):
                arr = v.value.id
            if arr is None or arr in ('self',):
                continue
            flag = a.targets[0].id
            # tests that read the flag after the capture
            uses = [t for t in walk_local(f.node) if isinstance(t, (ast.If, ast.While, ast.IfExp)) and t.lineno > a.lineno
                    and any(isinstance(x, ast.Name) and x.id == flag for x in ast.walk(t.test))]
            if not uses:
                continue
            n += 1
            key = f'{f.qualname.split(".", 1)[1]}:{flag}<-{arr}'
            bad = None
            for t in uses:
                # recomputed in between?
                if any(isinstance(s, ast.Assign) and any(isinstance(x, ast.Name) and x.id == flag for x in s.targets) and a.lineno < s.lineno < t.lineno for s in stmts):
                    continue
                for s in stmts:
                    if not (a.lineno < s.lineno <= t.lineno) or s is t:
                        continue
                    # statements inside the test's own body come after the test
                    inner = (t.body + t.orelse) if isinstance(t, (ast.If, ast.While)) else [t.body, t.orelse]
                    if any(y is s for b in inner for y in ast.walk(b)):
                        continue
                    mut = (isinstance(s, ast.AugAssign) and isinstance(s.target, ast.Name) and s.target.id == arr) or \
                        (isinstance(s, ast.AugAssign) and isinstance(s.target, ast.Subscript) and isinstance(s.target.value, ast.Name) and s.target.value.id == arr) or \
                        (isinstance(s, ast.Assign) and any(isinstance(x, ast.Subscript) and isinstance(x.value, ast.Name) and x.value.id == arr for x in s.targets)) or \
                        (isinstance(s, ast.Assign) and any(isinstance(x, ast.Name) and x.id == arr for x in s.targets) and
                         ((isinstance(s.value, ast.BinOp) and isinstance(s.value.op, (ast.BitAnd, ast.BitOr, ast.BitXor))) or
                          (isinstance(s.value, ast.UnaryOp) and isinstance(s.value.op, ast.Invert))) and
                         any(isinstance(y, ast.Name) and y.id == arr for y in ast.walk(s.value)))       # A = A & other: the same mask, narrowed
                    if mut:
                        bad = (s, t)
                        break
                if bad:
                    break
            if bad:
                ctx.bad(R, f, bad[1], f'`{flag}` was captured from `{norm(a.value)}` at line {a.lineno - f.node.lineno + 1} of the function, then `{norm(bad[0])[:50]}` changed `{arr}`, '
                        f'and `{norm(bad[1].test)[:50]}` still decides with the old fact', key=key)
            else:
                ctx.ok(R, f, a, f'`{arr}` is not changed between the capture of `{flag}` and its tests', key=key)
    ctx.require(n >= 10, 'captured array facts that are tested later')


def out_parameter_written(ctx: Ctx) -> None:
    R = 'I.out-parameter-written'
    ctx.rule(R, 'a reduction helper that accepts `out=` is called by TypeBlocks.ufunc_axis_skipna as a statement — `func(array=b, axis=axis, out=out[pos:end])` — and its '
             'return value is dropped: on every path on which `out` may be given, each value-return of such a helper either hands `out=out` to the call that '
             'produces the value, or has stored the value into `out`; a path that only returns the value leaves that slice of the (np.empty) result uninitialised '
             '(any() / all() of a zero-row or datetime 2-D block in a multi-block Frame returns garbage)', floor=5)
    prog = ctx.prog
    n = 0
    for f in prog.top_funcs():
        if f.module.short != 'util' or 'out' not in f.params:
            continue

        class C(flow.Client):
            def __init__(self):
                self.bad: tp.List[ast.AST] = []
                self.seen = 0

            def join(self, a, b):
                return a & b

            def refine(self, atom, st, truth):
                t = norm(atom)
                if t == 'out is None' and truth:
                    return st | {'none'}
                if t == 'out is not None' and not truth:
                    return st | {'none'}
                # a 1-D input reduces to an element: the caller takes the return value (`out[pos] = func(array=b, axis=axis)`), `out` is only given for 2-D blocks
                if truth and isinstance(atom, ast.Compare) and len(atom.ops) == 1 and isinstance(atom.ops[0], ast.Eq) and isinstance(atom.left, ast.Attribute) \
                        and atom.left.attr == 'ndim' and norm(atom.comparators[0]) == '1':
                    return st | {'none'}
                return st

            def on_stmt(self, s, st):
                tg = s.targets[0] if isinstance(s, ast.Assign) and len(s.targets) == 1 else (s.target if isinstance(s, ast.AugAssign) else None)
                if isinstance(tg, ast.Subscript) and isinstance(tg.value, ast.Name) and tg.value.id == 'out':
                    return st | {'stored'}
                return st

            def on_return(self, s, st):
                if s.value is None:
                    return
                self.seen += 1
                v = s.value
                forwards = isinstance(v, ast.Call) and any(k.arg == 'out' and norm(k.value) == 'out' for k in v.keywords)
                returns_out = isinstance(v, ast.Name) and v.id == 'out'
                if forwards or returns_out or 'stored' in st or 'none' in st:
                    return
                self.bad.append(s)
        c = C()
        flow.Engine(c).run(f.node.body, frozenset())
        if not c.seen:
            continue
        n += c.seen
        key = f'{f.name}:out'
        if c.bad:
            ctx.bad(R, f, c.bad[0], f'`{norm(c.bad[0])[:60]}` returns a value without `out=out` and without storing it into `out`: when the caller gave `out` (and drops the '
                    f'return value) that part of the result stays uninitialised ({len(c.bad)} such return(s))', key=key)
        else:
            ctx.ok(R, f, f.node, f'{c.seen} value-return(s): each forwards `out` or has written it', key=key)
    ctx.require(n >= 8, 'value-returns of helpers that take `out`')
